"""C26 - static files and FilePath never escape their directory."""
from __future__ import annotations

import ast
import itertools
import posixpath

from sa.astx import call_attr, call_name, src, walk_local
from sa.selftest import Mutant, Silent
from sa.source import AnalysisError, methods
from sa.props._lib_f import (InterpError, ModelRaised, call_repo, call_sites, enclosing_try_handlers, from_here, handler_names, interpret, named_calls,
                             param_names)

PROPERTY = "C26"
FP = "python/filepath.py"
ST = "web/static.py"
SV = "web/server.py"
RS = "web/resource.py"
TECHNIQUE = "finite-domain interpretation of the containment checks + taint to path sinks"
EXPLANATION = (
    "Decides: (a) FilePath.child and FilePath.preauthChild are interpreted with the whitelisted evaluator (os.path modelled by posixpath, no execution of "
    "twisted) in str and bytes mode for every name built from up to three segments of a hostile alphabet ('', '.', '..', a, root, root-evil, rootx, ..a) plus absolute, NUL, "
    "backslash and doubled-separator forms, against parents '/t/root' and '/': the result must be InsecurePath, the parent itself, or a direct child "
    "(child) / a path inside the subtree with a separator-aware boundary (preauthChild; F26, fixed), and ordinary names must still be accepted; "
    "descendant is interpreted on segment lists over the same alphabet (its result must be InsecurePath or inside the subtree); the str/bytes coercions used on the way (_asFilesystemText/_asFilesystemBytes/_coerceToFilesystemEncoding/_getPathAsSameTypeAs) are the repository's own functions, interpreted with the codecs delegated to CPython, and mixed-mode parents whose name is not valid UTF-8 are part of the grid (containment is compared byte-wise, so a lossy coercion shows); (b) static.File.getChild is interpreted as a whole over the hostile segments against a model file system that has a same-prefix sibling file and directory next to the root with ignoredExts=('.bak',): every resource returned stays inside the root; taint: in static.File.getChild the request segment reaches a path constructor only "
    "through self.child() inside a try that turns InsecurePath into childNotFound; File/Resource do not override child; a segment that is not UTF-8 "
    "gives childNotFound; (c) server.Request.process splits the path at '/' before unquoting each piece and resource.getChildForRequest hands each "
    "piece on whole, so an encoded separator stays inside one segment. Not decided: symbolic links (excluded by the statement), Windows path rules."
)
ASSUMPTIONS = ["posixpath.normpath/join/abspath model os.path on the analysed platform (POSIX)",
               "File.indexNames / ignoredExts are administrator configuration, not request data"]

ROOTS = ["/t/root", "/"]
SEGS = ["", ".", "..", "a", "root", "root-evil", "rootx", "..a"]
SPECIAL = ["/etc/passwd", "//etc", "a\x00b", "..\\x", "\\", "a//b", "a/./b", "../root/../root-evil/x", "../../t/root-evil", "../root", "../root/",
           "../root/a", "../rootx", "/t/root-evil/x", "/t/root/a", "/t/root", "a/..", "a/../..", "%2e%2e", "%2e%2e/x", "...", "a/", "/",
           # names that normalise to '..' / to the parent without being literally '..'
           "../", "./..", "x/../..", "..//", "a/../../b", "./../", ".//..", "../.", "x/../../", "x/y/../../..", "../rootsibling/secret.txt", "../root-evil"]


def _names():
    out = []
    for n in (1, 2, 3):
        for combo in itertools.product(SEGS, repeat=n):
            out.append("/".join(combo))
    return sorted(set(out + SPECIAL))


class InsecurePath(Exception):
    """stands for twisted.python.filepath.InsecurePath when a modelled method raises it"""


REPO_HELPERS = ("_asFilesystemBytes", "_asFilesystemText", "_coerceToFilesystemEncoding")
REPO_METHODS = ("child", "preauthChild", "_getPathAsSameTypeAs", "_asBytesPath", "_asTextPath", "siblingExtensionSearch", "childSearchPreauth", "siblingExtension")

# model file system for the static.File evaluation: a web root, a same-prefix sibling *file* and *directory* next to it, and ordinary content
FS = {"/": "dir", "/t": "dir", "/t/www": "dir", "/t/www.bak": "file", "/t/www-evil": "dir", "/t/www-evil/x": "file", "/t/secret": "file",
      "/t/www/a": "file", "/t/www/page.bak": "file", "/t/www/sub": "dir", "/t/www/sub/b": "file", "/t/root": "dir"}


def _b(p):
    return p.encode("utf-8", "surrogateescape") if isinstance(p, str) else p


class _FP:
    """Model of a FilePath: holds the path; every path-computing method (child, preauthChild, the str/bytes coercions, the extension search) is evaluated by
    interpreting the repository's own function with os.path modelled by posixpath and the codecs delegated to CPython (nothing of twisted is executed)."""
    _sa_model = True

    def __init__(self, path, repo):
        self.path = path
        self.repo = repo

    # -- evaluation of repository code
    def _funcs(self):
        if getattr(self, "_fcache", None) is not None:
            return self._fcache
        f = self._build_funcs()
        self._fcache = f
        return f

    def _build_funcs(self):
        f = {"platform.isWindows": lambda: False, "self.clonePath": self.clonePath, "sys.getfilesystemencoding": lambda: "utf-8",
             "exists": lambda p: posixpath.normpath(_text(p)) in FS, "listdir": lambda p: sorted(posixpath.basename(k) for k in FS if posixpath.dirname(k) == posixpath.normpath(_text(p)) and k != "/"),
             "self.exists": self.exists, "self.isdir": self.isdir, "self.isfile": self.isfile}
        for nm in REPO_HELPERS:
            f[nm] = self._helper(nm)
        for nm in REPO_METHODS:
            if nm in self.repo:
                f["self." + nm] = self._method(nm)
        return f

    def _helper(self, nm):
        return lambda *a, **k: call_repo(self.repo[nm], a, k, funcs=self._funcs())

    def _method(self, nm):
        return lambda *a, **k: call_repo(self.repo[nm], a, k, selfobj=self, funcs=self._funcs())

    def _call(self, meth, *args):
        try:
            return call_repo(self.repo[meth], args, selfobj=self, funcs=self._funcs())
        except ModelRaised as e:
            if e.name == "InsecurePath":
                raise InsecurePath(*args)
            raise RuntimeError(f"{meth} raises {e.name}")

    def child(self, name):
        return self._call("child", name)

    def preauthChild(self, name):
        return self._call("preauthChild", name)

    def siblingExtensionSearch(self, *exts):
        return self._call("siblingExtensionSearch", *exts)

    def childSearchPreauth(self, *names):
        return self._call("childSearchPreauth", *names)

    def clonePath(self, p, *a):
        return type(self)(p, self.repo) if type(self) is _FP else _FP(p, self.repo)

    # -- model file system
    def _norm(self):
        return posixpath.normpath(_text(self.path))

    def exists(self):
        return self._norm() in FS

    def isdir(self):
        return FS.get(self._norm()) == "dir"

    def isfile(self):
        return FS.get(self._norm()) == "file"

    def restat(self, *a, **k):
        return None

    def splitext(self):
        return posixpath.splitext(self.path)

    def basename(self):
        return posixpath.basename(self.path)


def _text(p):
    return p.decode("utf-8", "surrogateescape") if isinstance(p, bytes) else p


def _inside(root, p, direct):
    """byte-wise containment (str paths are compared through the lossless surrogateescape encoding, so a lossy coercion shows)"""
    root = _b(root)
    p = posixpath.normpath(_b(p))
    if p == root:
        return True
    base = root.rstrip(b"/") + b"/"
    if not p.startswith(base):
        return False
    rest = p[len(base):]
    return (b"/" not in rest) if direct else True


def _methods(ctx):
    mod = ctx.mod(FP)
    repo = {}
    for nm in REPO_HELPERS:
        repo[nm] = ctx.func(FP, nm)
    for nm in REPO_METHODS:
        repo[nm] = ctx.func(FP, "FilePath." + nm)
    return repo


# (parent path, type of the names tried against it, subset of names?)  - the last two are the mixed-mode cases with a parent name that is not valid UTF-8
PARENTS = [("/t/root", str, False), ("/t/root", bytes, False), ("/", str, True), ("/", bytes, True), (b"/t/root", str, True), (b"/t/root", bytes, True),
           (b"/t/r\xffot", str, True), (b"/t/r\xffot", bytes, True), ("/t/r\udcffot", bytes, True)]


def _semantics(ctx, meth, direct, rule):
    ms = _methods(ctx)
    q = "twisted.python.filepath.FilePath." + meth
    bad, accepted, n = [], 0, 0
    names = _names()
    short_names = [x for x in names if x.count("/") <= 1][:160]
    try:
        for root, mode, subset in PARENTS:
            fp = _FP(root, ms)
            for name0 in (short_names if subset else names):
                name = name0.encode("utf-8") if mode is bytes else name0
                n += 1
                try:
                    val = getattr(fp, meth)(name)
                except InsecurePath:
                    continue
                except RuntimeError as e:
                    bad.append((root, name, str(e)))
                    continue
                if not isinstance(val, _FP) or not isinstance(val.path, mode):
                    bad.append((root, name, f"returns {getattr(val, 'path', val)!r}"))
                elif not _inside(root, val.path, direct):
                    bad.append((root, name, f"returns {val.path!r}"))
                else:
                    accepted += 1
            # ordinary names are accepted and land where expected
            rb = _b(root).rstrip(b"/")
            for name0, want in (("a", rb + b"/a"), ("..a", rb + b"/..a")) + ((("a/root", rb + b"/a/root"),) if not direct else ()):
                name = name0.encode("utf-8") if mode is bytes else name0
                try:
                    val = getattr(fp, meth)(name)
                    got = _b(val.path) if isinstance(val, _FP) else repr(val)
                except (InsecurePath, RuntimeError) as e:
                    got = f"raises {type(e).__name__}"
                if got != want:
                    bad.append((root, name, f"gives {got!r} instead of {want!r}"))
    except InterpError as e:
        raise AnalysisError(f"C26: FilePath.{meth} (or a coercion helper it uses) has a construct the evaluator cannot interpret: {e}")
    msg = ""
    if bad:
        r, nm, what = bad[0]
        msg = (f"FilePath({r!r}).{meth}({nm!r}) {what}: not InsecurePath, the parent itself or "
               f"{'a direct child' if direct else 'a path inside the subtree'}; {len(bad)} of {n} names misjudged")
    ctx.check(not bad, rule, q, msg, detail=f"{n} (parent, name, str/bytes) cases; {accepted} accepted, all contained")
    ctx.extra.setdefault("finite_cases", {})[meth] = n


def check(ctx):
    with ctx.section("child"):
        _semantics(ctx, "child", True, "containment/child-semantics")
    with ctx.section("preauthChild"):
        _semantics(ctx, "preauthChild", False, "containment/preauth-semantics")
    with ctx.section("descendant"):
        _descendant(ctx)
    with ctx.section("static"):
        _static(ctx)
    with ctx.section("static-evaluated"):
        _static_evaluated(ctx)
    with ctx.section("server"):
        _server(ctx)


def _descendant(ctx):
    ms = _methods(ctx)
    own = methods(ctx.cls(FP, "FilePath")).get("descendant")
    stub = own is None or all(isinstance(s_, (ast.Expr, ast.Pass)) for s_ in own.body)   # TYPE_CHECKING signature stubs
    f = ctx.func(FP, "AbstractFilePath.descendant") if stub else own
    q = "twisted.python.filepath." + ("AbstractFilePath" if stub else "FilePath") + ".descendant"
    seg = param_names(f)[1]
    singles = sorted(set(SEGS + ["a/b", "../root-evil", "/etc", "x/../..", "../", "./..", "..//", "a/../../b"]))
    cases = [[a_] for a_ in singles] + [[a_, b_] for a_ in singles for b_ in singles] + [["a", "b", ".."], ["a", "..", ".."], ["a", "b", "c"]]
    bad, n = [], 0
    try:
        for root, mode in [(r_, m_) for r_ in ROOTS for m_ in (str, bytes)] + [(b"/t/r\xffot", str)]:
            if True:
                for segs0 in cases if isinstance(root, str) else cases[:60]:
                    segs = [x.encode("utf-8") if mode is bytes else x for x in segs0]
                    n += 1
                    fp = _FP(root, ms)
                    kind, val = interpret(f, {seg: segs, "self": fp}, funcs=fp._funcs())
                    if kind == "raise":
                        if val != "InsecurePath":
                            bad.append((root, segs, f"raises {val}"))
                        continue
                    if not isinstance(val, _FP) or not _inside(root, val.path, False):
                        bad.append((root, segs, f"returns {getattr(val, 'path', val)!r}"))
                for segs0, want in ((["a", "b"], _b(root).rstrip(b"/") + b"/a/b"), ([], _b(root))):
                    segs = [x.encode("utf-8") if mode is bytes else x for x in segs0]
                    fp = _FP(root, ms)
                    kind, val = interpret(f, {seg: segs, "self": fp}, funcs=fp._funcs())
                    if kind != "return" or not isinstance(val, _FP) or _b(val.path) != want:
                        bad.append((root, segs, f"gives {kind} {getattr(val, 'path', val)!r} instead of {want!r}"))
    except InterpError as e:
        raise AnalysisError(f"C26: descendant() uses a construct the evaluator cannot interpret: {e}")
    msg = ""
    if bad:
        r, sg, what = bad[0]
        msg = f"FilePath({r!r}).descendant({sg!r}) {what}: not InsecurePath or a path inside the subtree; {len(bad)} of {n} segment lists misjudged"
    ctx.check(not bad, "containment/descendant-semantics", q, msg, detail=f"{n} segment lists")


SANITISER = "self.child"
PATH_BUILDERS = {"preauthChild", "descendant", "clonePath", "joinpath", "join", "FilePath", "File", "sibling", "siblingExtension", "childSearchPreauth",
                 "siblingExtensionSearch", "createSimilarFile", "open", "abspath", "normpath"}


def _static(ctx):
    f = ctx.func(ST, "File.getChild")
    g = ctx.cfg(f)
    q = "twisted.web.static.File.getChild"
    seg = param_names(f)[1]
    tainted = {seg}
    changed = True
    assigns = [s for s in walk_local(f) if isinstance(s, ast.Assign)]
    while changed:
        changed = False
        for s in assigns:
            v = s.value
            if isinstance(v, ast.Call) and call_name(v) == SANITISER:
                continue
            if any(isinstance(x, ast.Name) and x.id in tainted for x in ast.walk(v)):
                for t in s.targets:
                    for x in ast.walk(t):
                        if isinstance(x, ast.Name) and x.id not in tainted:
                            tainted.add(x.id)
                            changed = True

    def mentions(node):
        return any(isinstance(x, ast.Name) and x.id in tainted for x in ast.walk(node))

    nsan = 0
    for c in [c for c in walk_local(f) if isinstance(c, ast.Call)]:
        args = list(c.args) + [k.value for k in c.keywords]
        if not any(mentions(a) for a in args):
            continue
        cn = call_name(c) or ""
        if cn == SANITISER:
            nsan += 1
            ctx.check(len(c.args) == 1 and isinstance(c.args[0], ast.Name), "static/segment-only-through-child", ctx.construct(q, c),
                      "the request segment is transformed before it reaches child()")
            hs = enclosing_try_handlers(f, c)
            ok = any("InsecurePath" in handler_names(h) for h in hs)
            ctx.check(ok, "static/insecure-path-handled", ctx.construct(q, c), "InsecurePath raised for a hostile segment is not handled (500 instead of not-found)")
            for h in hs:
                if "InsecurePath" in handler_names(h):
                    rets = [n for n in g.ids(lambda x: x.kind == "stmt" and isinstance(x.ast, ast.Return)) if src(g.node(n).ast.value) == "self.childNotFound"]
                    w = from_here(g, g.ids_of(h), rets)
                    ctx.check(w is None, "static/insecure-path-handled", q + " | except InsecurePath", "a refused segment does not end in childNotFound", witness=g.describe(w))
        elif cn in ("isinstance", "log.err", "log.msg", "repr") or (isinstance(c.func, ast.Attribute) and c.func.attr == "decode" and mentions(c.func.value)):
            ctx.ok("static/segment-only-through-child", ctx.construct(q, c), "inert use of the segment")
        else:
            ctx.violation("static/segment-only-through-child", ctx.construct(q, c),
                          "the request path segment is passed to a call other than self.child(): it can name a file outside the directory (no separator / '..' rejection)")
    for c in [c for c in walk_local(f) if isinstance(c, ast.Call) and isinstance(c.func, ast.Attribute) and mentions(c.func.value) and c.func.attr != "decode"]:
        ctx.violation("static/segment-only-through-child", ctx.construct(q, c), "a method of the raw request segment is used to derive a path")
    for b in [b for b in walk_local(f) if isinstance(b, ast.BinOp) and mentions(b)]:
        ctx.violation("static/segment-only-through-child", ctx.construct(q, b), "the request segment is combined into a path by an operator")
    ctx.check(nsan == 1, "static/segment-only-through-child", q + " | child(segment)", f"{nsan} self.child(segment) sites (exactly one expected)")
    # no other path builder is fed from request-independent-but-unchecked data except the two configured lists
    for c in [c for c in walk_local(f) if isinstance(c, ast.Call) and call_attr(c) in PATH_BUILDERS]:
        a = [src(x) for x in c.args]
        nm = call_attr(c)
        ok = (nm == "childSearchPreauth" and a == ["*self.indexNames"]) or (nm == "siblingExtensionSearch" and a == ["*self.ignoredExts"]) or \
             (nm == "createSimilarFile" and a == ["fpath.path"])
        ctx.check(ok, "static/path-builders", ctx.construct(q, c), "a path is built in getChild from something other than child(segment) / the configured index names and extensions")
    # undecodable segment
    dec = [c for c in walk_local(f) if isinstance(c, ast.Call) and call_attr(c) == "decode" and src(c.func.value) == seg]
    ctx.check(len(dec) == 1, "static/undecodable-notfound", q, "the bytes segment is not decoded exactly once")
    for c in dec:
        hs = enclosing_try_handlers(f, c)
        hh = [h for h in hs if {"UnicodeDecodeError", "UnicodeError", "ValueError"} & set(handler_names(h))]
        rets = [n for n in g.ids(lambda x: x.kind == "stmt" and isinstance(x.ast, ast.Return)) if src(g.node(n).ast.value) == "self.childNotFound"]
        ok = bool(hh) and all(from_here(g, g.ids_of(h), rets) is None for h in hh)
        ctx.check(ok, "static/undecodable-notfound", ctx.construct(q, c), "a segment that is not valid UTF-8 is not answered with childNotFound")
    # nobody shadows child()
    for rel, cn in ((ST, "File"), (RS, "Resource")):
        ms = methods(ctx.cls(rel, cn))
        ctx.check(not ({"child", "preauthChild"} & set(ms)), "static/child-not-overridden", f"{rel}:{cn}", "child()/preauthChild() is overridden, FilePath's containment check no longer applies")
    bases = [src(b) for b in ctx.cls(ST, "File").bases]
    ctx.check(any(b.startswith("filepath.FilePath") for b in bases), "static/child-not-overridden", "twisted.web.static.File | bases", f"File no longer derives from filepath.FilePath: {bases}")


class _File(_FP):
    """model of a static.File rooted at /t/www (see FS): getChild is interpreted as a whole; the FilePath methods it calls are interpreted too"""
    childNotFound = "<childNotFound>"
    indexNames = ["index", "index.html"]
    ignoredExts = (".bak",)
    processors: dict = {}
    registry = None
    type = None

    def directoryListing(self):
        return "<directory listing>"

    def createSimilarFile(self, path):
        return ("File", path)


def _static_evaluated(ctx):
    f = ctx.func(ST, "File.getChild")
    q = "twisted.web.static.File.getChild"
    ms = _methods(ctx)
    root = "/t/www"
    segs = sorted(set(_names()[:0] + SEGS + SPECIAL + ["a", "page", "sub", "www", "www.bak", "../www.bak", ".", "./", ".//", "sub/..", "a/..", "x/..", "sub/../", "..", "../", "../www", "../www/",
                                                  "../www/a", "../www-evil", "../www-evil/x", "../secret", "/t/secret", "www-evil", "page.bak", "nothere", ""]))
    bad = []
    n = 0
    try:
        for s0 in segs:
            n += 1
            me = _File(root, ms)
            funcs = me._funcs()
            funcs.update({"log.err": lambda *a, **k: None, "log.msg": lambda *a, **k: None, "resource.IResource": lambda x: x, "InsensitiveDict": lambda d: d})
            kind, val = interpret(f, {"self": me, param_names(f)[1]: s0.encode("utf-8", "surrogateescape"), param_names(f)[2]: None},
                                  {"platformType": "posix"}, funcs=funcs)
            if kind == "raise":
                bad.append((s0, f"raises {val}"))
            elif isinstance(val, tuple) and val and val[0] == "File":
                if not _inside(root, val[1], False):
                    bad.append((s0, f"serves {val[1]!r}"))
            elif val not in (_File.childNotFound, "<directory listing>"):
                bad.append((s0, f"returns {val!r}"))
        kind, val = interpret(f, {"self": _File(root, ms), param_names(f)[1]: b"a\xff", param_names(f)[2]: None}, {"platformType": "posix"},
                              funcs=dict(_File(root, ms)._funcs(), **{"log.err": lambda *a, **k: None}))
        if (kind, val) != ("return", _File.childNotFound):
            bad.append(("a\\xff", f"{kind} {val!r} instead of childNotFound"))
        kind, val = interpret(f, {"self": _File(root, ms), param_names(f)[1]: b"a", param_names(f)[2]: None}, {"platformType": "posix"}, funcs=_File(root, ms)._funcs())
        if (kind, val) != ("return", ("File", "/t/www/a")):
            bad.append(("a", f"{kind} {val!r} instead of the file /t/www/a"))
        kind, val = interpret(f, {"self": _File(root, ms), param_names(f)[1]: b"page", param_names(f)[2]: None}, {"platformType": "posix"}, funcs=_File(root, ms)._funcs())
        if (kind, val) != ("return", ("File", "/t/www/page.bak")):
            bad.append(("page", f"{kind} {val!r} instead of /t/www/page.bak (ignored extension)"))
    except InterpError as e:
        raise AnalysisError(f"C26: static.File.getChild (or a FilePath method it uses) has a construct the evaluator cannot interpret: {e}")
    msg = ""
    if bad:
        sg, why = bad[0]
        msg = (f"static.File('/t/www').getChild({sg.encode()!r}) {why}: outside the directory tree (model file system with a sibling file /t/www.bak and directory /t/www-evil, "
               f"ignoredExts=('.bak',)); {len(bad)} of {n} segments misjudged")
    ctx.check(not bad, "static/evaluated-containment", q, msg, detail=f"{n} request segments")


def _server(ctx):
    f = ctx.func(SV, "Request.process")
    q = "twisted.web.server.Request.process"
    sts = [s for s in walk_local(f) if isinstance(s, ast.Assign) and any(src(t) == "self.postpath" for t in s.targets)]
    ctx.check(len(sts) == 1, "server/split-before-unquote", q, "postpath is not assigned exactly once in process()")
    for s in sts:
        v = s.value
        while isinstance(v, ast.Call) and call_name(v) in ("list", "tuple") and len(v.args) == 1:
            v = v.args[0]
        ok = False
        if isinstance(v, ast.Call) and call_name(v) == "map" and len(v.args) == 2 and src(v.args[0]) == "unquote":
            inner = v.args[1]
            ok = isinstance(inner, ast.Call) and call_attr(inner) == "split" and [src(a) for a in inner.args] == ["b'/'"] and "unquote" not in src(inner.func.value) and \
                src(inner.func.value).startswith("self.path")
        elif isinstance(v, (ast.ListComp, ast.GeneratorExp)) and len(v.generators) == 1:
            it = v.generators[0].iter
            ok = isinstance(v.elt, ast.Call) and call_name(v.elt) == "unquote" and [src(a) for a in v.elt.args] == [src(v.generators[0].target)] and \
                isinstance(it, ast.Call) and call_attr(it) == "split" and [src(a) for a in it.args] == ["b'/'"] and "unquote" not in src(it.func.value)
        ctx.check(ok, "server/split-before-unquote", ctx.construct(q, s),
                  "the request path is not split at '/' before each piece is unquoted: %2F would create extra segments / '..' pieces that bypass per-segment checks")
    f = ctx.func(RS, "getChildForRequest")
    g = ctx.cfg(f)
    q = "twisted.web.resource.getChildForRequest"
    pops = [s for s in walk_local(f) if isinstance(s, ast.Assign) and isinstance(s.value, ast.Call) and call_name(s.value) == "request.postpath.pop"]
    gc = named_calls(g, "resource.getChildWithDefault")
    ok = len(pops) == 1 and len(gc) == 1 and [src(a) for a in gc[0][1].args] == [src(pops[0].targets[0]), "request"] and [src(a) for a in pops[0].value.args] == ["0"]
    ctx.check(ok, "server/segment-passed-whole", q, "the traversal does not hand each popped postpath segment unchanged (first to last) to getChildWithDefault")
    f = ctx.func(RS, "Resource.getChildWithDefault")
    g = ctx.cfg(f)
    q = "twisted.web.resource.Resource.getChildWithDefault"
    gc = named_calls(g, "self.getChild")
    ok = len(gc) == 1 and [src(a) for a in gc[0][1].args] == param_names(f)[1:3]
    ctx.check(ok, "server/segment-passed-whole", q, "getChild is not called with the segment as received")


MUTANTS = [
    Mutant("revert-F26-bare-prefix-test", FP, "        if newpath != ourPath and not newpath.startswith(ourPath.rstrip(sep) + sep):", "        if not newpath.startswith(ourPath):"),
    Mutant("child-drops-separator-test", FP, "        if sep in norm:\n            raise InsecurePath(f\"{path!r} contains one or more directory separators\")\n", ""),
    Mutant("child-checks-raw-name-for-separator", FP, "        norm = normpath(path)\n        if sep in norm:", "        norm = normpath(path)\n        if norm.startswith(sep):"),
    Mutant("child-prefix-test-dropped", FP, "        if not newpath.startswith(ourPath):\n            raise InsecurePath(f\"{newpath!r} is not a child of {ourPath!r}\")\n        return self.clonePath(newpath)\n\n    def preauthChild",
           "        return self.clonePath(newpath)\n\n    def preauthChild"),
    Mutant("preauth-joins-without-normalising", FP, "        newpath = abspath(joinpath(ourPath, normpath(path)))\n        if newpath != ourPath and", "        newpath = joinpath(ourPath, normpath(path))\n        if newpath != ourPath and"),
    Mutant("preauth-no-trailing-separator", FP, "not newpath.startswith(ourPath.rstrip(sep) + sep):", "not newpath.startswith(ourPath.rstrip(sep)):"),
    Mutant("extension-search-also-for-directories", ST, "        if not fpath.exists():\n            fpath = fpath.siblingExtensionSearch(*self.ignoredExts)\n            if fpath is None:\n                return self.childNotFound\n",
           "        if not fpath.exists() or fpath.isdir():\n            found = fpath.siblingExtensionSearch(*self.ignoredExts)\n            if found is None and not fpath.exists():\n                return self.childNotFound\n            fpath = found or fpath\n"),
    Mutant("coercion-to-text-is-lossy", FP, "        return path.decode(encoding, errors=\"surrogateescape\")", "        return path.decode(encoding, errors=\"ignore\")"),
    Mutant("getChild-uses-preauthChild", ST, "                fpath = self.child(path)\n", "                fpath = self.preauthChild(path)\n"),
    Mutant("getChild-joins-directly", ST, "                fpath = self.child(path)\n", "                fpath = self.clonePath(os.path.join(self.path, path))\n"),
    Mutant("getChild-insecurepath-unhandled", ST, "            try:\n                fpath = self.child(path)\n            except filepath.InsecurePath:\n                return self.childNotFound\n",
           "            fpath = self.child(path)\n"),
    Mutant("process-unquotes-before-split", SV, "        self.postpath = list(map(unquote, self.path[1:].split(b\"/\")))", "        self.postpath = unquote(self.path[1:]).split(b\"/\")"),
    Mutant("descendant-joins-segments-directly", FP, "        for name in segments:\n            path = path.child(name)\n        return path", "        for name in segments:\n            path = path.clonePath(joinpath(path.path, name))\n        return path"),
    Mutant("child-only-refuses-literal-pardir", FP, "        norm = normpath(path)\n        if sep in norm:\n            raise InsecurePath(f\"{path!r} contains one or more directory separators\")\n\n        newpath = abspath(joinpath(ourPath, norm))\n        if not newpath.startswith(ourPath):\n            raise InsecurePath(f\"{newpath!r} is not a child of {ourPath!r}\")\n        return self.clonePath(newpath)\n\n    def preauthChild",
           "        if path == _coerceToFilesystemEncoding(path, os.pardir):\n            raise InsecurePath(f\"{path!r} is the parent directory\")\n        norm = normpath(path)\n        if sep in norm:\n            raise InsecurePath(f\"{path!r} contains one or more directory separators\")\n        # norm is one segment and ourPath is absolute: no second look needed\n        return self.clonePath(joinpath(ourPath, norm))\n\n    def preauthChild"),
    Mutant("index-search-from-request", ST, "            fpath = self.childSearchPreauth(*self.indexNames)", "            fpath = self.childSearchPreauth(*(request.args.get(b\"index\") or self.indexNames))"),
]
SILENT = [
    Silent("extension-search-guard-rewritten", ST, "        if not fpath.exists():\n            fpath = fpath.siblingExtensionSearch(*self.ignoredExts)\n            if fpath is None:\n                return self.childNotFound\n",
           "        if fpath.exists():\n            pass\n        else:\n            found = fpath.siblingExtensionSearch(*self.ignoredExts)\n            if found is None:\n                return self.childNotFound\n            fpath = found\n"),
    Silent("coercion-explicit-codec-lookup", FP, "        if encoding is None:\n            encoding = sys.getfilesystemencoding()\n        return path.decode(encoding, errors=\"surrogateescape\")",
           "        codec = encoding if encoding is not None else sys.getfilesystemencoding()\n        return path.decode(codec, \"surrogateescape\")"),
    Silent("descendant-via-preauthChild-still-contained", FP, "        for name in segments:\n            path = path.child(name)\n        return path", "        for name in segments:\n            path = path.preauthChild(name)\n        return path"),
    Silent("child-explicit-pardir-test-keeps-recheck", FP, "        norm = normpath(path)\n        if sep in norm:", "        if path == _coerceToFilesystemEncoding(path, os.pardir):\n            raise InsecurePath(f\"{path!r} is the parent directory\")\n        norm = normpath(path)\n        if sep in norm:"),
    Silent("preauth-commonpath-real", FP, "        if newpath != ourPath and not newpath.startswith(ourPath.rstrip(sep) + sep):", "        if os.path.commonpath([newpath, ourPath]) != ourPath:"),
    Silent("preauth-commonpath-form", FP, "        if newpath != ourPath and not newpath.startswith(ourPath.rstrip(sep) + sep):", "        if newpath != ourPath and not (newpath + sep).startswith(ourPath.rstrip(sep) + sep):"),
    Silent("child-separator-aware-too", FP, "        if not newpath.startswith(ourPath):\n            raise InsecurePath(f\"{newpath!r} is not a child of {ourPath!r}\")\n        return self.clonePath(newpath)\n\n    def preauthChild",
           "        if newpath != ourPath and not newpath.startswith(ourPath.rstrip(sep) + sep):\n            raise InsecurePath(f\"{newpath!r} is not a child of {ourPath!r}\")\n        return self.clonePath(newpath)\n\n    def preauthChild"),
    Silent("process-comprehension", SV, "        self.postpath = list(map(unquote, self.path[1:].split(b\"/\")))", "        self.postpath = [unquote(piece) for piece in self.path[1:].split(b\"/\")]"),
    Silent("getChild-rename-local", ST, "                fpath = self.child(path)\n            except filepath.InsecurePath:\n                return self.childNotFound\n        else:\n            fpath = self.childSearchPreauth(*self.indexNames)\n            if fpath is None:",
           "                fpath = self.child(path)\n            except filepath.InsecurePath as e:\n                del e\n                return self.childNotFound\n        else:\n            fpath = self.childSearchPreauth(*self.indexNames)\n            if fpath is None:"),
]
