"""C29 - the HTTP/2 server respects flow control and delivers each stream intact."""
from __future__ import annotations

import ast
import collections

from sa.astx import call_attr, lin_expect, lincmp, src
from sa.selftest import Mutant, Silent
from sa.source import AnalysisError
from sa.astx import walk_local, call_name
from sa.props._lib_f import (Abstain, InterpError, MDeferred, ModelRaised, NullLogger, World, assign_sites, call_sites, from_here, named_calls, norm_method, param_names,
                             structural, truth_guard)

PROPERTY = "C29"
H2 = "web/_http2.py"
Q = "twisted.web._http2."
TECHNIQUE = "clamp dominance + window guards on the normalised send loop; one loop turn over all orderings; bounded multi-stream schedules"
EXPLANATION = (
    "STRUCTURAL on the normalised H2Connection / H2Stream: every chunk reaches send_data only through the false edge of `len(data) > bound` or the cut data[:bound], with bound = "
    "min(max_outbound_frame_size, local_flow_control_window(stream)); the remainder is appendleft-ed; every normal path of the loop re-schedules, parks or stops; flowControlBlocked() "
    "is guarded by remainingOutboundWindow <= 0 and resumeProducing() by remaining > 0 on a paused producer; every priority.unblock site has a queue known non-empty.  FINITE-"
    "EXHAUSTIVE: one loop turn over all orderings of (chunk length, max frame, window, 0), the sentinel / empty-chunk cases, remainingOutboundWindow over queue shapes.  BOUNDED "
    "second layer (bounded evidence only for: completeness and order of whole responses under window-update schedules, wake-up of the parked loop, producer pause/resume "
    "sequences): "
    "The module is parsed, never imported.  H2Connection and H2Stream become model objects whose methods are the repository's own functions (interpreted over the "
    "AST); the h2 state machine, the priority tree, the reactor, the transport and the body producers are small synchronous checker models.  Decided by running "
    "finite schedules and comparing with an oracle (plus, structurally: the stream a turn serves is defined only by next(self.priority) in that turn - no stream identity survives a "
    "wait, so a stream torn down meanwhile cannot kill the loop; the bound of a frame is min(max frame size, window), floored at 0; the priority tree's capacity, root included, exceeds the stream limit the server advertises - constant evaluation against two frozen third-party facts, see ASSUMPTIONS): (a) one turn of _sendPrioritisedData for every chunk length 0..6, max frame size 0..4 and window -3..4: at most "
    "one DATA frame, never longer than min(max frame, window), `sent + requeued-at-the-front` is the chunk, END_STREAM only for the sentinel; the negative-window "
    "cases were F29 (fixed: the bound is floored at zero; the revert is a mutant); (b) the loop always continues: after a data / end-of-stream turn it re-schedules itself once, on deadlock it parks on a fresh "
    "Deferred that re-enters it, behind a paused transport it waits on _consumerBlocked, after stopProducing it stops; (c) whole-response schedules over one and two "
    "streams, windows smaller than the body, stream- and connection-level WINDOW_UPDATEs in several orders, bodies written through H2Stream.write / writeSequence by "
    "push producers: every byte arrives once, in order, END_STREAM last, no frame exceeds a window, a parked loop is woken by new data, producers are paused when "
    "the remaining window is <= 0 and resumed exactly when it is > 0; remainingOutboundWindow == window - queued bytes; (d) at EVERY priority.unblock site (helpers "
    "inlined) the stream's queue is known non-empty.  Not decided: liveness under arbitrary reactor schedules, byte equality at a real peer."
)
RULE_KINDS = {
    "clamp/send-within-bound": "structural", "loop/continues-structural": "structural", "loop/stream-chosen-this-turn": "structural", "capacity/tree-holds-advertised-streams": "structural", "backpressure/blocked-guard": "structural", "backpressure/resume-guard": "structural",
    "wakeup/unblock-only-with-data": "structural",
    "clamp/frame-within-window": "finite-exhaustive", "clamp/negative-window": "finite-exhaustive", "clamp/end-after-data": "finite-exhaustive", "backpressure/remaining-window": "finite-exhaustive",
    "loop/": "bounded", "schedule/": "bounded", "wakeup/": "bounded", "queue/": "bounded", "backpressure/": "bounded",
}
ASSUMPTIONS = ["h2's local_flow_control_window / max_outbound_frame_size report the peer's limits (modelled: min(stream window, connection window))",
               "the priority tree yields only unblocked streams and raises DeadlockError when there is none",
               "FROZEN third-party facts (not part of /repo; re-check when the pinned versions change): priority.PriorityTree(maximum_streams=1000) by default, the tree's root node counts "
               "against maximum_streams, insert_stream raises TooManyStreamsError beyond it; h2 advertises SETTINGS_MAX_CONCURRENT_STREAMS = 100 unless update_settings is called"]

C = "H2Connection"
SENTINEL = object()


# ---- models ---------------------------------------------------------------------------------------------------------------------------
class DeadlockError(Exception):
    pass


class FlowControlError(Exception):
    pass


class _H2:
    _sa_model = True

    def __init__(self, conn_window=1000, max_frame=16384):
        self.windows = {}
        self.conn_window = conn_window
        self.max_outbound_frame_size = max_frame
        self.frames = []          # ("DATA", stream, bytes) / ("END", stream)
        self.violations = []

    def local_flow_control_window(self, stream):
        return min(self.windows.get(stream, 0), self.conn_window)

    @property
    def outbound_flow_control_window(self):
        return self.conn_window

    def send_data(self, stream, data, end_stream=False):
        if len(data) > self.local_flow_control_window(stream):
            self.violations.append((stream, len(data), self.local_flow_control_window(stream)))
            raise FlowControlError(f"cannot send {len(data)} bytes, window is {self.local_flow_control_window(stream)}")
        if len(data) > self.max_outbound_frame_size:
            self.violations.append((stream, len(data), "max frame %d" % self.max_outbound_frame_size))
        self.windows[stream] -= len(data)
        self.conn_window -= len(data)
        self.frames.append(("DATA", stream, data))

    def end_stream(self, stream):
        self.frames.append(("END", stream))

    def data_to_send(self, *a):
        return b""

    def reset_stream(self, stream, *a):
        self.frames.append(("RST", stream))

    def body(self, stream):
        return b"".join(f[2] for f in self.frames if f[0] == "DATA" and f[1] == stream)


class _Tree:
    _sa_model = True

    def __init__(self):
        self.streams = []
        self.blocked = set()
        self.i = 0

    def insert_stream(self, sid, *a, **k):
        self.streams.append(sid)

    def remove_stream(self, sid):
        if sid in self.streams:
            self.streams.remove(sid)
        self.blocked.discard(sid)

    def block(self, sid):
        self.blocked.add(sid)

    def unblock(self, sid):
        self.blocked.discard(sid)

    def __iter__(self):
        return self

    def __next__(self):
        live = [s_ for s_ in self.streams if s_ not in self.blocked]
        if not live:
            raise DeadlockError()
        self.i += 1
        return live[self.i % len(live)]


class _Reactor:
    _sa_model = True

    def __init__(self):
        self.calls = []

    def callLater(self, delay, f, *a, **k):
        self.calls.append((f, a, k))
        return None


class _Transport:
    _sa_model = True

    def write(self, data):
        return None

    def loseConnection(self):
        return None


class _PushProducer:
    """writes ``pieces`` one per resumeProducing() turn through stream.write while not paused"""
    _sa_model = True

    def __init__(self, pieces):
        self.pieces = list(pieces)
        self.paused = False
        self.log = []
        self.stream = None

    def pauseProducing(self):
        self.paused = True
        self.log.append("pause")

    def resumeProducing(self):
        self.paused = False
        self.log.append("resume")

    def stopProducing(self):
        self.log.append("stop")


class _Event:
    _sa_model = True

    def __init__(self, stream_id, delta=0):
        self.stream_id = stream_id
        self.delta = delta


def _world(ctx):
    mod = ctx.mod(H2)
    for fn in ("_sendPrioritisedData", "writeDataToStream", "endRequest", "remainingOutboundWindow", "_handleWindowUpdate", "_requestDone"):
        ctx.func(H2, C + "." + fn)
    for fn in ("write", "writeSequence", "loseConnection", "windowUpdated", "flowControlBlocked", "registerProducer"):
        ctx.func(H2, "H2Stream." + fn)
    ext = {"deque": collections.deque, "Deferred": lambda *a: MDeferred(*a), "Logger": lambda *a, **k: NullLogger()}
    return World(mod, externals=ext, env={"_END_STREAM_SENTINEL": SENTINEL}, exception_names={"DeadlockError"})


def _conn(w, windows, conn_window=1000, max_frame=16384):
    h2 = _H2(conn_window, max_frame)
    tree = _Tree()
    c = w.bare(C, conn=h2, priority=tree, streams={}, _outboundStreamQueues={}, _streamCleanupCallbacks={}, _sendingDeferred=None, _consumerBlocked=None,
               _stillProducing=True, _reactor=_Reactor(), transport=_Transport(), resetTimeout=lambda *a: None)
    for sid, win in windows.items():
        h2.windows[sid] = win
        st = w.bare("H2Stream", streamID=sid, _conn=c, producer=None, _producerProducing=False, hasStreamingProducer=None, _hasStreamingProducer=None, producing=True)
        c.streams[sid] = st
        c._outboundStreamQueues[sid] = collections.deque()
        c._streamCleanupCallbacks[sid] = MDeferred()
        tree.insert_stream(sid)
        tree.block(sid)
    return c, h2, tree


def _drive(c, producers=(), limit=400):
    """run the reactor: scheduled calls one at a time; idle producers that are not paused write their next piece.  Returns the number of steps, -1 when it does not settle."""
    for step in range(limit):
        progressed = False
        if c._reactor.calls:
            f, a, k = c._reactor.calls.pop(0)
            f(*a, **k)
            progressed = True
        for p in producers:
            if p.pieces and not p.paused and p.stream is not None:
                p.stream.write(p.pieces.pop(0))
                progressed = True
                if not p.pieces:
                    p.stream.unregisterProducer() if hasattr(p.stream, "unregisterProducer") else None
                    p.stream.loseConnection()
        if not progressed:
            return step
        # a loop that only polls (window exhausted, data queued) is quiescent for our purposes
        if c._reactor.calls and not any(p.pieces and not p.paused for p in producers) and step > 50 and not _can_send(c):
            return step
    return -1


def _can_send(c):
    for sid, q in c._outboundStreamQueues.items():
        if q and sid not in c.priority.blocked and (q[0] is SENTINEL or c.conn.local_flow_control_window(sid) > 0):
            return True
    return False


def _loop(c):
    return c._sendPrioritisedData


# ==================================================================================================================================
# STRUCTURAL layer on the normalised H2Connection / H2Stream (private helpers inlined, pure temporaries substituted)
# ==================================================================================================================================
KEEP_CONN = {"_sendPrioritisedData", "writeDataToStream", "endRequest", "_handleWindowUpdate", "dataReceived", "_requestReceived"}
KEEP_STREAM = {"write", "writeSequence", "loseConnection", "windowUpdated", "flowControlBlocked", "registerProducer", "unregisterProducer"}


def _defs(f, name):
    return [s_.value for s_ in walk_local(f) if isinstance(s_, ast.Assign) and any(isinstance(t, ast.Name) and t.id == name for t in s_.targets)]


def _s_window_guards(ctx):
    f = norm_method(ctx, H2, C, "_sendPrioritisedData", keep=KEEP_CONN)
    g = ctx.cfg(f)
    q = Q + C + "._sendPrioritisedData"
    sends = named_calls(g, "self.conn.send_data")
    if len(sends) != 1 or len(sends[0][1].args) < 2 or not isinstance(sends[0][1].args[1], ast.Name):
        raise Abstain("send_data(stream, <name>) site not found")
    sn, sc = sends[0]
    D = sc.args[1].id
    # the clamp test: len(D) compared with the bound B
    cands = []
    for t in g.ids(lambda x: x.kind == "test"):
        lc = lincmp(g.node(t).ast)
        if lc is None:
            continue
        terms, c0 = dict(lc[0]), lc[1]
        if f"len({D})" in terms and len(terms) == 2:
            other = [k for k in terms if k != f"len({D})"][0]
            if terms[f"len({D})"] == -terms[other]:
                cands.append((t, other, lc))
    if len(cands) != 1:
        raise Abstain(f"{len(cands)} comparisons of len({D}) with a bound")
    t, B, lc = cands[0]
    longer = lin_expect({f"len({D})": 1, B: -1}, 1)          # len(D) > B
    pol_long = "T" if lc == longer else ("F" if lincmp(g.node(t).ast, negate=True) == longer else None)
    if pol_long is None:
        ctx.violation("clamp/send-within-bound", q + " | clamp test", f"the oversize test is `{src(g.node(t).ast)}`, not `len(data) > bound` (a chunk one byte too long passes)")
        return
    bdef = B
    if B.isidentifier():
        ds = _defs(f, B)
        if len(ds) == 2 and sum(1 for d in ds if isinstance(d, ast.Constant) and d.value == 0 and not isinstance(d.value, bool)) == 1:
            # a zero floor written as a branch: `if permitted < 0: bound = 0 else: bound = permitted` - the other definition is the bound proper, provided the zero is assigned
            # only where that value is negative (evaluate the guard of the zero assignment)
            zero = [d for d in ds if isinstance(d, ast.Constant)][0]
            proper = [d for d in ds if d is not zero][0]
            zst = [st for st in walk_local(f) if isinstance(st, ast.Assign) and st.value is zero][0]
            zg = [(lincmp(g.node(t_).ast, negate=(lab_ == "F")), src(g.node(t_).ast)) for i_ in g.ids_of(zst) for t_, lab_ in g.edge_guards(i_)]
            neg = lin_expect({src(proper): -1}, 1)          # proper < 0
            if not any(lc_ == neg for lc_, _ in zg):
                raise Abstain(f"the bound {B} is set to 0 under {[t_ for _, t_ in zg]}, which was not recognised as `{src(proper)} < 0`")
            ds = [proper]
        if len(ds) != 1:
            raise Abstain(f"{len(ds)} definitions of the bound {B}")
        class _SubDefs(ast.NodeTransformer):          # single-definition local names are replaced by their definitions, repeatedly
            def visit_Name(self, nm):
                d2 = _defs(f, nm.id) if isinstance(nm.ctx, ast.Load) and nm.id not in ("min", "max", "self", "stream") else []
                return ast.parse(src(d2[0]), mode="eval").body if len(d2) == 1 else nm
        be = ast.parse(src(ds[0]), mode="eval").body
        for _ in range(4):
            be = _SubDefs().visit(ast.parse(src(be), mode="eval")).body
        bdef = src(be)
    def _is_bound(e):
        """min(.., max_outbound_frame_size, .., window(stream), ..), possibly floored at zero: max(0, <that>) (an empty frame is never sent)"""
        if isinstance(e, ast.Call) and isinstance(e.func, ast.Name) and not e.keywords:
            if e.func.id == "min":
                def floored(a):          # the window itself may carry the zero floor: max(window, 0)
                    if isinstance(a, ast.Call) and isinstance(a.func, ast.Name) and a.func.id == "max" and len(a.args) == 2 and not a.keywords:
                        z = [x for x in a.args if isinstance(x, ast.Constant) and x.value == 0 and not isinstance(x.value, bool)]
                        r = [x for x in a.args if x not in z]
                        if len(z) == 1 and len(r) == 1:
                            return src(r[0])
                    return src(a)
                parts = [floored(a) for a in e.args]
                return "self.conn.max_outbound_frame_size" in parts and "self.conn.local_flow_control_window(stream)" in parts
            if e.func.id == "max" and len(e.args) == 2:
                zero = [a for a in e.args if isinstance(a, ast.Constant) and a.value == 0 and not isinstance(a.value, bool)]
                rest = [a for a in e.args if a not in zero]
                return len(zero) == 1 and len(rest) == 1 and _is_bound(rest[0])
        return False
    try:
        ok = _is_bound(ast.parse(bdef, mode="eval").body)
    except SyntaxError:
        raise Abstain(f"the bound `{bdef}` is not an expression")
    if not ok and not ("max_outbound_frame_size" in bdef or "local_flow_control_window" in bdef):
        raise Abstain(f"the bound `{bdef}` was not traced back to the frame size limit / the flow-control window")
    ctx.check(ok, "clamp/send-within-bound", q + " | bound", f"the bound of a DATA frame is `{bdef}`, not min(max_outbound_frame_size, flow-control window of that stream)")
    short_edge = "F" if pol_long == "T" else "T"
    def cuts(st):
        if not isinstance(st, ast.Assign):
            return False
        for tgt in st.targets:
            if isinstance(tgt, ast.Name) and tgt.id == D and src(st.value) == f"{D}[:{B}]":
                return True
            if isinstance(tgt, ast.Tuple) and isinstance(st.value, ast.Tuple) and len(tgt.elts) == len(st.value.elts):
                for te, ve in zip(tgt.elts, st.value.elts):
                    if src(te) == D and src(ve).startswith(f"{D}[:") and not src(ve).startswith(f"{D}[::"):
                        return True
        return False
    slices = [n for n, st in assign_sites(g, lambda x: isinstance(x, ast.Name) and x.id == D) if cuts(st)]
    pops = [n for n, st in assign_sites(g, lambda x: isinstance(x, ast.Name) and x.id == D) if isinstance(st, ast.Assign) and isinstance(st.value, ast.Call) and call_attr(st.value) in ("popleft", "pop")]
    if not pops:
        # the chunk may be a copy of the name the pop was bound to (`queued = q.popleft() ... chunk = queued`)
        al = {d.id for d in _defs(f, D) if isinstance(d, ast.Name)}
        pops = [n for n, st in assign_sites(g, lambda x: isinstance(x, ast.Name) and x.id in al) if isinstance(st, ast.Assign) and isinstance(st.value, ast.Call) and call_attr(st.value) in ("popleft", "pop")]
    if not pops:
        raise Abstain("the pop of the chunk was not found")

    def edge_ok(a_, b_, l_):
        if l_ == "exc":
            return False
        if a_ == t and l_ == short_edge:
            return False
        return True
    w = g.path(pops, [sn], avoid=slices, edge_ok=edge_ok, strict=True)
    ctx.check(w is None, "clamp/send-within-bound", q + " | send_data(stream, data)", "a chunk longer than the bound can reach send_data without being cut to data[:bound]", witness=g.describe(w))
    # the remainder goes back to the front
    back = call_sites(g, lambda c: call_attr(c) in ("appendleft", "append", "insert", "extendleft") and isinstance(c.func, ast.Attribute) and "_outboundStreamQueues" in src(c.func.value) or
                      (call_attr(c) in ("appendleft", "append") and isinstance(c.func, ast.Attribute) and isinstance(c.func.value, ast.Name) and any("_outboundStreamQueues" in src(d) for d in _defs(f, c.func.value.id))))
    for n, c in back:
        ctx.check(call_attr(c) == "appendleft", "clamp/send-within-bound", q + f" | {call_attr(c)}(remainder)", "the unsent remainder is not put back at the FRONT of the stream's queue (later data overtakes it)")
    # loop continuation
    me = "self._sendPrioritisedData"
    resched = [n for n, c in call_sites(g, lambda c: call_attr(c) in ("callLater", "addCallback") and any(src(a_) == me for a_ in c.args))]
    stop = [r for r in g.ids(lambda x: x.kind == "stmt" and isinstance(x.ast, ast.Return)) if truth_guard(g, r, "self._stillProducing", False)]
    if not resched:
        raise Abstain("no re-scheduling site of the loop found")
    # a `return` taken because a selector helper answered None counts as parked when every None-return of that helper is preceded by the parking call
    from sa.source import methods as _methods_of
    cms = _methods_of(ctx.cls(H2, C))
    parked, opaque = [], []
    for r in g.ids(lambda x: x.kind == "stmt" and isinstance(x.ast, ast.Return)):
        for t_, lab_ in g.edge_guards(r):
            te = g.node(t_).ast
            if isinstance(te, ast.Compare) and len(te.ops) == 1 and isinstance(te.left, ast.Name) and src(te.comparators[0]) == "None" and isinstance(te.ops[0], (ast.Is, ast.Eq)) == (lab_ == "T"):
                ds = _defs(f, te.left.id)
                if len(ds) == 1 and isinstance(ds[0], ast.Call) and isinstance(ds[0].func, ast.Attribute) and src(ds[0].func.value) == "self" and ds[0].func.attr in cms:
                    h = cms[ds[0].func.attr]
                    gh = ctx.cfg(h)
                    hres = [n for n, c in call_sites(gh, lambda c: call_attr(c) in ("callLater", "addCallback") and any(src(a_) == me for a_ in c.args))]
                    nones = [n for n in gh.ids(lambda x: x.kind == "stmt" and isinstance(x.ast, ast.Return)) if gh.node(n).ast.value is None or src(gh.node(n).ast.value) == "None"]
                    implicit = gh.path([gh.entry], [gh.exit], avoid=gh.ids(lambda x: x.kind == "stmt" and isinstance(x.ast, (ast.Return, ast.Raise))), edge_ok=lambda a, b, l: l != "exc")
                    if hres and nones and implicit is None and all(gh.must_precede(hres, [n], exc=False) is None for n in nones):
                        parked.append(r)
                    else:
                        opaque.append(ds[0].func.attr)
    w = g.must_pass([g.entry], set(resched) | set(stop) | set(parked), exc=False)
    if w is not None and opaque:
        raise Abstain(f"whether the loop is parked when {opaque} answers None was not understood")
    ctx.check(w is None, "loop/continues-structural", q, "the sending loop can return without parking on a Deferred or re-scheduling itself: every stream stalls", witness=g.describe(w))


def _s_backpressure_guards(ctx):
    for name, sid in (("writeDataToStream", None), ("_sendPrioritisedData", "stream")):
        f = norm_method(ctx, H2, C, name, keep=KEEP_CONN)
        g = ctx.cfg(f)
        q = Q + C + "." + name
        key = sid or param_names(f)[1]
        fb = call_sites(g, lambda c: call_attr(c) == "flowControlBlocked")
        if len(fb) != 1:
            raise Abstain(f"{len(fb)} flowControlBlocked() sites in the normalised {name}")
        n, c = fb[0]
        want = lin_expect({f"self.remainingOutboundWindow({key})": -1}, 0)
        guards = [(t, lab) for t, lab in g.edge_guards(n) if "remainingOutboundWindow" in src(g.node(t).ast)]
        if not guards:
            raise Abstain("flowControlBlocked() is not guarded by a remainingOutboundWindow test here")
        ok = any(lincmp(g.node(t).ast, negate=(lab == "F")) == want for t, lab in guards)
        ctx.check(ok, "backpressure/blocked-guard", q + " | flowControlBlocked()",
                  f"the producer is paused under {[(src(g.node(t).ast), lab) for t, lab in guards]}, not exactly when remainingOutboundWindow(stream) <= 0")
    f = norm_method(ctx, H2, "H2Stream", "windowUpdated", keep=KEEP_STREAM)
    g = ctx.cfg(f)
    q = Q + "H2Stream.windowUpdated"
    res = named_calls(g, "self.producer.resumeProducing")
    if len(res) != 1:
        raise Abstain(f"{len(res)} resumeProducing() sites")
    n, c = res[0]
    cands = []
    for t, lab in g.edge_guards(n):
        lc = lincmp(g.node(t).ast, negate=(lab == "F"))
        if lc is not None and len(lc[0]) == 1:
            term = list(lc[0])[0][0]
            if "remainingOutboundWindow" in term or any("remainingOutboundWindow" in src(d) for d in _defs(f, term) if term.isidentifier()):
                cands.append((term, lc))
    if not cands:
        raise Abstain("resumeProducing() is not guarded by a comparison of the remaining window")
    ok = any(lc == lin_expect({term: 1}, 1) for term, lc in cands)
    ctx.check(ok, "backpressure/resume-guard", q + " | producer.resumeProducing()", f"the paused producer is resumed under {[dict(lc[0]) for _, lc in cands]} >= {[lc[1] for _, lc in cands]}, not exactly when the remaining window is > 0")
    # "only if paused": EVALUATE the guards that dominate the resume over every truth assignment of (a producer is registered, it is producing) - whatever their spelling
    from sa.props._lib_f import subst_eval
    from sa.astx import NotConst
    atoms = ("self.producer", "self._producerProducing")
    doms = [(g.node(t).ast, lab) for t, lab in g.edge_guards(n) if any(a_ in src(g.node(t).ast) for a_ in atoms)]
    if not doms:
        unknown = [src(g.node(t).ast) for t, lab in g.edge_guards(n) if any(isinstance(x, ast.Call) and isinstance(x.func, ast.Attribute) and src(x.func.value) == "self" and x.func.attr.startswith("_")
                                                                             for x in ast.walk(g.node(t).ast))]
        if unknown:
            raise Abstain(f"the resume is guarded by {unknown}, a helper that was not inlined")
        ctx.violation("backpressure/resume-guard", q + " | only if paused", "resumeProducing() is not confined to a paused producer (no dominating test of the producer state)")
    else:
        reach_states = []
        for prod in (None, _PushProducer(())):
            for pp in (True, False):
                try:
                    if all(bool(subst_eval(te, {"self.producer": prod, "self._producerProducing": pp}, {}, {"bool": bool})) == (lab == "T") for te, lab in doms):
                        reach_states.append((prod is not None, pp))
                except NotConst as e:
                    raise Abstain(f"a guard of the resume could not be evaluated ({e})")
        ctx.check(bool(reach_states) and all(has and not pp for has, pp in reach_states), "backpressure/resume-guard", q + " | only if paused",
                  f"resumeProducing() is reachable with (producer registered, producing) in {reach_states}: it is not confined to a registered, paused producer")


ADVERTISED = "self.conn.local_settings.max_concurrent_streams"
H2_DEFAULT_MAX_CONCURRENT_STREAMS = 100          # h2.settings: the value a server advertises unless told otherwise (third-party fact, frozen; see ASSUMPTIONS)
PRIORITY_DEFAULT_MAXIMUM_STREAMS = 1000          # priority.PriorityTree(maximum_streams=1000); its root node counts against the limit (third-party fact, frozen)


def _s_tree_capacity(ctx):
    """STRUCTURAL / constant evaluation: every stream the server itself allows (SETTINGS_MAX_CONCURRENT_STREAMS it advertises) fits into the priority tree - the tree's
    `maximum_streams` (which also counts the tree's root) is at least advertised + 1 - so the TooManyStreamsError of insert_stream, which _requestReceived does not handle, cannot be
    reached by a peer that stays within the advertised limit.  An escaping TooManyStreamsError would leave dataReceived and strand every flow-control-blocked response"""
    from sa.props._lib_f import subst_eval
    from sa.astx import NotConst, module_consts
    f = ctx.func(H2, C + ".__init__")
    q = Q + C + ".__init__"
    trees = [c for c in walk_local(f) if isinstance(c, ast.Call) and (call_name(c) or "").split(".")[-1] == "PriorityTree"]
    if len(trees) != 1:
        raise Abstain(f"{len(trees)} PriorityTree(...) constructions in H2Connection.__init__")
    t = trees[0]
    cap = next((k.value for k in t.keywords if k.arg == "maximum_streams"), t.args[0] if t.args else None)
    if any(k.arg is None for k in t.keywords) or any(isinstance(a_, ast.Starred) for a_ in t.args):
        raise Abstain("the arguments of PriorityTree(...) are not explicit")
    # does twisted change what it advertises?  (then the frozen h2 default is not the advertised value)
    mod_src = ctx.mod(H2).text if hasattr(ctx.mod(H2), "text") else ""
    changes = [c for fn in [n for n in ast.walk(ctx.cls(H2, C)) if isinstance(n, ast.FunctionDef)] for c in ast.walk(fn)
               if (isinstance(c, ast.Call) and call_attr(c) == "update_settings") or
                  (isinstance(c, ast.Attribute) and c.attr == "max_concurrent_streams" and isinstance(c.ctx, ast.Store))]
    if changes:
        raise Abstain("the connection changes its advertised settings; the advertised stream limit is not the frozen h2 default")
    if cap is None:
        ctx.ok("capacity/tree-holds-advertised-streams", q + " | PriorityTree()",
               f"no maximum_streams given: the library default {PRIORITY_DEFAULT_MAXIMUM_STREAMS} (root included) exceeds the advertised {H2_DEFAULT_MAX_CONCURRENT_STREAMS} streams")
        return
    env = dict(module_consts(ctx.mod(H2)))
    depends = ADVERTISED in src(cap) or "max_concurrent_streams" in src(cap)
    short = []
    try:
        for adv in ((1, 2, H2_DEFAULT_MAX_CONCURRENT_STREAMS, 999, 1000, 2 ** 31 - 1) if depends else (H2_DEFAULT_MAX_CONCURRENT_STREAMS,)):
            v = subst_eval(cap, {ADVERTISED: adv}, env, {})
            if not isinstance(v, int) or isinstance(v, bool):
                raise Abstain(f"maximum_streams evaluates to {v!r}")
            if v < adv + 1:
                short.append((adv, v))
    except NotConst as e:
        raise Abstain(f"maximum_streams=`{src(cap)}` could not be evaluated ({e})")
    ctx.check(not short, "capacity/tree-holds-advertised-streams", q + f" | PriorityTree(maximum_streams={src(cap)[:60]})",
              (f"with {short[0][0]} streams advertised the priority tree is limited to {short[0][1]} nodes INCLUDING its root, i.e. {short[0][1] - 1} streams: the last stream the server "
               "itself allows raises priority.TooManyStreamsError in _requestReceived (only DuplicateStreamError is handled there), the exception leaves dataReceived and the "
               "flow-control-blocked responses in flight are never delivered") if short else "")


def _s_stream_fresh(ctx):
    """STRUCTURAL (def-use): the stream a turn of the send loop serves was chosen by the priority tree IN THAT TURN.  Every name used as the stream key (index of the per-stream
    queues, stream argument of the h2 connection) is defined in the function only by `next(self.priority)` (or the None placeholder before it) - never by a parameter, an
    attribute or anything else that survives from an earlier turn: between two turns any stream can be torn down, and a turn that indexes the queues with a dead stream raises,
    so the loop is never rescheduled and every other stream stalls"""
    f = norm_method(ctx, H2, C, "_sendPrioritisedData", keep=KEEP_CONN)
    q = Q + C + "._sendPrioritisedData"
    keys = set()
    for n in walk_local(f):
        if isinstance(n, ast.Subscript) and src(n.value) == "self._outboundStreamQueues" and isinstance(n.slice, ast.Name):
            keys.add(n.slice.id)
        if isinstance(n, ast.Call) and call_name(n) in ("self.conn.send_data", "self.conn.end_stream", "self.conn.local_flow_control_window") and n.args and isinstance(n.args[0], ast.Name):
            keys.add(n.args[0].id)
    if not keys:
        raise Abstain("no stream key found in the send loop")
    a = f.args
    params = {x.arg for x in a.args + a.kwonlyargs + getattr(a, "posonlyargs", [])} | ({a.vararg.arg} if a.vararg else set()) | ({a.kwarg.arg} if a.kwarg else set())
    from sa.source import methods as _methods_of
    cms = _methods_of(ctx.cls(H2, C))

    def fresh(d, fn, depth=0):
        """True: the value is None or comes from next(self.priority) in this turn; False: positively something else; None: not understood"""
        if isinstance(d, ast.Constant) and d.value is None:
            return True
        if isinstance(d, ast.Call) and call_name(d) == "next" and [src(x) for x in d.args] == ["self.priority"]:
            return True
        if isinstance(d, ast.Name):
            fa = fn.args
            if d.id in {x.arg for x in fa.args + fa.kwonlyargs} | ({fa.vararg.arg} if fa.vararg else set()) | ({fa.kwarg.arg} if fa.kwarg else set()):
                return False
            ds = _defs(fn, d.id)
            rs = [fresh(x, fn, depth) for x in ds]
            return None if (not ds or None in rs) else all(rs)
        if isinstance(d, ast.Call) and isinstance(d.func, ast.Attribute) and src(d.func.value) == "self" and d.func.attr in cms and depth < 3:
            # a selector helper: every value it returns must itself be fresh
            h = cms[d.func.attr]
            rets = [r for r in walk_local(h) if isinstance(r, ast.Return)]
            if not rets or any(isinstance(x, (ast.Yield, ast.YieldFrom)) for x in walk_local(h)):
                return None
            rs = [True if r.value is None else fresh(r.value, h, depth + 1) for r in rets]
            return None if None in rs else all(rs)
        if isinstance(d, (ast.Attribute, ast.Subscript)):
            return False          # an attribute / a container element survives from an earlier turn
        if any(isinstance(x, ast.Attribute) and isinstance(x.value, ast.Name) and x.value.id == "self" for x in ast.walk(d)):
            return False          # computed from the object's own state (self.__dict__.pop(..), self._x.get(..)): that, too, survives from an earlier turn
        return None
    for k in sorted(keys):
        defs = _defs(f, k)
        verdicts = [fresh(d, f) for d in defs]
        if k not in params and None in verdicts and False not in verdicts:
            raise Abstain(f"where `{k}` comes from (`{src(defs[verdicts.index(None)])}`) was not understood")
        other = [d for d, v in zip(defs, verdicts) if v is not True]
        ok = k not in params and not other and any(isinstance(d, ast.Call) for d in defs)
        if k in params and not defs and f.name != "_sendPrioritisedData":
            raise Abstain("the stream key is a parameter of a helper")
        why = (f"`{k}` is a parameter of the loop function" if k in params else f"`{k}` is also defined by `{src(other[0])}`" if other else f"`{k}` is never taken from the priority tree")
        ctx.check(ok, "loop/stream-chosen-this-turn", q + f" | stream key `{k}`",
                  f"{why}: a stream chosen in an EARLIER turn is served after the loop waited (behind the transport / a Deferred); if that stream was reset or finished meanwhile the turn "
                  "raises KeyError, the loop is never rescheduled and all other streams stall although their windows are open")


def check(ctx):
    for name, fn in (("s-tree-capacity", lambda c: structural(c, "capacity/tree-holds-advertised-streams", "nothing else (third-party limits: not covered by the bounded schedules)", _s_tree_capacity, c)),
                     ("s-stream-fresh", lambda c: structural(c, "loop/stream-chosen-this-turn", "loop/continues (bounded)", _s_stream_fresh, c)),
                     ("s-window-guards", lambda c: structural(c, "clamp/send-within-bound", "clamp/frame-within-window (finite-exhaustive evaluation)", _s_window_guards, c)),
                     ("s-backpressure-guards", lambda c: structural(c, "backpressure/blocked-guard", "backpressure/* scenarios (bounded)", _s_backpressure_guards, c)),
                     ("clamp", _clamp), ("loop", _loop_continues), ("schedules", _schedules), ("backpressure", _backpressure), ("unblock-sites", _unblock_sites)):
        with ctx.section(name):
            try:
                fn(ctx)
            except InterpError as e:
                raise AnalysisError(f"C29/{name}: the code uses a construct the evaluator cannot interpret: {e}")
            except ModelRaised as e:
                ctx.violation("schedule/raises", Q + C + f" | <{name} scenarios>",
                              f"a {name} scenario ends with {e.name} raised out of the connection's own code ({e}): the send loop / the caller dies instead of making progress")


# ---- (a) one turn of the loop -----------------------------------------------------------------------------------------------------------
def _turn(w, item, M, W):
    c, h2, tree = _conn(w, {1: W}, conn_window=10 ** 6, max_frame=M)
    c._outboundStreamQueues[1].append(item)
    tree.unblock(1)
    exc = None
    try:
        c._sendPrioritisedData()
    except ModelRaised as e:
        exc = e.name
    return c, h2, exc


def _clamp(ctx):
    w = _world(ctx)
    q = Q + C + "._sendPrioritisedData"
    bad, badneg = [], []
    n = 0
    for L in range(0, 7):
        for M in range(0, 5):
            for W in range(-3, 5):
                n += 1
                chunk = bytes(range(65, 65 + L))
                c, h2, exc = _turn(w, chunk, M, W)
                limit = max(0, min(M, W))
                sent = [f[2] for f in h2.frames if f[0] == "DATA"]
                total = b"".join(sent)
                qd = c._outboundStreamQueues.get(1, ())
                back = b"".join(x for x in qd if isinstance(x, bytes))
                why = None
                if exc:
                    why = f"the turn raises {exc}: the loop dies without re-scheduling itself"
                elif len(total) > limit:
                    why = f"sends {len(total)} bytes"
                elif len(sent) > 1:
                    why = "sends more than one frame per turn"
                elif total + back != chunk:
                    why = f"sent {total!r} + requeued {back!r} is not the chunk {chunk!r}"
                elif L and limit and not total:
                    why = "sends nothing although the window is open"
                elif any(f[0] == "END" for f in h2.frames):
                    why = "ends the stream although the popped item is ordinary data (the body is cut)"
                if why:
                    (badneg if W < 0 else bad).append((L, M, W, why))
    # order: the remainder goes back to the FRONT
    c, h2, tree = _conn(w, {1: 2}, max_frame=2)
    c._outboundStreamQueues[1].extend([b"ABCDE", b"later"])
    tree.unblock(1)
    c._sendPrioritisedData()
    front_ok = list(c._outboundStreamQueues[1]) == [b"CDE", b"later"] and h2.body(1) == b"AB"
    msg = ""
    if bad:
        L, M, W, why = bad[0]
        msg = f"chunk of {L} bytes, max_outbound_frame_size={M}, flow-control window={W}: {why} (limit {max(0, min(M, W))}); {len(bad)} cases wrong"
    elif not front_ok:
        msg = f"queue [ABCDE, later] with room for 2 bytes: sent {h2.body(1)!r}, queue now {list(c._outboundStreamQueues[1])!r}: the remainder is not put back at the FRONT (later data overtakes it)"
    ctx.check(not bad and front_ok, "clamp/frame-within-window", q + " | <data branch>", msg, detail=f"{n} (length, max frame, window) cases; domain: one turn of the loop only compares len(chunk) with min(max frame, window) and tests emptiness, so the orderings of (len, max frame, window, 0) realised by 0..6 x 0..4 x -3..4 are all of them")
    msg = ""
    if badneg:
        L, M, W, why = badneg[0]
        msg = (f"chunk of {L} bytes, max_outbound_frame_size={M}, flow-control window={W} (negative after the peer shrank SETTINGS_INITIAL_WINDOW_SIZE): {why}; the clamp slices with a "
               f"negative bound (frameData[:{W}]), h2 refuses the frame with FlowControlError inside the loop, which is then never re-scheduled; {len(badneg)} cases wrong")
    ctx.check(not badneg, "clamp/negative-window", q + " | <data branch>", msg)
    c, h2, exc = _turn(w, SENTINEL, 4, 4)
    ok = exc is None and h2.frames == [("END", 1)] and 1 not in c.streams and 1 not in c._outboundStreamQueues and len(c._reactor.calls) == 1
    ctx.check(ok, "clamp/end-after-data", q + " | <sentinel popped>", f"popping the end-of-response sentinel gives frames {h2.frames}, raises {exc}, stream state "
              f"{'kept' if 1 in c.streams else 'cleaned'}, {len(c._reactor.calls)} re-schedules (END_STREAM once, state cleaned up, loop re-scheduled expected)")
    c, h2, exc = _turn(w, b"", 4, 4)
    ctx.check(exc is None and not any(f[0] == "END" for f in h2.frames), "clamp/end-after-data", q + " | <empty chunk popped>", "an empty chunk ends the stream")
    ctx.extra["finite_cases_clamp"] = n


# ---- (b) the loop continues ---------------------------------------------------------------------------------------------------------------
def _loop_continues(ctx):
    w = _world(ctx)
    q = Q + C + "._sendPrioritisedData"
    c, h2, exc = _turn(w, b"abc", 16, 16)
    ctx.check(exc is None and len(c._reactor.calls) == 1, "loop/continues", q + " | after a data turn", f"after sending a frame the loop is re-scheduled {len(c._reactor.calls)} times (raises {exc})")
    # deadlock -> parks on a fresh Deferred that re-enters the loop
    c, h2, tree = _conn(w, {1: 10})
    c._sendPrioritisedData()
    d = c._sendingDeferred
    ok = isinstance(d, MDeferred) and not c._reactor.calls
    ctx.check(ok, "loop/parks-once", q + " | all streams blocked", f"with every stream blocked the loop does not park on a fresh _sendingDeferred (it is {d!r}, {len(c._reactor.calls)} re-schedules)")
    if ok:
        c._outboundStreamQueues[1].append(b"xy")
        tree.unblock(1)
        c._sendingDeferred = None
        d.callback(1)
        ctx.check(h2.body(1) == b"xy", "loop/parks-once", q + " | parked loop resumed by its Deferred", f"firing the parked Deferred does not re-enter the loop (sent {h2.body(1)!r})")
    # behind a paused transport
    c, h2, tree = _conn(w, {1: 10})
    c._outboundStreamQueues[1].append(b"xy")
    tree.unblock(1)
    c._consumerBlocked = MDeferred()
    c._sendPrioritisedData()
    ok = not h2.frames and not c._reactor.calls and len(c._consumerBlocked.callbacks) == 1
    ctx.check(ok, "loop/continues", q + " | transport paused", f"behind a paused transport: frames {h2.frames}, {len(c._reactor.calls)} re-schedules, {len(c._consumerBlocked.callbacks)} waiters on _consumerBlocked")
    if ok:
        blocked, c._consumerBlocked = c._consumerBlocked, None
        blocked.callback(None)
        ctx.check(h2.body(1) == b"xy", "loop/continues", q + " | transport resumed", "the loop does not continue when the transport resumes")
    # stopped
    c, h2, tree = _conn(w, {1: 10})
    c._outboundStreamQueues[1].append(b"xy")
    tree.unblock(1)
    c._stillProducing = False
    c._sendPrioritisedData()
    ctx.check(not h2.frames and not c._reactor.calls and c._sendingDeferred is None, "loop/continues", q + " | producing stopped", "the loop keeps running after producing stopped")
    # a stream whose window is exhausted keeps its place while it has data (it is NOT blocked in the tree: WINDOW_UPDATE does not wake a parked loop)
    c, h2, tree = _conn(w, {1: 2})
    c._outboundStreamQueues[1].append(b"abcdef")
    tree.unblock(1)
    for _ in range(4):
        if c._reactor.calls:
            c._reactor.calls.pop(0)[0]()
        else:
            c._sendPrioritisedData()
    h2.windows[1] += 100
    c._handleWindowUpdate(_Event(1))
    steps = _drive(c)
    ctx.check(h2.body(1) == b"abcdef", "loop/block-only-when-empty", q + " | window exhausted with data queued, then WINDOW_UPDATE",
              f"after the window re-opened only {h2.body(1)!r} of b'abcdef' was sent: the stream was blocked in the priority tree although it still had data, and WINDOW_UPDATE does not wake a parked loop")


# ---- (c) whole responses ---------------------------------------------------------------------------------------------------------------------
def _schedules(ctx):
    w = _world(ctx)
    q = Q + C
    bad = []
    n = 0
    plans = []
    for win in (0, 4, 100):
        for frame in (3, 16384):
            for update in ("stream", "connection", "both-orders"):
                plans.append((win, frame, update))
    for win, frame, update in plans:
        for nstreams in ((1, 2) if frame == 3 or update == "both-orders" else (2,)):
            n += 1
            bodies = {1: [b"hello ", b"", b"wor", b"ld!"], 3: [b"SECOND", b"-", b"STREAM"]}
            sids = [1, 3][:nstreams]
            c, h2, tree = _conn(w, {s_: win for s_ in sids}, conn_window=(win * nstreams if update != "stream" else 10 ** 6), max_frame=frame)
            prods = []
            exc = None
            try:
                for s_ in sids:
                    p = _PushProducer(bodies[s_])
                    p.stream = c.streams[s_]
                    c.streams[s_].registerProducer(p, True)
                    prods.append(p)
                c._sendPrioritisedData()
                _drive(c, prods)
                # the peer opens the windows
                for round_ in range(6):
                    order = sids if round_ % 2 == 0 else list(reversed(sids))
                    if update in ("connection", "both-orders"):
                        h2.conn_window += 7
                        c._handleWindowUpdate(_Event(0))
                    for s_ in order:
                        if s_ in c.streams:
                            h2.windows[s_] += 5
                            c._handleWindowUpdate(_Event(s_))
                    if update == "both-orders":
                        h2.conn_window += 50
                        c._handleWindowUpdate(_Event(0))
                    _drive(c, prods)
                h2.conn_window += 10 ** 6
                c._handleWindowUpdate(_Event(0))
                for s_ in sids:
                    if s_ in c.streams:
                        h2.windows[s_] += 10 ** 6
                        c._handleWindowUpdate(_Event(s_))
                settled = _drive(c, prods)
            except ModelRaised as e:
                exc = e.name
                settled = 0
            why = None
            for s_ in sids:
                want = b"".join(bodies[s_])
                frames = [f for f in h2.frames if f[1] == s_]
                if exc:
                    why = f"raises {exc}"
                elif h2.violations:
                    why = f"a DATA frame of {h2.violations[0][1]} bytes is sent on stream {h2.violations[0][0]} with window {h2.violations[0][2]}"
                elif h2.body(s_) != want:
                    why = f"stream {s_} delivered {h2.body(s_)!r} instead of {want!r}"
                elif not frames or frames[-1] != ("END", s_) or sum(1 for f in frames if f[0] == "END") != 1:
                    why = f"stream {s_} is not ended exactly once after its data: {[f[0] for f in frames]}"
                elif any(len(f[2]) > frame for f in frames if f[0] == "DATA"):
                    why = f"stream {s_} has a frame longer than max_outbound_frame_size={frame}"
                if why:
                    break
            if why:
                bad.append((win, frame, update, nstreams, why))
    msg = ""
    if bad:
        win, frame, update, ns, why = bad[0]
        msg = f"{ns} stream(s), initial windows {win}, max frame {frame}, window updates at {update} level: {why}; {len(bad)} of {n} schedules wrong"
    ctx.check(not bad, "schedule/complete-in-order-within-window", q + " | <response schedules>", msg, detail=f"{n} schedules")
    ctx.extra["schedules"] = n
    # new data wakes a parked loop (write and end of response)
    c, h2, tree = _conn(w, {1: 10})
    c._sendPrioritisedData()
    parked = isinstance(c._sendingDeferred, MDeferred)
    c.streams[1].write(b"abc")
    _drive(c)
    ctx.check(parked and h2.body(1) == b"abc", "wakeup/fires-parked-loop", q + ".writeDataToStream | loop parked, then write",
              f"a write while the send loop is parked is never sent (sent {h2.body(1)!r}): the parked loop is not woken")
    c.streams[1].loseConnection()
    _drive(c)
    ctx.check(("END", 1) in h2.frames, "wakeup/fires-parked-loop", q + ".endRequest | loop parked, then end of response", "the end of the response is never sent when the loop is parked")
    c, h2, tree = _conn(w, {1: 0})
    c._sendPrioritisedData()
    d0 = c._sendingDeferred
    c.streams[1].write(b"abc")
    ctx.check(c._sendingDeferred is d0 and 1 in tree.blocked, "wakeup/unblock-needs-window", q + ".writeDataToStream | no window",
              "a write on a stream without send window unblocks it / wakes the loop (it would spin without sending)")
    # writeSequence order
    c, h2, tree = _conn(w, {1: 100})
    c.streams[1].writeSequence([b"a", b"b", b"c"])
    c._sendPrioritisedData()
    _drive(c)
    ctx.check(h2.body(1) == b"abc", "queue/payload", Q + "H2Stream.writeSequence", f"writeSequence([a, b, c]) arrives as {h2.body(1)!r}")


# ---- (d) back-pressure ----------------------------------------------------------------------------------------------------------------------------
def _backpressure(ctx):
    w = _world(ctx)
    q = Q
    # remainingOutboundWindow
    bad = []
    for win in (0, 5, 9):
        for queued in ([], [b"abc"], [b"abc", b"de"], [b"abc", SENTINEL], [SENTINEL]):
            c, h2, tree = _conn(w, {1: win})
            c._outboundStreamQueues[1].extend(queued)
            got = c.remainingOutboundWindow(1)
            want = win - sum(len(x) for x in queued if x is not SENTINEL)
            if got != want:
                bad.append((win, queued, got, want))
    for conn_window, other in ((6, [b"wxyz"]), (4, [b"w", SENTINEL]), (100, [b"0123456789"])):
        c, h2, tree = _conn(w, {1: 5, 3: 50}, conn_window=conn_window)
        c._outboundStreamQueues[1].append(b"abc")
        c._outboundStreamQueues[3].extend(other)
        got = c.remainingOutboundWindow(1)
        want = min(5, conn_window) - 3
        if got != want:
            bad.append((f"5 (connection window {conn_window}, another stream has {sum(len(x) for x in other if x is not SENTINEL)} bytes queued)", [b"abc"], got, want))
    ctx.check(not bad, "backpressure/remaining-window", q + C + ".remainingOutboundWindow",
              f"window {bad[0][0]} with {[x if x is not SENTINEL else '<end>' for x in bad[0][1]]} queued gives {bad[0][2]}, expected {bad[0][3]} (window minus queued bytes, end marker excluded)" if bad else "")
    # pause exactly at <= 0, resume exactly at > 0
    for win, piece, expect_pause in ((5, b"abcd", False), (5, b"abcde", True), (5, b"abcdef", True)):
        c, h2, tree = _conn(w, {1: win})
        p = _PushProducer([])
        c.streams[1].registerProducer(p, True)
        c.streams[1].write(piece)
        ctx.check(("pause" in p.log) == expect_pause, "backpressure/blocked-at-zero", q + C + f".writeDataToStream | window {win}, write of {len(piece)} bytes",
                  f"after queueing {len(piece)} bytes against a window of {win} the producer is {'paused' if 'pause' in p.log else 'not paused'} (pause exactly when the remaining window is <= 0)")
    for remaining, expect_resume in ((0, False), (1, True), (-2, False)):
        c, h2, tree = _conn(w, {1: 5})
        p = _PushProducer([])
        c.streams[1].registerProducer(p, True)
        c.streams[1].write(b"abcde")            # window full -> paused
        p.log.clear()
        h2.windows[1] += remaining
        c._handleWindowUpdate(_Event(1))
        ctx.check(("resume" in p.log) == expect_resume, "backpressure/resume-when-open", q + f"H2Stream.windowUpdated | remaining window {remaining}",
                  f"WINDOW_UPDATE leaving a remaining window of {remaining}: the paused producer is {'resumed' if 'resume' in p.log else 'not resumed'}")
        if expect_resume:
            p.log.clear()
            c._handleWindowUpdate(_Event(1))
            ctx.check("resume" not in p.log, "backpressure/flag-coupled", q + "H2Stream.windowUpdated | second update", "a producer that is already producing is resumed again")
            c.streams[1].write(b"x" * 50)
            ctx.check("pause" in p.log, "backpressure/flag-coupled", q + "H2Stream.flowControlBlocked | after a resume", "a resumed producer is never paused again (the producing flag was not recorded)")
    # pause -> later resume through a connection-level update reaches every stream
    c, h2, tree = _conn(w, {1: 3, 3: 3}, conn_window=6)
    ps = {}
    for s_ in (1, 3):
        ps[s_] = _PushProducer([])
        c.streams[s_].registerProducer(ps[s_], True)
        c.streams[s_].write(b"abc")
    for p in ps.values():
        p.log.clear()
    h2.conn_window += 100
    h2.windows[1] += 100
    h2.windows[3] += 100
    c._handleWindowUpdate(_Event(0))
    ctx.check(all("resume" in p.log for p in ps.values()), "backpressure/update-reaches-stream", q + C + "._handleWindowUpdate | connection-level",
              f"a connection-level WINDOW_UPDATE resumes {[s_ for s_, p in ps.items() if 'resume' in p.log]} of the paused streams [1, 3]")
    # the same with the queues already drained (window ran out exactly when the queue emptied): the producers are still paused and must be resumed
    c, h2, tree = _conn(w, {1: 3, 3: 3}, conn_window=6)
    ps = {}
    for s_ in (1, 3):
        ps[s_] = _PushProducer([])
        c.streams[s_].registerProducer(ps[s_], True)
        c.streams[s_].write(b"abc")
    c._sendPrioritisedData()
    _drive(c)
    drained = all(not c._outboundStreamQueues[s_] for s_ in (1, 3)) and all("pause" in p.log for p in ps.values())
    for p in ps.values():
        p.log.clear()
    h2.conn_window += 100
    h2.windows[1] += 100
    h2.windows[3] += 100
    c._handleWindowUpdate(_Event(0))
    ctx.check(drained and all("resume" in p.log for p in ps.values()), "backpressure/update-reaches-stream", q + C + "._handleWindowUpdate | connection-level, queues drained",
              f"streams whose queue drained exactly when the window ran out keep their producers paused after a connection-level WINDOW_UPDATE "
              f"(resumed: {[s_ for s_, p in ps.items() if 'resume' in p.log]} of [1, 3]): the response stops mid-body with the window open")
    c, h2, tree = _conn(w, {1: 3})
    p = _PushProducer([])
    c.streams[1].registerProducer(p, True)
    c.streams[1].write(b"abc")
    p.log.clear()
    h2.windows[1] += 10
    _, exc = None, None
    try:
        c._handleWindowUpdate(_Event(99))
        c._handleWindowUpdate(_Event(1))
    except ModelRaised as e:
        exc = e.name
    ctx.check(exc is None and "resume" in p.log, "backpressure/update-reaches-stream", q + C + "._handleWindowUpdate | stream-level (and a late update for a closed stream)",
              f"stream-level WINDOW_UPDATE: raises {exc}, producer log {p.log}")
    # pausing twice / without producer is harmless
    c, h2, tree = _conn(w, {1: 0})
    _, exc = None, None
    try:
        c.streams[1].flowControlBlocked()
        c.streams[1].windowUpdated()
    except ModelRaised as e:
        exc = e.name
    ctx.check(exc is None, "backpressure/flag-coupled", q + "H2Stream | no producer", f"flow-control notifications without a producer raise {exc}")


# ---- (e) who may unblock ---------------------------------------------------------------------------------------------------------------------------
QUEUE = "self._outboundStreamQueues"
KEEP = KEEP_CONN


def _unblock_sites(ctx):
    """invariant `unblocked in the priority tree => the stream's outbound queue is non-empty`: the send loop pops without a test, so EVERY unblock site must establish
    it.  Judged on the class with private helpers inlined (sa/props/_lib_c.norm_class), so an extracted `_unblockAndWake()` is seen at its call sites."""
    from sa.props._lib_c import norm_class
    cls = norm_class(ctx, H2, C, keep=KEEP)
    n = 0
    fns = []

    def rec(node, prefix):
        for ch in ast.iter_child_nodes(node):
            if isinstance(ch, (ast.FunctionDef, ast.AsyncFunctionDef)):
                fns.append((prefix + ch.name, ch))
                rec(ch, prefix + ch.name + ".")
            elif not isinstance(ch, ast.ClassDef):
                rec(ch, prefix)
    rec(cls, C + ".")
    for qn, fn in fns:
        g = ctx.cfg(fn)
        for nid, c in named_calls(g, "self.priority.unblock"):
            n += 1
            key = src(c.args[0]) if c.args else "?"
            nonempty = False
            for t, lab in g.edge_guards(nid):
                e = g.node(t).ast
                if lab == "T" and src(e) in (f"{QUEUE}.get({key})", f"{QUEUE}[{key}]"):
                    nonempty = True
                if lincmp(e, negate=(lab == "F")) in (lin_expect({f"len({QUEUE}[{key}])": 1}, 1), lin_expect({f"len({QUEUE}.get({key}))": 1}, 1)):
                    nonempty = True
            appended = [m for m, c2 in call_sites(g, lambda c2: isinstance(c2.func, ast.Attribute) and c2.func.attr in ("append", "appendleft") and
                                                  src(c2.func.value) == f"{QUEUE}[{key}]")]
            if appended and g.must_precede(appended, [nid]) is None:
                nonempty = True
            ctx.check(nonempty, "wakeup/unblock-only-with-data", Q + qn + " | priority.unblock",
                      f"stream {key} is unblocked in the priority tree without its outbound queue being known non-empty (neither guarded by a queue test nor preceded by an append): "
                      "the send loop pops an empty deque (IndexError), is never re-scheduled and no stream completes")
    ctx.floor("wakeup/unblock-only-with-data", n, 4)


MUTANTS = [
    Mutant("priority-tree-sized-for-a-handful-of-streams", H2, "        self.priority = priority.PriorityTree()\n", "        self.priority = priority.PriorityTree(maximum_streams=64)\n", expect_rule="capacity/"),
    Mutant("priority-tree-sized-exactly-to-the-advertised-limit", H2, "        self.priority = priority.PriorityTree()\n", "        self.priority = priority.PriorityTree(self.conn.local_settings.max_concurrent_streams)\n", expect_rule="capacity/"),
    Mutant("resume-guard-predicate-asked-for-the-wrong-state", H2, "        # If we don't have a producer, we have no-one to tell.\n        if not self.producer:\n            return\n\n        # If we're not blocked on flow control, we don't care.\n        if self._producerProducing:\n            return\n\n        # We check whether the stream's flow control window is actually above\n", "        if not self._producerInState(True):\n            return\n\n        # We check whether the stream's flow control window is actually above\n", more=[(H2, '    def flowControlBlocked(self):', '    def _producerInState(self, producing):\n        if not self.producer:\n            return False\n        return bool(self._producerProducing) == producing\n\n    def flowControlBlocked(self):')], expect_rule="backpressure/"),
    Mutant("stream-selector-prefers-a-remembered-stream", H2, '        stream = None\n\n        while stream is None:\n            try:\n                stream = next(self.priority)\n            except priority.DeadlockError:\n                # All streams are currently blocked or not progressing. Wait\n                # until a new one becomes available.\n                assert self._sendingDeferred is None\n                self._sendingDeferred = Deferred()\n                self._sendingDeferred.addCallback(self._sendPrioritisedData)\n                return\n', '        stream = self._pickStream()\n        if stream is None:\n            return\n',
           more=[(H2, '    def _sendPrioritisedData(self, *args):', '    def _pickStream(self):\n        if getattr(self, chr(95) + chr(108), None) is not None:\n            return self._l\n        while True:\n            try:\n                picked = next(self.priority)\n            except priority.DeadlockError:\n                assert self._sendingDeferred is None\n                self._sendingDeferred = Deferred()\n                self._sendingDeferred.addCallback(self._sendPrioritisedData)\n                return None\n            if picked is not None:\n                return picked\n\n    def _sendPrioritisedData(self, *args):')], expect_rule="loop/stream-chosen-this-turn"),
    Mutant("stream-remembered-across-turns-in-an-attribute", H2, "        stream = None\n\n        while stream is None:", "        stream = self.__dict__.pop(\"_turnStream\", None)\n\n        while stream is None:",
           expect_rule="loop/stream-chosen-this-turn"),
    Mutant("stream-handed-to-the-next-turn-as-argument", H2, "    def _sendPrioritisedData(self, *args):", "    def _sendPrioritisedData(self, *args, stream=None):",
           more=[(H2, "        stream = None\n\n        while stream is None:", "        while stream is None:")], expect_rule="loop/stream-chosen-this-turn"),
    Mutant("clamp-ignores-the-frame-size-limit", H2, "        maxFrameSize = max(\n            0, min(self.conn.max_outbound_frame_size, remainingWindow)\n        )", "        maxFrameSize = max(0, remainingWindow)"),
    Mutant("clamp-dropped", H2, "            if len(frameData) > maxFrameSize:\n                excessData = frameData[maxFrameSize:]\n                frameData = frameData[:maxFrameSize]\n                self._outboundStreamQueues[stream].appendleft(excessData)\n", ""),
    Mutant("clamp-ignores-window", H2, "        maxFrameSize = max(\n            0, min(self.conn.max_outbound_frame_size, remainingWindow)\n        )", "        maxFrameSize = self.conn.max_outbound_frame_size"),
    Mutant("revert-F29-negative-window-not-floored", H2, "        maxFrameSize = max(\n            0, min(self.conn.max_outbound_frame_size, remainingWindow)\n        )",
           "        maxFrameSize = min(self.conn.max_outbound_frame_size, remainingWindow)", expect_rule="clamp/negative-window"),
    Mutant("window-floor-of-one", H2, "        maxFrameSize = max(\n            0, min(self.conn.max_outbound_frame_size, remainingWindow)\n        )",
           "        maxFrameSize = max(\n            1, min(self.conn.max_outbound_frame_size, remainingWindow)\n        )"),
    Mutant("clamp-off-by-one", H2, "                frameData = frameData[:maxFrameSize]\n", "                frameData = frameData[: maxFrameSize + 1]\n"),
    Mutant("excess-requeued-at-back", H2, "                self._outboundStreamQueues[stream].appendleft(excessData)", "                self._outboundStreamQueues[stream].append(excessData)"),
    Mutant("excess-overlaps", H2, "                excessData = frameData[maxFrameSize:]\n", "                excessData = frameData[maxFrameSize - 1 :]\n"),
    Mutant("loop-pops-from-right", H2, "        frameData = self._outboundStreamQueues[stream].popleft()", "        frameData = self._outboundStreamQueues[stream].pop()"),
    Mutant("connection-window-update-unblocks-idle-streams", H2, "                # If we still have data to send for this stream, unblock it.\n                if self._outboundStreamQueues.get(stream.streamID):\n                    self.priority.unblock(stream.streamID)",
           "                # Let the stream take part in the next round.\n                self.priority.unblock(stream.streamID)"),
    Mutant("write-missing-wakeup", H2, "            self.priority.unblock(streamID)\n            if self._sendingDeferred is not None:\n                d = self._sendingDeferred\n                self._sendingDeferred = None\n                d.callback(streamID)\n\n        if self.remainingOutboundWindow(streamID) <= 0:",
           "            self.priority.unblock(streamID)\n\n        if self.remainingOutboundWindow(streamID) <= 0:"),
    Mutant("end-of-stream-no-reschedule", H2, "            # Clean up the stream\n            self._requestDone(stream)\n", "            # Clean up the stream\n            self._requestDone(stream)\n            return\n"),
    Mutant("block-on-exhausted-window", H2, "            if not self._outboundStreamQueues[stream]:\n                self.priority.block(stream)\n",
           "            if not self._outboundStreamQueues[stream] or self.conn.local_flow_control_window(stream) <= 0:\n                self.priority.block(stream)\n"),
    Mutant("resume-at-zero-window", H2, "        if not remainingWindow > 0:\n            return\n", "        if not remainingWindow >= 0:\n            return\n"),
    Mutant("pause-flag-not-reset", H2, "            self.producer.pauseProducing()\n            self._producerProducing = False\n", "            self.producer.pauseProducing()\n"),
    Mutant("connection-update-skips-idle-streams", H2, "            for stream in self.streams.values():\n                stream.windowUpdated()\n\n                # If we still have data to send for this stream, unblock it.\n                if self._outboundStreamQueues.get(stream.streamID):\n                    self.priority.unblock(stream.streamID)",
           "            for stream in self.streams.values():\n                # If we still have data to send for this stream, unblock it.\n                if self._outboundStreamQueues.get(stream.streamID):\n                    stream.windowUpdated()\n                    self.priority.unblock(stream.streamID)"),
    Mutant("remaining-window-ignores-queue", H2, "        return windowSize - alreadyConsumed", "        return windowSize"),
    Mutant("end-stream-before-sentinel", H2, "        if frameData is _END_STREAM_SENTINEL:\n            # There's no error handling here even though", "        if frameData is _END_STREAM_SENTINEL or not frameData:\n            # There's no error handling here even though"),
]
SILENT = [
    Silent("priority-tree-with-room-for-the-root", H2, "        self.priority = priority.PriorityTree()\n", "        self.priority = priority.PriorityTree(maximum_streams=self.conn.local_settings.max_concurrent_streams + 1)\n"),
    Silent("priority-tree-default-capacity-spelled-out", H2, "        self.priority = priority.PriorityTree()\n", "        self.priority = priority.PriorityTree(maximum_streams=1000)\n"),
    Silent("resume-guard-through-a-state-predicate", H2, "        # If we don't have a producer, we have no-one to tell.\n        if not self.producer:\n            return\n\n        # If we're not blocked on flow control, we don't care.\n        if self._producerProducing:\n            return\n\n        # We check whether the stream's flow control window is actually above\n", "        if not self._producerInState(False):\n            return\n\n        # We check whether the stream's flow control window is actually above\n", more=[(H2, '    def flowControlBlocked(self):', '    def _producerInState(self, producing):\n        if not self.producer:\n            return False\n        return bool(self._producerProducing) == producing\n\n    def flowControlBlocked(self):')]),
    Silent("stream-chosen-by-a-selector-helper-that-parks-the-loop", H2, '        stream = None\n\n        while stream is None:\n            try:\n                stream = next(self.priority)\n            except priority.DeadlockError:\n                # All streams are currently blocked or not progressing. Wait\n                # until a new one becomes available.\n                assert self._sendingDeferred is None\n                self._sendingDeferred = Deferred()\n                self._sendingDeferred.addCallback(self._sendPrioritisedData)\n                return\n', '        stream = self._pickStream()\n        if stream is None:\n            return\n', more=[(H2, '    def _sendPrioritisedData(self, *args):', '    def _pickStream(self):\n        while True:\n            try:\n                picked = next(self.priority)\n            except priority.DeadlockError:\n                assert self._sendingDeferred is None\n                self._sendingDeferred = Deferred()\n                self._sendingDeferred.addCallback(self._sendPrioritisedData)\n                return None\n            if picked is not None:\n                return picked\n\n    def _sendPrioritisedData(self, *args):')]),
    # firing the parked Deferred before clearing the attribute is not observable: the re-entered loop has an unblocked stream, so it cannot park again in that turn
    Silent("wake-then-clear-parked-deferred", H2, "        self._outboundStreamQueues[streamID].append(_END_STREAM_SENTINEL)\n        self.priority.unblock(streamID)\n        if self._sendingDeferred is not None:\n            d = self._sendingDeferred\n            self._sendingDeferred = None\n            d.callback(streamID)",
           "        self._outboundStreamQueues[streamID].append(_END_STREAM_SENTINEL)\n        self.priority.unblock(streamID)\n        if self._sendingDeferred is not None:\n            d = self._sendingDeferred\n            d.callback(streamID)\n            self._sendingDeferred = None"),
    Silent("wake-up-extracted-into-helper", H2, "        self._outboundStreamQueues[streamID].append(_END_STREAM_SENTINEL)\n        self.priority.unblock(streamID)\n        if self._sendingDeferred is not None:\n            d = self._sendingDeferred\n            self._sendingDeferred = None\n            d.callback(streamID)\n",
           "        self._outboundStreamQueues[streamID].append(_END_STREAM_SENTINEL)\n        self._unblockAndWake(streamID)\n\n    def _unblockAndWake(self, streamID):\n        self.priority.unblock(streamID)\n        parked, self._sendingDeferred = self._sendingDeferred, None\n        if parked is not None:\n            parked.callback(streamID)\n"),
    Silent("remaining-window-explicit-loop", H2, "        alreadyConsumed = sum(\n            len(chunk) for chunk in sendQueue if chunk is not _END_STREAM_SENTINEL\n        )\n",
           "        alreadyConsumed = 0\n        for chunk in sendQueue:\n            if chunk is _END_STREAM_SENTINEL:\n                continue\n            alreadyConsumed += len(chunk)\n"),
    Silent("window-updated-single-condition", H2, "        if not self.producer:\n            return\n\n        # If we're not blocked on flow control, we don't care.\n        if self._producerProducing:\n            return\n",
           "        if not self.producer or self._producerProducing:\n            return\n"),
    Silent("window-update-queue-test-by-index", H2, "            if self._outboundStreamQueues.get(streamID):\n                self.priority.unblock(streamID)", "            if len(self._outboundStreamQueues[streamID]) > 0:\n                self.priority.unblock(streamID)"),
    Silent("clamp-rewritten-with-tuple-assign-and-floor", H2, "                excessData = frameData[maxFrameSize:]\n                frameData = frameData[:maxFrameSize]\n                self._outboundStreamQueues[stream].appendleft(excessData)\n",
           "                cut = max(maxFrameSize, 0)\n                frameData, excessData = frameData[:cut], frameData[cut:]\n                self._outboundStreamQueues[stream].appendleft(excessData)\n"),
    Silent("clamp-slices-swapped-order", H2, "                excessData = frameData[maxFrameSize:]\n                frameData = frameData[:maxFrameSize]\n                self._outboundStreamQueues[stream].appendleft(excessData)\n",
           "                self._outboundStreamQueues[stream].appendleft(frameData[maxFrameSize:])\n                frameData = frameData[:maxFrameSize]\n"),
    Silent("zero-floor-on-the-window-operand", H2, "        maxFrameSize = max(\n            0, min(self.conn.max_outbound_frame_size, remainingWindow)\n        )",
           "        maxFrameSize = min(self.conn.max_outbound_frame_size, max(remainingWindow, 0))"),
    Silent("window-test-flipped", H2, "        if not remainingWindow > 0:\n            return\n", "        if remainingWindow <= 0:\n            return\n"),
    Silent("blocked-test-flipped", H2, "        if self.remainingOutboundWindow(streamID) <= 0:\n            self.streams[streamID].flowControlBlocked()", "        if not self.remainingOutboundWindow(streamID) > 0:\n            self.streams[streamID].flowControlBlocked()"),
    Silent("rename-wakeup-local", H2, "        self.priority.unblock(streamID)\n        if self._sendingDeferred is not None:\n            d = self._sendingDeferred\n            self._sendingDeferred = None\n            d.callback(streamID)\n\n    def abortRequest",
           "        self.priority.unblock(streamID)\n        if self._sendingDeferred is not None:\n            parked, self._sendingDeferred = self._sendingDeferred, None\n            parked.callback(streamID)\n\n    def abortRequest"),
]
