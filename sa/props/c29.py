"""C29 - the HTTP/2 server respects flow control and delivers each stream intact."""
from __future__ import annotations

import ast

from sa.astx import call_attr, call_name, lin_expect, lincmp, src, walk_local
from sa.selftest import Mutant, Silent
from sa.source import AnalysisError
from sa.props._lib_f import (InterpError, assign_sites, call_sites, class_functions, cmp_polarity, from_here, interpret, is_self_attr, named_calls,
                             none_guard, param_names, truth_guard)

PROPERTY = "C29"
H2 = "web/_http2.py"
Q = "twisted.web._http2."
TECHNIQUE = "finite-domain interpretation of the frame clamp + queue/wake-up discipline on the CFG"
EXPLANATION = (
    "Decides (the module is parsed, never imported): (a) the data branch of H2Connection._sendPrioritisedData is interpreted with a model queue for every "
    "chunk length 0..6, max frame size 0..4 and flow-control window -3..4: at most one DATA frame is sent, never longer than min(max_outbound_frame_size, "
    "window), nothing is sent when that is 0, and `sent + requeued` is the original chunk with the remainder put back at the FRONT of the queue; END_STREAM "
    "is sent only when the sentinel is popped; (b) queue discipline: writers append (data / sentinel, payload unchanged, writeSequence in order), the loop "
    "pops from the left; (c) the loop never dies silently: every normal path returns on not-_stillProducing, parks on a fresh _sendingDeferred or on "
    "_consumerBlocked, or re-schedules itself; _sendingDeferred is detached before it is fired and fired after every append that unblocks; a stream is "
    "blocked in the priority tree only when its queue is empty and, at EVERY priority.unblock site of the class, unblocked only with a queue known non-empty (guard or preceding append) (which is what makes _handleWindowUpdate's silent unblock sufficient); (d) back-pressure: "
    "flowControlBlocked() when remainingOutboundWindow <= 0, which is window minus queued bytes; windowUpdated() reaches every affected stream and resumes a "
    "paused producer exactly when the remaining window is > 0, keeping the _producerProducing flag coupled with pause/resume. Not decided: liveness under "
    "arbitrary schedules, byte-level equality at the peer.  Known finding F29: with a NEGATIVE window (peer shrinks SETTINGS_INITIAL_WINDOW_SIZE) the clamp slices wrongly and the loop dies."
)
ASSUMPTIONS = ["h2's local_flow_control_window / max_outbound_frame_size report the peer's limits", "the priority tree only yields unblocked streams"]

C = "H2Connection"
QUEUE = "self._outboundStreamQueues"


class _Queue:
    _sa_model = True

    def __init__(self, first):
        self.items = [first]
        self.log = []

    def popleft(self):
        return self.items.pop(0)

    def appendleft(self, x):
        self.log.append("appendleft")
        self.items.insert(0, x)

    def append(self, x):
        self.log.append("append")
        self.items.append(x)

    def flowControlBlocked(self):
        return None

    def __getitem__(self, i):
        return self.items[i]

    def __bool__(self):
        return bool(self.items)

    def __len__(self):
        return len(self.items)


def check(ctx):
    with ctx.section("clamp"):
        _clamp(ctx)
    with ctx.section("end-stream"):
        _end_stream(ctx)
    with ctx.section("queues"):
        _queues(ctx)
    with ctx.section("loop"):
        _loop(ctx)
    with ctx.section("wakeup"):
        _wakeup(ctx)
    with ctx.section("unblock-sites"):
        _unblock_sites(ctx)
    with ctx.section("backpressure"):
        _backpressure(ctx)


def _pairs(st):
    """(target, value) pairs of an assignment, element-wise for `a, b = x, y`"""
    out = []
    if isinstance(st, ast.Assign):
        for t in st.targets:
            if isinstance(t, (ast.Tuple, ast.List)) and isinstance(st.value, (ast.Tuple, ast.List)) and len(t.elts) == len(st.value.elts):
                out.extend(zip(t.elts, st.value.elts))
            else:
                out.append((t, st.value))
    return out


def _queue_calls(f):
    """(method name, call) for calls on self._outboundStreamQueues[<k>]"""
    out = []
    for c in walk_local(f):
        if isinstance(c, ast.Call) and isinstance(c.func, ast.Attribute) and isinstance(c.func.value, ast.Subscript) and src(c.func.value.value) == QUEUE:
            out.append((c.func.attr, c))
    return out


class _Self:
    """model of the H2Connection instance: only inert data attributes (bound-method references used as callbacks)"""
    _sa_model = True
    _sendPrioritisedData = "<self._sendPrioritisedData>"

    def __getattr__(self, name):
        if name.startswith("__"):
            raise AttributeError(name)
        return f"<self.{name}>"


class _Tree:
    _sa_model = True


SENTINEL = object()


def _run_loop(f, first, M, W):
    """interpret one turn of the sending loop with the queue holding ``first``; returns (sent frames, queue model, ended streams, rescheduled?)"""
    qm = _Queue(first)
    sent, ended, again = [], [], []
    funcs = {
        "next": lambda it: 1,
        "self.conn.local_flow_control_window": lambda s: W,
        "self.conn.send_data": lambda s, d, *a: sent.append(d),
        "self.conn.end_stream": lambda s: ended.append(s),
        "self.conn.data_to_send": lambda *a: b"",
        "self.transport.write": lambda *a: None,
        "self.priority.block": lambda *a: None,
        "self.priority.unblock": lambda *a: None,
        "self.remainingOutboundWindow": lambda s: 1,
        "self.resetTimeout": lambda: None,
        "self._requestDone": lambda s: None,
        "self._reactor.callLater": lambda *a: again.append(a),
        "Deferred": lambda *a: _Tree(),
    }
    mapping = {f"{QUEUE}[stream]": qm, "self.conn.max_outbound_frame_size": M, "self.streams[stream]": qm, "self._stillProducing": True,
               "self._consumerBlocked": None, "self._sendingDeferred": None, "self.priority": _Tree(), "_END_STREAM_SENTINEL": SENTINEL}
    interpret(f, {"self": _Self(), "args": ()}, mapping, funcs=funcs)
    return sent, qm, ended, again


def _clamp(ctx):
    f = ctx.func(H2, C + "._sendPrioritisedData")
    q = Q + C + "._sendPrioritisedData"
    bad, badneg = [], []
    n = 0
    try:
        for L in range(0, 7):
            for M in range(0, 5):
                for W in range(-3, 5):
                    n += 1
                    chunk = bytes(range(65, 65 + L))
                    sent, qm, ended, again = _run_loop(f, chunk, M, W)
                    limit = max(0, min(M, W))
                    total = b"".join(sent)
                    back = b"".join(x for x in qm.items if isinstance(x, bytes))
                    why = None
                    if len(total) > limit:
                        why = f"sends {len(total)} bytes"
                    elif len(sent) > 1:
                        why = "sends more than one frame per turn"
                    elif total + back != chunk:
                        why = f"sent {total!r} + requeued {back!r} is not the chunk {chunk!r}"
                    elif "append" in qm.log:
                        why = "the remainder is appended at the back of the queue (later data overtakes it)"
                    elif L and limit and not total:
                        why = "sends nothing although the window is open"
                    elif ended:
                        why = "ends the stream although the popped item is ordinary data (the body is cut)"
                    if why:
                        (badneg if W < 0 else bad).append((L, M, W, why))
        sent, qm, ended, again = _run_loop(f, SENTINEL, 4, 4)
        sentinel_ok = ended == [1] and not sent
    except InterpError as e:
        raise AnalysisError(f"C29: _sendPrioritisedData uses a construct the evaluator cannot interpret: {e}")
    msg = ""
    if bad:
        L, M, W, why = bad[0]
        msg = f"chunk of {L} bytes, max_outbound_frame_size={M}, flow-control window={W}: {why} (limit {max(0, min(M, W))}); {len(bad)} cases wrong"
    ctx.check(not bad, "clamp/frame-within-window", q + " | <data branch>", msg, detail=f"{n} (length, max frame, window) cases")
    msg = ""
    if badneg:
        L, M, W, why = badneg[0]
        msg = (f"chunk of {L} bytes, max_outbound_frame_size={M}, flow-control window={W} (negative after the peer shrank SETTINGS_INITIAL_WINDOW_SIZE): {why}; the clamp slices with a "
               f"negative bound (frameData[:{W}]), h2 refuses the frame with FlowControlError inside the loop, which is then never re-scheduled; {len(badneg)} cases wrong")
    ctx.check(not badneg, "clamp/negative-window", q + " | <data branch>", msg)
    ctx.check(sentinel_ok, "clamp/end-after-data", q + " | <sentinel popped>", "popping the end-of-response sentinel does not end the stream (exactly once, without sending it as data)")
    ctx.extra["finite_cases_clamp"] = n


def _end_stream(ctx):
    f = ctx.func(H2, C + "._sendPrioritisedData")
    q = Q + C + "._sendPrioritisedData"
    pops = [s for s in walk_local(f) if isinstance(s, ast.Assign) and isinstance(s.value, ast.Call) and [m for m, c in _queue_calls(s) if m in ("popleft", "pop")]]
    ctx.need(len(pops) == 1 and isinstance(pops[0].targets[0], ast.Name), "frameData = self._outboundStreamQueues[stream].popleft()")
    data = pops[0].targets[0].id
    pre = [s for s in walk_local(f) if isinstance(s, ast.Assign)]
    # the window used is that of the popped stream
    win = [s for s in pre if "local_flow_control_window" in src(s.value)]
    ok = len(win) == 1 and isinstance(win[0].value, ast.Call) and [src(a) for a in win[0].value.args] == ["stream"] and src(pops[0].value.func.value.slice) == "stream"
    ctx.check(ok, "clamp/frame-within-window", q + " | window of the same stream", "the window consulted is not that of the stream whose queue is popped")
    # END_STREAM only on the sentinel
    g = ctx.cfg(f)
    ends = named_calls(g, "self.conn.end_stream")
    sends = named_calls(g, "self.conn.send_data")
    ctx.check(len(ends) == 1 and len(sends) == 1, "clamp/end-after-data", q, "end_stream / send_data are not each called at one site")
    for n_, c in ends:
        ctx.check(any(cmp_polarity(g.node(t).ast, data, "_END_STREAM_SENTINEL") == (lab == "T") for t, lab in g.edge_guards(n_) if cmp_polarity(g.node(t).ast, data, "_END_STREAM_SENTINEL") is not None),
                  "clamp/end-after-data", ctx.construct(q, c), "END_STREAM is sent although the popped item is not the end-of-response sentinel (the body is cut)")
        done = [m for m, _ in named_calls(g, "self._requestDone")]
        ctx.check(bool(done) and g.must_pass([n_], done, exc=False) is None, "clamp/end-after-data", ctx.construct(q, c) + " | cleanup", "stream state is not cleaned up after END_STREAM")
    for n_, c in sends:
        ok = any(cmp_polarity(g.node(t).ast, data, "_END_STREAM_SENTINEL") == (lab == "F") for t, lab in g.edge_guards(n_) if cmp_polarity(g.node(t).ast, data, "_END_STREAM_SENTINEL") is not None)
        ctx.check(ok and [src(a) for a in c.args] == ["stream", data], "clamp/end-after-data", ctx.construct(q, c), "the sentinel can reach send_data, or the frame is not sent on the popped stream")
        wr = [m for m, c2 in named_calls(g, "self.transport.write") if "data_to_send" in src(c2)]
        ctx.check(g.must_pass([n_], wr, exc=False) is None, "clamp/end-after-data", ctx.construct(q, c) + " | flushed", "the frame is not handed to the transport")


def _queues(ctx):
    mod = ctx.mod(H2)
    seen = {}
    for qn, fn in class_functions(mod, C):
        for m, c in _queue_calls(fn):
            seen.setdefault(qn.split(".", 1)[1], []).append((m, c))
    allowed = {"_sendPrioritisedData": {"popleft", "appendleft"}, "writeDataToStream": {"append"}, "endRequest": {"append"},
               "_handleWindowUpdate": {"get"}}
    nsite = 0
    for fn, calls in sorted(seen.items()):
        for m, c in calls:
            nsite += 1
            ctx.check(m in allowed.get(fn, set()), "queue/fifo", ctx.construct(Q + C + "." + fn, c),
                      f"`{m}` on an outbound stream queue in {fn}: response data must be appended by the writers and popped from the left by the send loop only")
    ctx.floor("queue/fifo", nsite, 4)
    f = ctx.func(H2, C + ".writeDataToStream")
    ps = param_names(f)
    app = [c for m, c in _queue_calls(f) if m == "append"]
    ok = len(app) == 1 and [src(a) for a in app[0].args] == [ps[2]] and src(app[0].func.value.slice) == ps[1]
    ctx.check(ok, "queue/payload", Q + C + ".writeDataToStream", "the data written is not appended unchanged to the queue of its stream")
    f = ctx.func(H2, C + ".endRequest")
    app = [c for m, c in _queue_calls(f) if m == "append"]
    ok = len(app) == 1 and [src(a) for a in app[0].args] == ["_END_STREAM_SENTINEL"] and src(app[0].func.value.slice) == param_names(f)[1]
    ctx.check(ok, "queue/payload", Q + C + ".endRequest", "the end of the response is not marked by appending the sentinel to the stream's queue")
    f = ctx.func(H2, C + "._requestReceived")
    mk = [s for s in walk_local(f) if isinstance(s, ast.Assign) and isinstance(s.targets[0], ast.Subscript) and src(s.targets[0].value) == QUEUE]
    ctx.check(len(mk) == 1 and src(mk[0].value) in ("deque()", "collections.deque()"), "queue/fifo", Q + C + "._requestReceived", "a stream's outbound queue is not created as an empty deque")
    f = ctx.func(H2, "H2Stream.write")
    calls = [c for c in walk_local(f) if isinstance(c, ast.Call) and call_name(c) == "self._conn.writeDataToStream"]
    ctx.check(len(calls) == 1 and [src(a) for a in calls[0].args] == ["self.streamID", param_names(f)[1]], "queue/payload", Q + "H2Stream.write", "write() does not pass the bytes unchanged to its own stream")
    f = ctx.func(H2, "H2Stream.writeSequence")
    loops = [s for s in walk_local(f) if isinstance(s, ast.For) and src(s.iter) == param_names(f)[1]]
    ok = len(loops) == 1 and any(isinstance(c, ast.Call) and call_name(c) == "self.write" and [src(a) for a in c.args] == [src(loops[0].target)] for c in ast.walk(loops[0]))
    ctx.check(ok, "queue/payload", Q + "H2Stream.writeSequence", "writeSequence does not write every chunk in order")
    f = ctx.func(H2, "H2Stream.loseConnection")
    ok = any(isinstance(c, ast.Call) and call_name(c) == "self._conn.endRequest" and [src(a) for a in c.args] == ["self.streamID"] for c in walk_local(f))
    ctx.check(ok, "queue/payload", Q + "H2Stream.loseConnection", "finishing the response does not queue the end marker behind the data")


def _loop(ctx):
    f = ctx.func(H2, C + "._sendPrioritisedData")
    g = ctx.cfg(f)
    q = Q + C + "._sendPrioritisedData"
    me = "self._sendPrioritisedData"
    resched = [n for n, c in call_sites(g, lambda c: call_attr(c) in ("callLater", "addCallback") and any(src(a) == me for a in c.args))]
    stop = [r for r in g.ids(lambda x: x.kind == "stmt" and isinstance(x.ast, ast.Return)) if truth_guard(g, r, "self._stillProducing", False)]
    w = g.must_pass([g.entry], set(resched) | set(stop), exc=False)
    ctx.check(bool(resched) and w is None, "loop/continues", q,
              "the sending loop can return without parking on a Deferred or re-scheduling itself: every stream stalls", witness=g.describe(w))
    ctx.check(len(stop) == 1, "loop/continues", q + " | stop", "the loop does not stop when producing has stopped")
    # parking on DeadlockError creates a fresh Deferred that re-enters the loop
    parks = [(n, st) for n, st in assign_sites(g, lambda x: is_self_attr(x, "_sendingDeferred")) if isinstance(st.value, ast.Call) and call_name(st.value) == "Deferred"]
    ctx.check(len(parks) == 1, "loop/parks-once", q, "the loop does not park on a fresh _sendingDeferred at exactly one site")
    for n, st in parks:
        hooks = [m for m, c in named_calls(g, "self._sendingDeferred.addCallback") if [src(a) for a in c.args] == [me]]
        rets = g.ids(lambda x: x.kind == "stmt" and isinstance(x.ast, ast.Return))
        ok = bool(hooks) and g.must_pass([n], hooks, exc=False) is None and all(g.path([h], [r_ for r_ in resched if r_ not in hooks], strict=True) is None for h in hooks)
        ctx.check(ok, "loop/parks-once", ctx.construct(q, st), "after parking the loop is not resumed by the Deferred alone (or also re-schedules itself: two loops would run)")
        hs = [h for h in g.ids(lambda x: x.kind == "handler") if "DeadlockError" in src(g.node(h).ast.type)]
        ctx.check(bool(hs) and all(g.path([h], [n]) is not None for h in hs), "loop/parks-once", ctx.construct(q, st) + " | on deadlock", "parking is not the reaction to priority.DeadlockError")
    # block only when the queue is empty
    blocks = named_calls(g, "self.priority.block")
    ctx.check(len(blocks) == 1, "loop/block-only-when-empty", q, "priority.block is not called at exactly one site of the loop")
    for n, c in blocks:
        ok = any(src(g.node(t).ast) == f"{QUEUE}[stream]" and lab == "F" for t, lab in g.edge_guards(n)) or \
            any(lincmp(g.node(t).ast, negate=(lab == "F")) == lin_expect({f"len({QUEUE}[stream])": -1}, 0) for t, lab in g.edge_guards(n))
        ctx.check(ok and [src(a) for a in c.args] == ["stream"], "loop/block-only-when-empty", ctx.construct(q, c),
                  "a stream is blocked in the priority tree although its queue still holds data: WINDOW_UPDATE unblocks without waking the parked loop, the data is never sent")
    # waiting behind the transport
    cb = [n for n, c in named_calls(g, "self._consumerBlocked.addCallback") if [src(a) for a in c.args] == [me]]
    ctx.check(len(cb) == 1 and none_guard(g, cb[0], "self._consumerBlocked", False), "loop/continues", q + " | behind transport", "the loop does not wait behind a paused transport")
    for n_, c in named_calls(g, "self.conn.send_data"):
        w = g.path([g.entry], [n_], avoid=[t for t in g.ids(lambda x: x.kind == "test") if cmp_polarity(g.node(t).ast, "self._consumerBlocked", "None") is not None])
        ctx.check(w is None, "loop/continues", ctx.construct(q, c) + " | transport not paused", "data is sent while the transport asked us to pause", witness=g.describe(w))


def _wakeup(ctx):
    for name in ("writeDataToStream", "endRequest"):
        f = ctx.func(H2, C + "." + name)
        g = ctx.cfg(f)
        q = Q + C + "." + name
        aliases = {src(t) for st in walk_local(f) if isinstance(st, ast.Assign) for t, v in _pairs(st) if isinstance(t, ast.Name) and src(v) == "self._sendingDeferred"}
        fires = call_sites(g, lambda c: isinstance(c.func, ast.Attribute) and c.func.attr == "callback" and (src(c.func.value) in aliases or src(c.func.value) == "self._sendingDeferred"))
        ctx.check(len(fires) == 1, "wakeup/fires-parked-loop", q, f"{len(fires)} sites wake the parked sending loop (one expected)")
        clear = [n for n, st in assign_sites(g, lambda x: is_self_attr(x, "_sendingDeferred")) if any(is_self_attr(t, "_sendingDeferred") and src(v) == "None" for t, v in _pairs(st))]
        for n, c in fires:
            ok = src(c.func.value) in aliases and bool(clear) and g.must_precede(clear, [n]) is None and none_guard(g, n, "self._sendingDeferred", False)
            ctx.check(ok, "wakeup/detach-before-fire", ctx.construct(q, c),
                      "_sendingDeferred is fired while still attached: the loop runs synchronously, may park again and the new Deferred is overwritten/fired twice")
        un = named_calls(g, "self.priority.unblock")
        ctx.check(len(un) == 1, "wakeup/fires-parked-loop", q + " | unblock", "the stream is not unblocked at exactly one site")
        tests = [t for t in g.ids(lambda x: x.kind == "test") if cmp_polarity(g.node(t).ast, "self._sendingDeferred", "None") is not None]
        for n, c in un:
            w = g.must_pass([n], tests, exc=False)
            ctx.check(bool(tests) and w is None, "wakeup/fires-parked-loop", ctx.construct(q, c),
                      "a stream is unblocked because data was queued, but a parked sending loop is not woken: the response hangs", witness=g.describe(w))
            app = [m for m, c2 in call_sites(g, lambda c2: isinstance(c2.func, ast.Attribute) and c2.func.attr == "append" and isinstance(c2.func.value, ast.Subscript))]
            ctx.check(bool(app) and g.must_precede(app, [n]) is None, "wakeup/fires-parked-loop", ctx.construct(q, c) + " | after append", "the loop is woken before the data is in the queue")
        for t in tests:
            pol = cmp_polarity(g.node(t).ast, "self._sendingDeferred", "None")
            parked = [d for d, l in g.succ[t] if l == ("F" if pol else "T")]
            w = from_here(g, parked, [n for n, c in fires])
            ctx.check(w is None, "wakeup/fires-parked-loop", q + " | parked => fired", "with a parked loop there is a path that does not fire it", witness=g.describe(w))
    f = ctx.func(H2, C + ".writeDataToStream")
    g = ctx.cfg(f)
    q = Q + C + ".writeDataToStream"
    for n, c in named_calls(g, "self.priority.unblock"):
        ok = any(lincmp(g.node(t).ast, negate=(lab == "F")) == lin_expect({f"self.conn.local_flow_control_window({param_names(f)[1]})": 1}, 1) for t, lab in g.edge_guards(n))
        ctx.check(ok, "wakeup/unblock-needs-window", ctx.construct(q, c), "a stream with no send window is unblocked on write (the loop would spin without sending)")


def _unblock_sites(ctx):
    """invariant `unblocked in the priority tree => the stream's outbound queue is non-empty`: the send loop pops without a test, so EVERY unblock site must establish it"""
    mod = ctx.mod(H2)
    n = 0
    for qn, fn in class_functions(mod, C):
        g = ctx.cfg(fn)
        for nid, c in named_calls(g, "self.priority.unblock"):
            n += 1
            key = src(c.args[0]) if c.args else "?"
            nonempty = False
            for t, lab in g.edge_guards(nid):
                e = g.node(t).ast
                if lab == "T" and src(e) in (f"{QUEUE}.get({key})", f"{QUEUE}[{key}]"):
                    nonempty = True
                if lincmp(e, negate=(lab == "F")) in (lin_expect({f"len({QUEUE}[{key}])": 1}, 1), lin_expect({f"len({QUEUE}.get({key}))": 1}, 1)):
                    nonempty = True
            appended = [m for m, c2 in call_sites(g, lambda c2: isinstance(c2.func, ast.Attribute) and c2.func.attr in ("append", "appendleft") and
                                                  src(c2.func.value) == f"{QUEUE}[{key}]")]
            if appended and g.must_precede(appended, [nid]) is None:
                nonempty = True
            ctx.check(nonempty, "wakeup/unblock-only-with-data", ctx.construct(Q + qn, c),
                      f"stream {key} is unblocked in the priority tree without its outbound queue being known non-empty (neither guarded by a queue test nor preceded by an append): "
                      "the send loop pops an empty deque (IndexError), is never re-scheduled and no stream completes")
    ctx.floor("wakeup/unblock-only-with-data", n, 4)
    # and the consumer side: the pop is unguarded, so the rule above is what protects it (or it has its own non-empty test)
    f = ctx.func(H2, C + "._sendPrioritisedData")
    pops = [c for m, c in _queue_calls(f) if m in ("popleft", "pop")]
    ctx.check(len(pops) == 1, "wakeup/unblock-only-with-data", Q + C + "._sendPrioritisedData | pop site", f"{len(pops)} pop sites in the send loop (one expected)")


def _backpressure(ctx):
    # flowControlBlocked() whenever the remaining window is exhausted
    for name, key in (("writeDataToStream", None), ("_sendPrioritisedData", "stream")):
        f = ctx.func(H2, C + "." + name)
        g = ctx.cfg(f)
        q = Q + C + "." + name
        sid = key or param_names(f)[1]
        fb = call_sites(g, lambda c: call_attr(c) == "flowControlBlocked")
        ctx.check(len(fb) == 1, "backpressure/blocked-at-zero", q, "flowControlBlocked() is not called at exactly one site")
        for n, c in fb:
            want = lin_expect({f"self.remainingOutboundWindow({sid})": -1}, 0)
            ok = any(lincmp(g.node(t).ast, negate=(lab == "F")) == want for t, lab in g.edge_guards(n)) and src(c.func.value) == f"self.streams[{sid}]"
            ctx.check(ok, "backpressure/blocked-at-zero", ctx.construct(q, c),
                      "the producer of a stream is not paused exactly when remainingOutboundWindow(stream) <= 0 (it keeps buffering without bound, or is paused with window left and never resumed)")
        tests = [t for t in g.ids(lambda x: x.kind == "test") if "remainingOutboundWindow" in src(g.node(t).ast)]
        if name == "writeDataToStream":
            w = g.must_pass([g.entry], tests, exc=False)
            ctx.check(bool(tests) and w is None, "backpressure/blocked-at-zero", q + " | every write checks", "a write can return without checking the remaining window", witness=g.describe(w))
        else:
            for n_, c in named_calls(g, "self.conn.send_data"):
                w = g.must_pass([n_], tests, exc=False)
                ctx.check(bool(tests) and w is None, "backpressure/blocked-at-zero", q + " | after every frame", "after sending a frame the remaining window is not checked", witness=g.describe(w))
    f = ctx.func(H2, C + ".remainingOutboundWindow")
    q = Q + C + ".remainingOutboundWindow"
    rets = [s for s in walk_local(f) if isinstance(s, ast.Return)]
    ok = len(rets) == 1 and isinstance(rets[0].value, ast.BinOp) and isinstance(rets[0].value.op, ast.Sub)
    if ok:
        defs = {src(s.targets[0]): s.value for s in walk_local(f) if isinstance(s, ast.Assign)}
        l, r = defs.get(src(rets[0].value.left)), defs.get(src(rets[0].value.right))
        sid = param_names(f)[1]
        ok = l is not None and src(l) == f"self.conn.local_flow_control_window({sid})" and isinstance(r, ast.Call) and call_name(r) == "sum" and isinstance(r.args[0], ast.GeneratorExp)
        if ok:
            ge = r.args[0]
            it = defs.get(src(ge.generators[0].iter), ge.generators[0].iter)
            v = src(ge.generators[0].target)
            ok = src(ge.elt) == f"len({v})" and src(it) == f"{QUEUE}[{sid}]" and len(ge.generators[0].ifs) == 1 and cmp_polarity(ge.generators[0].ifs[0], v, "_END_STREAM_SENTINEL") is False
    ctx.check(ok, "backpressure/remaining-window", q, "the remaining window is not `flow-control window - bytes already queued (sentinel excluded)` of that stream")

    # window updates reach the streams
    f = ctx.func(H2, C + "._handleWindowUpdate")
    g = ctx.cfg(f)
    q = Q + C + "._handleWindowUpdate"
    wu = call_sites(g, lambda c: call_attr(c) == "windowUpdated")
    ctx.check(len(wu) == 2, "backpressure/update-reaches-stream", q, f"{len(wu)} windowUpdated() sites (stream-level and connection-level expected)")
    one = [(n, c) for n, c in wu if src(c.func.value) == "self.streams[streamID]"]
    allv = [(n, c) for n, c in wu if (n, c) not in one]
    for n, c in one:
        act = [t for t in g.ids(lambda x: x.kind == "test") if isinstance(g.node(t).ast, ast.Call) and call_name(g.node(t).ast) == "self._streamIsActive"]
        ok = truth_guard(g, n, "streamID", True) and len(act) == 1
        if ok:
            live = [d for d, l in g.succ[act[0]] if l == "T"]
            ok = from_here(g, live, [n]) is None
        ctx.check(ok, "backpressure/update-reaches-stream", ctx.construct(q, c), "a WINDOW_UPDATE for an active stream does not always reach that stream's windowUpdated()")
    for n, c in allv:
        loops = [s for s in walk_local(f) if isinstance(s, ast.For) and any(x is c for x in ast.walk(s))]
        ok = len(loops) == 1 and src(loops[0].iter) in ("self.streams.values()", "list(self.streams.values())") and src(c.func.value) == src(loops[0].target) and truth_guard(g, n, "streamID", False)
        if ok:
            lid = g.ids_of(loops[0])
            body = [d for d, l in g.succ[lid[0]] if l == "iter"]
            ok = from_here(g, body, [n], to=lid) is None
        ctx.check(ok, "backpressure/update-reaches-stream", ctx.construct(q, c), "a connection-level WINDOW_UPDATE does not reach every stream's windowUpdated()")
    disp = ctx.func(H2, C + ".dataReceived")
    gd = ctx.cfg(disp)
    hw = named_calls(gd, "self._handleWindowUpdate")
    ok = len(hw) == 1 and any(src(gd.node(t).ast) == "isinstance(event, h2.events.WindowUpdated)" and lab == "T" for t, lab in gd.edge_guards(hw[0][0]))
    ctx.check(ok, "backpressure/update-reaches-stream", Q + C + ".dataReceived", "WindowUpdated events are not dispatched to _handleWindowUpdate")

    # H2Stream side
    f = ctx.func(H2, "H2Stream.windowUpdated")
    g = ctx.cfg(f)
    q = Q + "H2Stream.windowUpdated"
    res = named_calls(g, "self.producer.resumeProducing")
    ctx.check(len(res) == 1, "backpressure/resume-when-open", q, "the paused producer is not resumed at exactly one site")
    rw = [s for s in walk_local(f) if isinstance(s, ast.Assign) and isinstance(s.value, ast.Call) and call_name(s.value) == "self._conn.remainingOutboundWindow"]
    ctx.need(len(rw) == 1 and [src(a) for a in rw[0].value.args] == ["self.streamID"], "remainingWindow = self._conn.remainingOutboundWindow(self.streamID)")
    v = src(rw[0].targets[0])
    for n, c in res:
        ok = any(lincmp(g.node(t).ast, negate=(lab == "F")) == lin_expect({v: 1}, 1) for t, lab in g.edge_guards(n))
        ctx.check(ok, "backpressure/resume-when-open", ctx.construct(q, c), "the producer is resumed under a condition other than remaining window > 0 (resumed into a closed window, or never resumed at 1 byte)")
        ctx.check(truth_guard(g, n, "self.producer", True) and truth_guard(g, n, "self._producerProducing", False), "backpressure/resume-when-open", ctx.construct(q, c) + " | only if paused",
                  "resumeProducing() is not confined to `a producer exists and it is paused`")
        flag = [m for m, st in assign_sites(g, lambda x: is_self_attr(x, "_producerProducing")) if src(st.value) == "True"]
        ctx.check(bool(flag) and (g.must_precede(flag, [n]) is None or g.must_pass([n], flag, exc=False) is None), "backpressure/flag-coupled", ctx.construct(q, c),
                  "the producer is resumed without recording it (flowControlBlocked would never pause it again)")
    # every path with a paused producer and an open window resumes
    for t in [t for t in g.ids(lambda x: x.kind == "test") if lincmp(g.node(t).ast) is not None and v in src(g.node(t).ast)]:
        pos = lincmp(g.node(t).ast) == lin_expect({v: 1}, 1)
        open_ = [d for d, l in g.succ[t] if l == ("T" if pos else "F")]
        w = from_here(g, open_, [n for n, c in res])
        ctx.check(w is None, "backpressure/resume-when-open", q + " | open window => resumed", "with window available a paused producer can stay paused", witness=g.describe(w))
    f = ctx.func(H2, "H2Stream.flowControlBlocked")
    g = ctx.cfg(f)
    q = Q + "H2Stream.flowControlBlocked"
    pa = named_calls(g, "self.producer.pauseProducing")
    ctx.check(len(pa) == 1, "backpressure/flag-coupled", q, "the producer is not paused at exactly one site")
    for n, c in pa:
        flag = [m for m, st in assign_sites(g, lambda x: is_self_attr(x, "_producerProducing")) if src(st.value) == "False"]
        ok = truth_guard(g, n, "self._producerProducing", True) and bool(flag) and (g.must_pass([n], flag, exc=False) is None or g.must_precede(flag, [n]) is None)
        ctx.check(ok, "backpressure/flag-coupled", ctx.construct(q, c), "pauseProducing() is not coupled with _producerProducing = False under `currently producing` (windowUpdated would never resume it)")
    f = ctx.func(H2, "H2Stream.registerProducer")
    g = ctx.cfg(f)
    flag = [m for m, st in assign_sites(g, lambda x: is_self_attr(x, "_producerProducing")) if src(st.value) == "True"]
    ctx.check(bool(flag) and g.must_pass([g.entry], flag, exc=False) is None, "backpressure/flag-coupled", Q + "H2Stream.registerProducer", "a new producer is not recorded as producing")


MUTANTS = [
    Mutant("clamp-dropped", H2, "            if len(frameData) > maxFrameSize:\n                excessData = frameData[maxFrameSize:]\n                frameData = frameData[:maxFrameSize]\n                self._outboundStreamQueues[stream].appendleft(excessData)\n", ""),
    Mutant("clamp-ignores-window", H2, "        maxFrameSize = min(self.conn.max_outbound_frame_size, remainingWindow)", "        maxFrameSize = self.conn.max_outbound_frame_size"),
    Mutant("clamp-off-by-one", H2, "                frameData = frameData[:maxFrameSize]\n", "                frameData = frameData[: maxFrameSize + 1]\n"),
    Mutant("excess-requeued-at-back", H2, "                self._outboundStreamQueues[stream].appendleft(excessData)", "                self._outboundStreamQueues[stream].append(excessData)"),
    Mutant("excess-overlaps", H2, "                excessData = frameData[maxFrameSize:]\n", "                excessData = frameData[maxFrameSize - 1 :]\n"),
    Mutant("loop-pops-from-right", H2, "        frameData = self._outboundStreamQueues[stream].popleft()", "        frameData = self._outboundStreamQueues[stream].pop()"),
    Mutant("connection-window-update-unblocks-idle-streams", H2, "                # If we still have data to send for this stream, unblock it.\n                if self._outboundStreamQueues.get(stream.streamID):\n                    self.priority.unblock(stream.streamID)",
           "                # Let the stream take part in the next round.\n                self.priority.unblock(stream.streamID)"),
    Mutant("fire-without-detach", H2, "        self._outboundStreamQueues[streamID].append(_END_STREAM_SENTINEL)\n        self.priority.unblock(streamID)\n        if self._sendingDeferred is not None:\n            d = self._sendingDeferred\n            self._sendingDeferred = None\n            d.callback(streamID)",
           "        self._outboundStreamQueues[streamID].append(_END_STREAM_SENTINEL)\n        self.priority.unblock(streamID)\n        if self._sendingDeferred is not None:\n            d = self._sendingDeferred\n            d.callback(streamID)\n            self._sendingDeferred = None"),
    Mutant("write-missing-wakeup", H2, "            self.priority.unblock(streamID)\n            if self._sendingDeferred is not None:\n                d = self._sendingDeferred\n                self._sendingDeferred = None\n                d.callback(streamID)\n\n        if self.remainingOutboundWindow(streamID) <= 0:",
           "            self.priority.unblock(streamID)\n\n        if self.remainingOutboundWindow(streamID) <= 0:"),
    Mutant("end-of-stream-no-reschedule", H2, "            # Clean up the stream\n            self._requestDone(stream)\n", "            # Clean up the stream\n            self._requestDone(stream)\n            return\n"),
    Mutant("block-on-exhausted-window", H2, "            if not self._outboundStreamQueues[stream]:\n                self.priority.block(stream)\n",
           "            if not self._outboundStreamQueues[stream] or self.conn.local_flow_control_window(stream) <= 0:\n                self.priority.block(stream)\n"),
    Mutant("blocked-threshold-strict", H2, "            if self.remainingOutboundWindow(stream) <= 0:\n                self.streams[stream].flowControlBlocked()", "            if self.remainingOutboundWindow(stream) < 0:\n                self.streams[stream].flowControlBlocked()"),
    Mutant("resume-at-zero-window", H2, "        if not remainingWindow > 0:\n            return\n", "        if not remainingWindow >= 0:\n            return\n"),
    Mutant("pause-flag-not-reset", H2, "            self.producer.pauseProducing()\n            self._producerProducing = False\n", "            self.producer.pauseProducing()\n"),
    Mutant("connection-update-skips-idle-streams", H2, "            for stream in self.streams.values():\n                stream.windowUpdated()\n\n                # If we still have data to send for this stream, unblock it.\n                if self._outboundStreamQueues.get(stream.streamID):\n                    self.priority.unblock(stream.streamID)",
           "            for stream in self.streams.values():\n                # If we still have data to send for this stream, unblock it.\n                if self._outboundStreamQueues.get(stream.streamID):\n                    stream.windowUpdated()\n                    self.priority.unblock(stream.streamID)"),
    Mutant("remaining-window-ignores-queue", H2, "        return windowSize - alreadyConsumed", "        return windowSize"),
    Mutant("end-stream-before-sentinel", H2, "        if frameData is _END_STREAM_SENTINEL:\n            # There's no error handling here even though", "        if frameData is _END_STREAM_SENTINEL or not frameData:\n            # There's no error handling here even though"),
]
SILENT = [
    Silent("window-update-queue-test-by-index", H2, "            if self._outboundStreamQueues.get(streamID):\n                self.priority.unblock(streamID)", "            if len(self._outboundStreamQueues[streamID]) > 0:\n                self.priority.unblock(streamID)"),
    Silent("clamp-rewritten-with-tuple-assign-and-floor", H2, "                excessData = frameData[maxFrameSize:]\n                frameData = frameData[:maxFrameSize]\n                self._outboundStreamQueues[stream].appendleft(excessData)\n",
           "                cut = max(maxFrameSize, 0)\n                frameData, excessData = frameData[:cut], frameData[cut:]\n                self._outboundStreamQueues[stream].appendleft(excessData)\n"),
    Silent("clamp-slices-swapped-order", H2, "                excessData = frameData[maxFrameSize:]\n                frameData = frameData[:maxFrameSize]\n                self._outboundStreamQueues[stream].appendleft(excessData)\n",
           "                self._outboundStreamQueues[stream].appendleft(frameData[maxFrameSize:])\n                frameData = frameData[:maxFrameSize]\n"),
    Silent("window-test-flipped", H2, "        if not remainingWindow > 0:\n            return\n", "        if remainingWindow <= 0:\n            return\n"),
    Silent("blocked-test-flipped", H2, "        if self.remainingOutboundWindow(streamID) <= 0:\n            self.streams[streamID].flowControlBlocked()", "        if not self.remainingOutboundWindow(streamID) > 0:\n            self.streams[streamID].flowControlBlocked()"),
    Silent("rename-wakeup-local", H2, "        self.priority.unblock(streamID)\n        if self._sendingDeferred is not None:\n            d = self._sendingDeferred\n            self._sendingDeferred = None\n            d.callback(streamID)\n\n    def abortRequest",
           "        self.priority.unblock(streamID)\n        if self._sendingDeferred is not None:\n            parked, self._sendingDeferred = self._sendingDeferred, None\n            parked.callback(streamID)\n\n    def abortRequest"),
]
