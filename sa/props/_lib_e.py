"""Helpers shared by C19-C22 (web/http.py batch).

* ``Interp``: a whitelisted, side-effect-free interpreter over *AST* (never imports or runs twisted).
  It evaluates pure validator / formatter functions (``_istoken``, ``_parseRequestLine``, ``toChunk`` ...)
  over a finite input domain, and atomic branch tests under a partial environment.  Builtin ``bytes`` /
  ``str`` / ``int`` semantics are delegated to CPython (trusted base); anything outside the whitelist is
  ``Unsupported`` (-> AnalysisError), a term whose value the environment does not fix is ``Unknown``.
* ``walk``: partial-evaluation walk of a CFG: decided tests follow one edge, undecided tests both.
* small structural helpers (calls by name, reject discipline, slice bounds).
"""
from __future__ import annotations

import ast
import builtins
import re as _re
from typing import Callable, Dict, Iterable, List, Optional, Sequence, Set, Tuple

from sa.astx import assigned_targets, call_attr, call_name, dotted, src, statements, walk_local
from sa.source import AnalysisError


class Unknown(Exception):
    """The value is not fixed by the environment (a walk follows both branches)."""


class Unsupported(Exception):
    """Construct outside the whitelisted pure subset."""


class Raised(Exception):
    """The interpreted code raises exception class ``name``."""

    def __init__(self, name: str):
        Exception.__init__(self, name)
        self.name = name


class _Return(Exception):
    def __init__(self, value):
        self.value = value


class _Break(Exception):
    pass


class _Continue(Exception):
    pass


_BUILTIN_EXC = {n: getattr(builtins, n) for n in dir(builtins)
                if isinstance(getattr(builtins, n), type) and issubclass(getattr(builtins, n), BaseException)}
_PY_ERRORS = (ValueError, TypeError, IndexError, KeyError, ZeroDivisionError, OverflowError, AttributeError)

_SAFE_BUILTINS = {"len": len, "int": int, "bytes": bytes, "bytearray": bytearray, "str": str, "ord": ord, "chr": chr,
                  "min": min, "max": max, "sorted": sorted, "list": list, "tuple": tuple, "range": range, "bool": bool,
                  "memoryview": memoryview, "repr": repr, "hex": hex, "any": any, "all": all, "sum": sum, "abs": abs,
                  "set": set, "frozenset": frozenset, "dict": dict, "enumerate": enumerate, "zip": zip}
_TYPES = {"str": str, "bytes": bytes, "int": int, "bytearray": bytearray, "list": list, "tuple": tuple, "dict": dict,
          "bool": bool, "memoryview": memoryview}
_BYTES_METHODS = {"split", "rsplit", "strip", "lstrip", "rstrip", "isdigit", "isalnum", "isalpha", "isspace", "lower", "upper",
                  "startswith", "endswith", "find", "rfind", "index", "count", "splitlines", "join", "replace", "translate",
                  "capitalize", "title", "decode", "hex", "partition", "rpartition", "tobytes", "encode", "format",
                  "get", "items", "keys", "values", "isascii", "isdecimal", "isnumeric", "swapcase", "casefold", "zfill",
                  "removeprefix", "removesuffix"}
_VALUE_TYPES = (bytes, bytearray, str, list, tuple, dict, memoryview, int, frozenset, set)


_STDLIB_PURE = {"re.compile": _re.compile, "re.match": _re.match, "re.fullmatch": _re.fullmatch, "re.search": _re.search, "re.sub": _re.sub,
                "re.split": _re.split, "re.findall": _re.findall, "re.escape": _re.escape, "bytes.maketrans": bytes.maketrans,
                "bytes.fromhex": bytes.fromhex, "bytearray.fromhex": bytearray.fromhex, "str.maketrans": str.maketrans}


class FuncRef:
    def __init__(self, name, node):
        self.name = name
        self.node = node


class Interp:
    def __init__(self, funcs: Optional[Dict[str, ast.AST]] = None, consts: Optional[Dict[str, object]] = None,
                 exc_bases: Optional[Dict[str, str]] = None, models: Optional[Dict[str, Callable]] = None,
                 budget: int = 200000):
        self.funcs = dict(funcs or {})
        self.consts = dict(consts or {})
        self.exc_bases = dict(exc_bases or {})
        self.models = dict(models or {})
        self.budget = budget
        self._steps = 0
        self._src: Dict[int, str] = {}

    # ---- helpers --------------------------------------------------------------------------
    def _text(self, node) -> str:
        t = self._src.get(id(node))
        if t is None:
            t = src(node)
            self._src[id(node)] = t
        return t

    def is_sub(self, name: str, target: str) -> bool:
        seen = set()
        while name and name not in seen:
            if name == target:
                return True
            seen.add(name)
            if name in self.exc_bases:
                name = self.exc_bases[name]
                continue
            a, b = _BUILTIN_EXC.get(name), _BUILTIN_EXC.get(target)
            return bool(a and b and issubclass(a, b))
        return False

    def _tick(self):
        self._steps += 1
        if self._steps > self.budget:
            raise Unsupported("evaluation budget exhausted")

    # ---- expressions -----------------------------------------------------------------------
    def ev(self, node: ast.AST, env: Dict[str, object]):
        self._tick()
        terms = env.get("__terms__")
        if terms and isinstance(node, (ast.Attribute, ast.Call, ast.Subscript, ast.Compare)):
            t = self._text(node)
            if t in terms:
                v = terms[t]
                if v is Unknown:
                    raise Unknown(t)
                return v
        try:
            return self._ev(node, env)
        except _PY_ERRORS as e:
            raise Raised(type(e).__name__)
        except UnicodeError as e:
            raise Raised(type(e).__name__)

    def _ev(self, node, env):
        ev = self.ev
        if isinstance(node, ast.Constant):
            return node.value
        if isinstance(node, ast.Name):
            if node.id in env:
                v = env[node.id]
                if v is Unknown:
                    raise Unknown(node.id)
                return v
            if node.id in self.consts:
                return self.consts[node.id]
            if node.id in self.funcs:
                return FuncRef(node.id, self.funcs[node.id])
            if node.id in ("True", "False", "None"):
                return {"True": True, "False": False, "None": None}[node.id]
            raise Unknown(node.id)
        if isinstance(node, ast.Attribute):
            d = dotted(node)
            if d is not None and d.startswith("re.") and d[3:].isupper() and isinstance(getattr(_re, d[3:], None), _re.RegexFlag) and "re" not in env:
                return getattr(_re, d[3:])
            if d is not None and d in env:
                v = env[d]
                if v is Unknown:
                    raise Unknown(d)
                return v
            raise Unknown(d or self._text(node))
        if isinstance(node, (ast.Tuple, ast.List, ast.Set)):
            vals = [ev(e, env) for e in node.elts]
            return tuple(vals) if isinstance(node, ast.Tuple) else (vals if isinstance(node, ast.List) else set(vals))
        if isinstance(node, ast.Dict):
            return {ev(k, env): ev(v, env) for k, v in zip(node.keys, node.values)}
        if isinstance(node, ast.UnaryOp):
            v = ev(node.operand, env)
            if isinstance(node.op, ast.Not):
                return not v
            if isinstance(node.op, ast.USub):
                return -v
            if isinstance(node.op, ast.UAdd):
                return +v
            return ~v
        if isinstance(node, ast.BinOp):
            a, b = ev(node.left, env), ev(node.right, env)
            op = type(node.op)
            if op is ast.Add:
                return a + b
            if op is ast.Sub:
                return a - b
            if op is ast.Mult:
                if isinstance(a, int) and isinstance(b, int) or (isinstance(a, int) and a < 70000) or (isinstance(b, int) and b < 70000):
                    return a * b
                raise Unsupported("mult")
            if op is ast.Mod:
                return a % b
            if op is ast.FloorDiv:
                return a // b
            if op is ast.Pow and isinstance(b, int) and abs(b) < 64:
                return a ** b
            if op is ast.BitAnd:
                return a & b
            if op is ast.BitOr:
                return a | b
            if op is ast.LShift and isinstance(b, int) and b < 64:
                return a << b
            if op is ast.RShift:
                return a >> b
            raise Unsupported("binop " + op.__name__)
        if isinstance(node, ast.BoolOp):
            v = None
            for e in node.values:
                v = ev(e, env)
                if isinstance(node.op, ast.And) and not v:
                    return v
                if isinstance(node.op, ast.Or) and v:
                    return v
            return v
        if isinstance(node, ast.IfExp):
            return ev(node.body, env) if ev(node.test, env) else ev(node.orelse, env)
        if isinstance(node, ast.Compare):
            left = ev(node.left, env)
            for op, rn in zip(node.ops, node.comparators):
                right = ev(rn, env)
                t = type(op)
                if t is ast.Eq:
                    r = left == right
                elif t is ast.NotEq:
                    r = left != right
                elif t is ast.Lt:
                    r = left < right
                elif t is ast.LtE:
                    r = left <= right
                elif t is ast.Gt:
                    r = left > right
                elif t is ast.GtE:
                    r = left >= right
                elif t is ast.In:
                    r = left in right
                elif t is ast.NotIn:
                    r = left not in right
                elif t is ast.Is:
                    r = left is right
                else:
                    r = left is not right
                if not r:
                    return False
                left = right
            return True
        if isinstance(node, ast.Subscript):
            v = ev(node.value, env)
            if isinstance(node.slice, ast.Slice):
                lo = ev(node.slice.lower, env) if node.slice.lower is not None else None
                hi = ev(node.slice.upper, env) if node.slice.upper is not None else None
                st = ev(node.slice.step, env) if node.slice.step is not None else None
                return v[lo:hi:st]
            return v[ev(node.slice, env)]
        if isinstance(node, ast.JoinedStr):
            out = ""
            for p in node.values:
                if isinstance(p, ast.Constant):
                    out += str(p.value)
                else:
                    val = ev(p.value, env)
                    if p.conversion == 114:
                        val = repr(val)
                    elif p.conversion == 115:
                        val = str(val)
                    spec = ev(p.format_spec, env) if p.format_spec is not None else ""
                    out += format(val, spec)
            return out
        if isinstance(node, (ast.ListComp, ast.GeneratorExp, ast.SetComp)):
            if len(node.generators) != 1 or node.generators[0].is_async:
                raise Unsupported("comprehension")
            gen = node.generators[0]
            out = []
            for item in ev(gen.iter, env):
                e2 = dict(env)
                self._bind(gen.target, item, e2)
                if all(ev(c, e2) for c in gen.ifs):
                    out.append(ev(node.elt, e2))
            return set(out) if isinstance(node, ast.SetComp) else out
        if isinstance(node, ast.Call):
            return self._call(node, env)
        raise Unsupported(type(node).__name__)

    def _call(self, node: ast.Call, env):
        ev = self.ev
        f = node.func
        if any(isinstance(a, ast.Starred) for a in node.args) or any(k.arg is None for k in node.keywords):
            raise Unsupported("star-args")
        if isinstance(f, ast.Name):
            nm = f.id
            if nm in env and isinstance(env[nm], FuncRef):
                return self.run(env[nm].node, [ev(a, env) for a in node.args])
            if nm in self.funcs and nm not in env:
                return self.run(self.funcs[nm], [ev(a, env) for a in node.args])
            if nm in self.models:
                return self.models[nm](*[ev(a, env) for a in node.args])
            if nm == "isinstance" and len(node.args) == 2:
                v = ev(node.args[0], env)
                tn = node.args[1]
                names = [e.id for e in tn.elts] if isinstance(tn, ast.Tuple) and all(isinstance(e, ast.Name) for e in tn.elts) \
                    else ([tn.id] if isinstance(tn, ast.Name) else None)
                if names is None or any(n not in _TYPES for n in names):
                    raise Unknown("isinstance")
                return isinstance(v, tuple(_TYPES[n] for n in names))
            if nm in _SAFE_BUILTINS and nm not in env:
                args = [ev(a, env) for a in node.args]
                kw = {k.arg: ev(k.value, env) for k in node.keywords}
                r = _SAFE_BUILTINS[nm](*args, **kw)
                return list(r) if nm in ("enumerate", "zip") else r
            raise Unknown("call " + nm)
        if isinstance(f, ast.Attribute):
            d = dotted(f)
            if d in _STDLIB_PURE and d.split(".")[0] not in env:
                # stdlib semantics on evaluated (constant) arguments - CPython's re / bytes, not repository code
                args = [ev(a, env) for a in node.args]
                kw = {k.arg: ev(k.value, env) for k in node.keywords}
                try:
                    return _STDLIB_PURE[d](*args, **kw)
                except _re.error:
                    raise Unsupported("invalid regular expression")
            recv = ev(f.value, env)
            if isinstance(recv, _re.Pattern) and f.attr in ("match", "fullmatch", "search", "sub", "subn", "split", "findall"):
                return getattr(recv, f.attr)(*[ev(a, env) for a in node.args], **{k.arg: ev(k.value, env) for k in node.keywords})
            if isinstance(recv, _re.Match) and f.attr in ("group", "groups", "groupdict", "start", "end", "span"):
                return getattr(recv, f.attr)(*[ev(a, env) for a in node.args])
            if isinstance(recv, _VALUE_TYPES) and f.attr in _BYTES_METHODS and hasattr(recv, f.attr):
                args = [ev(a, env) for a in node.args]
                kw = {k.arg: ev(k.value, env) for k in node.keywords}
                r = getattr(recv, f.attr)(*args, **kw)
                if f.attr in ("items", "keys", "values"):
                    r = list(r)
                return r
            raise Unknown("method " + f.attr)
        raise Unknown("call")

    def _bind(self, target, value, env):
        if isinstance(target, ast.Name):
            env[target.id] = value
        elif isinstance(target, (ast.Tuple, ast.List)):
            vals = list(value)
            if len(vals) != len(target.elts) or any(isinstance(e, ast.Starred) for e in target.elts):
                if any(isinstance(e, ast.Starred) for e in target.elts):
                    raise Unsupported("starred target")
                raise Raised("ValueError")
            for t, v in zip(target.elts, vals):
                self._bind(t, v, env)
        else:
            raise Unsupported("assignment target " + type(target).__name__)

    # ---- statements / functions ---------------------------------------------------------------
    def run(self, func: ast.AST, args: Sequence[object], env: Optional[Dict[str, object]] = None):
        """Interpret a pure function; returns its value, raises Raised(name) when it raises."""
        if isinstance(func, ast.Lambda):
            e = dict(env or {})
            for p, a in zip(func.args.args, args):
                e[p.arg] = a
            return self.ev(func.body, e)
        a = func.args
        if a.vararg or a.kwarg or a.kwonlyargs or a.posonlyargs:
            raise Unsupported("signature")
        e = dict(env or {})
        params = [p.arg for p in a.args]
        if len(args) > len(params):
            raise Raised("TypeError")
        ndef = len(a.defaults)
        for i, p in enumerate(params):
            if i < len(args):
                e[p] = args[i]
            else:
                j = i - (len(params) - ndef)
                if j < 0:
                    raise Raised("TypeError")
                e[p] = self.ev(a.defaults[j], e)
        # nested defs visible as local functions
        try:
            self._block(func.body, e)
        except _Return as r:
            return r.value
        return None

    def _block(self, stmts, env):
        for st in stmts:
            self._stmt(st, env)

    def _stmt(self, st, env):
        self._tick()
        try:
            self._stmt2(st, env)
        except Unknown as u:
            raise Unsupported(f"free term {u} in {src(st)[:60]}")

    def _stmt2(self, st, env):
        ev = self.ev
        if isinstance(st, ast.Expr):
            if isinstance(st.value, ast.Constant):
                return
            ev(st.value, env)
            return
        if isinstance(st, ast.Pass):
            return
        if isinstance(st, (ast.FunctionDef, ast.AsyncFunctionDef)):
            env[st.name] = FuncRef(st.name, st)
            return
        if isinstance(st, ast.Assign):
            v = ev(st.value, env)
            for t in st.targets:
                self._bind(t, v, env)
            return
        if isinstance(st, ast.AnnAssign):
            if st.value is not None:
                self._bind(st.target, ev(st.value, env), env)
            return
        if isinstance(st, ast.AugAssign):
            if not isinstance(st.target, ast.Name):
                raise Unsupported("augassign target")
            cur = ev(st.target, env)
            val = ev(ast.BinOp(left=ast.Constant(value=cur), op=st.op, right=st.value), env)
            env[st.target.id] = val
            return
        if isinstance(st, ast.If):
            self._block(st.body if ev(st.test, env) else st.orelse, env)
            return
        if isinstance(st, ast.For):
            broke = False
            for item in ev(st.iter, env):
                self._tick()
                self._bind(st.target, item, env)
                try:
                    self._block(st.body, env)
                except _Break:
                    broke = True
                    break
                except _Continue:
                    continue
            if not broke:
                self._block(st.orelse, env)
            return
        if isinstance(st, ast.While):
            while ev(st.test, env):
                self._tick()
                try:
                    self._block(st.body, env)
                except _Break:
                    return
                except _Continue:
                    continue
            self._block(st.orelse, env)
            return
        if isinstance(st, ast.Return):
            raise _Return(ev(st.value, env) if st.value is not None else None)
        if isinstance(st, ast.Break):
            raise _Break()
        if isinstance(st, ast.Continue):
            raise _Continue()
        if isinstance(st, ast.Raise):
            if st.exc is None:
                cur = env.get("__exc__")
                raise Raised(cur or "RuntimeError")
            e = st.exc
            nm = call_attr(e) if isinstance(e, ast.Call) else (dotted(e) or "").split(".")[-1]
            if not nm:
                raise Unsupported("raise")
            raise Raised(nm)
        if isinstance(st, ast.Assert):
            if not ev(st.test, env):
                raise Raised("AssertionError")
            return
        if isinstance(st, ast.Try):
            try:
                try:
                    self._block(st.body, env)
                except Raised as r:
                    for h in st.handlers:
                        names = []
                        if h.type is None:
                            names = ["BaseException"]
                        elif isinstance(h.type, ast.Tuple):
                            names = [(dotted(x) or "?").split(".")[-1] for x in h.type.elts]
                        else:
                            names = [(dotted(h.type) or "?").split(".")[-1]]
                        if any(self.is_sub(r.name, n) for n in names):
                            env["__exc__"] = r.name
                            if h.name:
                                env[h.name] = r.name
                            self._block(h.body, env)
                            break
                    else:
                        raise
                else:
                    self._block(st.orelse, env)
            finally:
                if st.finalbody:
                    self._block(st.finalbody, env)
            return
        raise Unsupported("statement " + type(st).__name__)

    def outcome(self, func, args) -> Tuple[str, object]:
        """("ok", value) | ("raise", exception name); Unsupported -> AnalysisError."""
        self._steps = 0
        try:
            return "ok", self.run(func, args)
        except Raised as r:
            return "raise", r.name
        except Unknown as u:
            raise AnalysisError(f"evaluator: free term {u} in {getattr(func, 'name', '?')}")
        except Unsupported as u:
            raise AnalysisError(f"evaluator: {u} in {getattr(func, 'name', '?')}")


def exc_bases_of(*mods) -> Dict[str, str]:
    """class name -> first base name for exception-like classes defined in the modules."""
    out = {}
    for m in mods:
        for c in m.tree.body:
            if isinstance(c, ast.ClassDef) and c.bases:
                b = dotted(c.bases[0])
                if b:
                    out[c.name] = b.split(".")[-1]
    return out


def module_funcs(*mods) -> Dict[str, ast.AST]:
    out = {}
    for m in mods:
        for st in m.tree.body:
            if isinstance(st, (ast.FunctionDef, ast.AsyncFunctionDef)):
                out[st.name] = st
    return out


def env_terms(**plain):
    """Build an environment: identifiers / dotted names as keys; other expression texts go to __terms__."""
    return plain


def make_env(d: Dict[str, object]) -> Dict[str, object]:
    env: Dict[str, object] = {}
    terms: Dict[str, object] = {}
    for k, v in d.items():
        if all(p.isidentifier() for p in k.split(".")):
            env[k] = v
        else:
            terms[" ".join(src(ast.parse(k, mode="eval").body).split())] = v
    if terms:
        env["__terms__"] = terms
    return env


# ---- partial-evaluation walk of a CFG --------------------------------------------------------------

def walk(g, interp: Interp, env: Dict[str, object], starts: Optional[Iterable[int]] = None,
         stop: Optional[Callable[[object], bool]] = None, follow_raise: bool = True,
         on_node: Optional[Callable[[object, Dict[str, object]], None]] = None, escapes: Optional[list] = None,
         undecided: Optional[list] = None) -> Set[int]:
    """Small-step partial evaluation over a CFG: node ids reachable from ``starts`` (default entry) when every
    atomic test the environment decides takes only the decided edge.  Assignments / augmented assignments /
    slice deletions whose target is a plain local or an environment entry (``self.x``) and whose value the
    environment determines update the environment along that path; when evaluating such a value raises, only the
    matching handler (or the exceptional exit; recorded in ``escapes``) is followed; any other assignment to an
    environment entry makes it unknown from there on.  Other implicit-exception edges are not followed.
    ``stop(node)`` nodes are visited but not left; ``on_node(node, env)`` is called for every visit."""
    starts = [g.entry] if starts is None else list(starts)
    seen: Set[tuple] = set()
    stack = [(s, frozenset(), ()) for s in starts]
    terms = env.get("__terms__", {})

    def current(killed, extras):
        if not killed and not extras:
            return env
        e = {k: v for k, v in env.items() if k not in killed}
        if terms:
            e["__terms__"] = {k: v for k, v in terms.items() if k not in killed and not any(kk in k for kk in killed)}
        e.update(dict(extras))
        return e

    def put(extras, k, v):
        return tuple(sorted([(a, b) for a, b in extras if a != k] + [(k, v)], key=lambda kv: kv[0]))

    def tracked(t, cur):
        if isinstance(t, ast.Name):
            return t.id
        d = dotted(t)
        if d is not None and self_attr(t) and (d in env or d in cur):
            return d
        return None

    while stack:
        n, killed, extras = stack.pop()
        key = (n, killed, tuple((k, repr(v)[:200]) for k, v in extras))
        if key in seen:
            continue
        seen.add(key)
        node = g.node(n)
        cur = current(killed, extras)
        if on_node is not None:
            on_node(node, cur)
        if stop is not None and stop(node):
            continue
        out = g.succ[n]
        if node.kind == "test":
            try:
                val = bool(interp.ev(node.ast, cur))
                out = [(d, l) for d, l in out if l == ("T" if val else "F")]
            except (Unknown, Unsupported):
                out = [(d, l) for d, l in out if l in ("T", "F")]
                if undecided is not None:
                    undecided.append(n)
            except Raised as r:
                hs = [d for d, l in out if l == "exc" and g.node(d).kind == "handler" and catches(interp, g.node(d).ast, r.name)]
                if hs:
                    out = [(hs[0], "exc")]
                else:
                    out = [(d, l) for d, l in out if l == "exc" and g.node(d).kind != "handler"]
                    if escapes is not None:
                        escapes.append((n, r.name))
        elif node.kind == "stmt" and isinstance(node.ast, ast.Raise) and node.ast.exc is not None and _raise_args_fail(interp, node.ast, cur) is not None:
            # building the exception object itself raises (e.g. message formatting of untrusted bytes)
            name = _raise_args_fail(interp, node.ast, cur)
            hs = [d for d, l in out if l in ("raise", "exc") and g.node(d).kind == "handler" and catches(interp, g.node(d).ast, name)]
            if hs:
                out = [(hs[0], "raise")]
            else:
                out = [(d, l) for d, l in out if g.node(d).kind != "handler"]
                if escapes is not None:
                    escapes.append((n, name))
        else:
            allout = out
            out = [(d, l) for d, l in out if l != "exc" and (follow_raise or l != "raise")]
            tg = assigned_targets(node.ast) if node.kind in ("stmt", "for") else []
            st = node.ast
            nm = None
            val_expr = None
            more = []
            if node.kind == "stmt" and isinstance(st, ast.Assign) and all(tracked(t, cur) is not None for t in st.targets):
                nm, val_expr = tracked(st.targets[0], cur), st.value
                more = [tracked(t, cur) for t in st.targets[1:]]
            elif node.kind == "stmt" and isinstance(st, ast.AnnAssign) and st.value is not None:
                nm, val_expr = tracked(st.target, cur), st.value
            elif node.kind == "stmt" and isinstance(st, ast.AugAssign):
                nm = tracked(st.target, cur)
                val_expr = ast.BinOp(left=st.target, op=st.op, right=st.value)
                if isinstance(st.target, ast.Name) and st.target.id not in cur:
                    nm = None
            if nm is not None:
                tg = []
                try:
                    v = interp.ev(val_expr, cur)
                    if isinstance(st, ast.AugAssign) and isinstance(v, (bytearray, list)):
                        v = type(v)(v)
                    for k in [nm] + more:
                        extras = put(extras, k, v)
                        killed = killed - {k}
                except (Unknown, Unsupported):
                    for kk in [nm] + more:
                        extras = tuple((k, x) for k, x in extras if k != kk)
                        if kk in env:
                            killed = killed | {kk}
                except Raised as r:
                    hs = [d for d, l in allout if l == "exc" and g.node(d).kind == "handler" and catches(interp, g.node(d).ast, r.name)]
                    if hs:
                        out = [(hs[0], "exc")]
                    else:
                        out = [(d, l) for d, l in allout if l == "exc" and g.node(d).kind != "handler"]
                        if escapes is not None:
                            escapes.append((n, r.name))
            elif node.kind == "stmt" and isinstance(st, ast.Delete) and len(st.targets) == 1 and isinstance(st.targets[0], ast.Subscript) \
                    and tracked(st.targets[0].value, cur) in cur:
                k = tracked(st.targets[0].value, cur)
                tg = []
                try:
                    cont = cur[k]
                    if not isinstance(cont, (bytearray, list)):
                        raise Unknown(k)
                    cont = type(cont)(cont)
                    sl = st.targets[0].slice
                    if isinstance(sl, ast.Slice):
                        lo = interp.ev(sl.lower, cur) if sl.lower is not None else None
                        hi = interp.ev(sl.upper, cur) if sl.upper is not None else None
                        del cont[lo:hi]
                    else:
                        del cont[interp.ev(sl, cur)]
                    extras = put(extras, k, cont)
                except (Unknown, Unsupported, Raised):
                    extras = tuple((a, x) for a, x in extras if a != k)
                    if k in env:
                        killed = killed | {k}
            if node.kind == "stmt" and isinstance(st, ast.Expr) and isinstance(st.value, ast.Call) and isinstance(st.value.func, ast.Attribute) \
                    and st.value.func.attr in ("clear", "append", "extend", "insert", "pop", "reverse") and tracked(st.value.func.value, cur) in cur:
                k = tracked(st.value.func.value, cur)
                try:
                    cont = cur[k]
                    if not isinstance(cont, (bytearray, list)):
                        raise Unknown(k)
                    cont = type(cont)(cont)
                    getattr(cont, st.value.func.attr)(*[interp.ev(a, cur) for a in st.value.args])
                    extras = put(extras, k, cont)
                except (Unknown, Unsupported, Raised, TypeError, ValueError, IndexError):
                    extras = tuple((a, x) for a, x in extras if a != k)
                    if k in env:
                        killed = killed | {k}
            for t in tg:
                k = dotted(t) or src(t)
                extras = tuple((kk, x) for kk, x in extras if kk != k)
                if k in env or k in terms:
                    killed = killed | {k}
        for d, l in out:
            stack.append((d, killed, extras))
    return {k[0] for k in seen}


def _raise_args_fail(interp: Interp, st: ast.Raise, env) -> Optional[str]:
    """Name of the exception raised while evaluating the arguments of ``raise X(args)`` under env, else None."""
    e = st.exc
    if not isinstance(e, ast.Call):
        return None
    for a in list(e.args) + [k.value for k in e.keywords]:
        try:
            interp.ev(a, env)
        except Raised as r:
            return r.name
        except (Unknown, Unsupported):
            continue
    return None


def risky_calls(node: ast.AST) -> List[ast.Call]:
    """Calls inside ``node`` that can raise on arbitrary untrusted bytes/text: strict .decode()/.encode() (no errors=
    argument), int()/float(), .index(), struct.unpack()."""
    out = []
    for c in ast.walk(node):
        if not isinstance(c, ast.Call):
            continue
        a = call_attr(c)
        if isinstance(c.func, ast.Attribute) and a in ("decode", "encode"):
            has_errors = len(c.args) >= 2 or any(k.arg == "errors" for k in c.keywords)
            if not has_errors and not isinstance(c.func.value, ast.Constant):
                out.append(c)
        elif isinstance(c.func, ast.Name) and a in ("int", "float") and c.args and not isinstance(c.args[0], ast.Constant):
            out.append(c)
        elif isinstance(c.func, ast.Attribute) and a in ("index", "unpack", "unpack_from"):
            out.append(c)
        elif isinstance(c.func, ast.Name) and a in ("nativeString", "networkString") and c.args and not isinstance(c.args[0], (ast.Constant, ast.JoinedStr)):
            out.append(c)
    return out


# ---- structural helpers ----------------------------------------------------------------------------

def calls_named(g, *names: str) -> List[int]:
    """CFG nodes containing a call whose dotted callee is one of ``names`` (or ends with ``.name`` when given
    as ".name")."""
    def pred(x):
        if not isinstance(x, ast.Call):
            return False
        d = call_name(x) or ""
        a = call_attr(x)
        return any((nm.startswith(".") and a == nm[1:]) or d == nm for nm in names)
    return g.find(pred, kinds=("stmt", "test", "for", "with"))


def call_in(node_ast, *names: str) -> Optional[ast.Call]:
    for x in walk_local(node_ast):
        if isinstance(x, ast.Call):
            d = call_name(x) or ""
            a = call_attr(x)
            if any((nm.startswith(".") and a == nm[1:]) or d == nm for nm in names):
                return x
    return None


def is_falsy_return(st) -> bool:
    if not isinstance(st, ast.Return):
        return False
    if st.value is None:
        return True
    return isinstance(st.value, ast.Constant) and not st.value.value


def only_nodes_until_exit(g, starts: Iterable[int], allowed: Callable[[object], bool]) -> Optional[List[int]]:
    """Every node reachable (without implicit-exception edges) from ``starts`` before the normal / raise exit
    satisfies ``allowed``; returns a witness path to the first offending node otherwise."""
    starts = list(starts)
    ok = lambda a, b, l: l != "exc"
    reach = g.reach(starts, edge_ok=ok)
    bad = [n for n in reach if n not in (g.exit, g.raise_exit) and g.node(n).kind != "join" and not allowed(g.node(n))]
    if not bad:
        return None
    return g.path(starts, bad, edge_ok=ok) or [bad[0]]


def local_values(func, name: str) -> List[ast.expr]:
    """Values assigned to local ``name`` anywhere in the function (tuple targets excluded)."""
    out = []
    for st in statements(func):
        if isinstance(st, ast.Assign):
            for t in st.targets:
                if isinstance(t, ast.Name) and t.id == name:
                    out.append(st.value)
        elif isinstance(st, ast.AnnAssign) and isinstance(st.target, ast.Name) and st.target.id == name and st.value is not None:
            out.append(st.value)
    return out


def resolve_local(func, expr: ast.expr, depth: int = 3) -> List[ast.expr]:
    """The expression itself, or - for a local Name - the expressions assigned to it (transitively)."""
    if isinstance(expr, ast.Name) and depth > 0:
        vals = local_values(func, expr.id)
        if vals:
            out = []
            for v in vals:
                out.extend(resolve_local(func, v, depth - 1))
            return out
    return [expr]


def self_attr(node, name: Optional[str] = None) -> bool:
    return isinstance(node, ast.Attribute) and isinstance(node.value, ast.Name) and node.value.id == "self" and \
        (name is None or node.attr == name)


def assigns_self(g, attr: str, value_pred: Optional[Callable[[ast.expr], bool]] = None) -> List[int]:
    def p(n):
        if n.kind != "stmt":
            return False
        st = n.ast
        if isinstance(st, ast.Assign) and any(self_attr(t, attr) for t in assigned_targets(st)):
            return value_pred is None or value_pred(st.value)
        if isinstance(st, ast.AnnAssign) and self_attr(st.target, attr) and st.value is not None:
            return value_pred is None or value_pred(st.value)
        return False
    return g.ids(p)


def is_const(expr, value) -> bool:
    return isinstance(expr, ast.Constant) and expr.value == value and type(expr.value) is type(value)


def no_exc(a, b, l):
    return l != "exc"


def ordered(g, first: Iterable[int], then: Iterable[int]) -> Optional[List[int]]:
    """Every entry->then path (implicit exceptions ignored) passes a ``first`` node; witness otherwise."""
    return g.must_precede(first, then, exc=False)


def handlers_of(g, n: int) -> List[int]:
    """Handler nodes an exception raised by node n can reach directly."""
    return [d for d, l in g.succ[n] if l in ("exc", "raise") and g.node(d).kind == "handler"]


def handler_names(h: ast.ExceptHandler) -> List[str]:
    if h.type is None:
        return ["BaseException"]
    elts = h.type.elts if isinstance(h.type, ast.Tuple) else [h.type]
    return [(dotted(x) or "?").split(".")[-1] for x in elts]


def catches(interp: Interp, h: ast.ExceptHandler, exc: str) -> bool:
    return any(interp.is_sub(exc, n) for n in handler_names(h))


def site_label(g, n: int) -> str:
    """Stable label of a site from its nearest dominating handler / decided test (no line numbers)."""
    doms = g.dominators().get(n, set())
    hs = [d for d in doms if g.node(d).kind == "handler" and d != n]
    eg = g.edge_guards(n)
    best_t = max(eg, key=lambda tl: tl[0]) if eg else None
    best_h = max(hs) if hs else None
    if best_h is not None and (best_t is None or best_h > best_t[0]):
        return "after " + g.node(best_h).text()
    if best_t is not None:
        return f"under {src(g.node(best_t[0]).ast)} [{best_t[1]}]"
    return "unconditional"


def http_interp(ctx) -> Interp:
    H, A, HH = ctx.mod("web/http.py"), ctx.mod("web/_abnf.py"), ctx.mod("web/http_headers.py")
    from sa.astx import module_consts
    consts = module_consts(HH)
    consts.update(module_consts(H))
    I = Interp(funcs=module_funcs(A, HH, H), consts=consts, exc_bases=exc_bases_of(A, HH, H),
               models={"networkString": lambda s: s.encode("ascii")})
    for m in (A, HH, H):
        add_module_values(I, m)
    return I


def add_module_values(I: Interp, mod) -> None:
    """Module-level ``NAME = <pure expression>`` that sa.astx.module_consts cannot evaluate (precompiled
    regular expressions, translate tables, frozensets of computed members ...)."""
    for st in mod.tree.body:
        tgt = val = None
        if isinstance(st, ast.Assign) and len(st.targets) == 1 and isinstance(st.targets[0], ast.Name):
            tgt, val = st.targets[0].id, st.value
        elif isinstance(st, ast.AnnAssign) and isinstance(st.target, ast.Name) and st.value is not None:
            tgt, val = st.target.id, st.value
        if tgt is None or tgt in I.consts or tgt in I.funcs:
            continue
        try:
            I._steps = 0
            I.consts[tgt] = I.ev(val, {})
        except (Unknown, Unsupported, Raised):
            continue


def falsy_until_exit(g, n: int, extra_ok: Optional[Callable[[object], bool]] = None) -> Optional[List[int]]:
    """After node n only falsy returns (and ``extra_ok`` nodes) occur before the function exits."""
    succ = [d for d, l in g.succ[n] if l != "exc"]

    def allowed(node):
        if node.kind == "stmt" and is_falsy_return(node.ast):
            return True
        return bool(extra_ok and extra_ok(node))
    return only_nodes_until_exit(g, succ, allowed)


PITFALL_SUFFIXES = (b"\n", b"\r\n", b"\r", b"\n\n", b" ", b"\t", b"\x00", b"\x0b", b"\x0c", b"\x85", b"\xa0")
PITFALL_PREFIXES = (b"\n", b"\r\n", b" ", b"\t", b"\x00")


def validator_domain(bases: Sequence[bytes]) -> List[bytes]:
    """Every byte value alone / leading / trailing, plus the classic pitfalls of validators rewritten as a regex,
    a set test or a translate table: trailing LF / CRLF (``$`` matches before a final newline), embedded NUL,
    empty string, leading and trailing blanks."""
    singles = [bytes([v]) for v in range(256)]
    dom = [b""] + singles + [b"a" + x for x in singles] + [x + b"A" for x in singles] + [b"1" + x + b"2" for x in singles]
    dom += [b"\n", b"\r\n", b" ", b"0x1", b"+1", b"-1", b" 1", b"1 ", b"1_0", b"ff", b"FF", b"Content-Length"]
    for b in bases:
        dom += [b] + [b + x for x in PITFALL_SUFFIXES] + [x + b for x in PITFALL_PREFIXES] + [b[:1] + b"\x00" + b[1:], b[:1] + b"\n" + b[1:], b + b"\n" + b]
    return dom


def check_token_validator(ctx, interp: Interp) -> None:
    """_istoken accepts exactly 1*tchar (RFC 9110 5.6.2): by evaluating its source, whatever idiom it is written in."""
    from sa.domains import TCHAR, fmt_set
    f = ctx.func("web/_abnf.py", "_istoken")
    dom = validator_domain([b"abc", b"X-Foo", b"Content-Length", b"GET"])
    bad, acc = None, set()
    for x in dom:
        kind, val = interp.outcome(f, [x])
        want = bool(x) and all(c in TCHAR for c in x)
        if kind == "ok" and val and len(x) == 1:
            acc.add(x[0])
        if (kind != "ok" or bool(val) != want) and bad is None:
            bad = (x, kind, val)
    ctx.check(bad is None, "byte-class/exact", "twisted.web._abnf._istoken",
              (f"_istoken({bad[0]!r}) gives {bad[1]} {bad[2]!r}: a method / header name must be exactly 1*tchar (a trailing LF, CR, NUL or blank in "
               f"a header name is a header-injection / smuggling vector); accepted single bytes {fmt_set(acc)}") if bad else "",
              detail=f"accepts exactly RFC 9110 1*tchar over {len(dom)} inputs (every byte value alone/leading/trailing/embedded, trailing LF/CRLF, NUL, blanks, empty)")


def check_hex_validators(ctx, interp: Interp, rule_prefix: str = "byte-class") -> None:
    """_ishexdigits accepts exactly 1*HEXDIG; _hexint returns int(x, 16) exactly there and raises ValueError elsewhere."""
    from sa.domains import HEXDIG, fmt_set
    dom = validator_domain([b"3", b"ff", b"1A", b"0"])
    f = ctx.func("web/_abnf.py", "_ishexdigits")
    bad, acc = None, set()
    for x in dom:
        kind, val = interp.outcome(f, [x])
        want = bool(x) and all(c in HEXDIG for c in x)
        if kind == "ok" and val and len(x) == 1:
            acc.add(x[0])
        if (kind != "ok" or bool(val) != want) and bad is None:
            bad = (x, kind, val)
    ctx.check(bad is None, rule_prefix + "/hexdigits-exact", "twisted.web._abnf._ishexdigits",
              f"_ishexdigits({bad[0]!r}) gives {bad[1]} {bad[2]!r}: must accept exactly 1*HEXDIG; accepted single bytes {fmt_set(acc)}" if bad else "",
              detail=f"accepts exactly 1*HEXDIG over {len(dom)} inputs")
    f = ctx.func("web/_abnf.py", "_hexint")
    bad = None
    for x in dom:
        kind, val = interp.outcome(f, [x])
        want = bool(x) and all(c in HEXDIG for c in x)
        good = (kind == "ok" and val == int(x, 16)) if want else (kind == "raise" and interp.is_sub(val, "ValueError"))
        if not good and bad is None:
            bad = (x, kind, val)
    ctx.check(bad is None, rule_prefix + "/hexint", "twisted.web._abnf._hexint",
              (f"_hexint({bad[0]!r}) gives {bad[1]} {bad[2]!r}: a chunk size must be 1*HEXDIG -> value and everything else (sign, 0x, blanks, underscore, "
               "trailing LF, empty) -> ValueError") if bad else "",
              detail=f"{len(dom)} size texts decided as RFC 9112 7.1 chunk-size")


def _tests_token(e) -> bool:
    return call_in(e, "_istoken") is not None


def check_name_encoder(ctx, interp: Interp) -> None:
    """_NameEncoder.encode hands out only names that passed _istoken: (1) every store into the process-wide
    canonical-name cache - in encode() or in a helper it calls - happens after the name passed _istoken; (2) every
    return of encode() is either dominated by a passed _istoken test or returns a value read from that cache;
    (3) a failed test raises.  Used by C19 (request header names) and C20 (response header names)."""
    from sa.effects import class_accesses
    from sa.source import methods
    rel = "web/http_headers.py"
    mod = ctx.mod(rel)
    cls = ctx.cls(rel, "_NameEncoder")
    ms = methods(cls)
    f = ctx.func(rel, "_NameEncoder.encode")
    g = ctx.cfg(f)
    qc = "twisted.web.http_headers._NameEncoder."
    q = qc + "encode"
    cache_attr = "_canonicalHeaderCache"

    def guarded_by_token(gr, n):
        return gr.guarded(n, _tests_token, True)

    def call_sites(name):
        out = []
        for mn, m in ms.items():
            gm = ctx.cfg(m)
            for n in calls_named(gm, "self." + name):
                out.append((mn, gm, n))
        return out

    val = [t for t in g.ids(lambda n: n.kind == "test") if _tests_token(g.node(t).ast)]
    helper_tests = []
    for mn, m in ms.items():
        if mn != "encode" and any(isinstance(c, ast.Call) and call_name(c) == "self." + mn for c in ast.walk(f)):
            gm = ctx.cfg(m)
            helper_tests += [(gm, t) for t in gm.ids(lambda n: n.kind == "test") if _tests_token(gm.node(t).ast)]
    ctx.need(val or helper_tests, "an _istoken test in encode() or a helper it calls")
    # (1) cache stores
    stores = [a for a in class_accesses(mod, cls, {cache_attr}, receivers={"self"}) if a.kind in ("setitem", "setdefault", "update", "augassign")]
    for a in stores:
        mn = a.func.split(".", 1)[1].split(".")[0]
        gm = ctx.cfg(ms[mn]) if mn in ms else None
        cons = ctx.construct("twisted.web.http_headers." + a.func, a.node)
        ok = gm is not None and all(guarded_by_token(gm, n) for n in gm.ids_of(a.node))
        wit = ""
        if not ok:
            # the same statement on the inlined view of encode(): a validate-or-raise helper called before the store dominates it there
            import re as _re2
            want = _re2.sub(r"__i\d+", "", src(a.node))
            twins = [n for n in g.ids(lambda x: x.kind == "stmt") if _re2.sub(r"__i\d+", "", src(g.node(n).ast)) == want or
                     (isinstance(a.node, ast.Call) and any(_re2.sub(r"__i\d+", "", src(c)) == want for c in walk_local(g.node(n).ast) if isinstance(c, ast.Call)))]
            if twins and all(guarded_by_token(g, n) for n in twins):
                ok = True
        if not ok and gm is not None and mn != "encode":
            sites = call_sites(mn)
            ok = bool(sites) and all(guarded_by_token(gs, n) for _, gs, n in sites)
            bad = [(cm, gs, n) for cm, gs, n in sites if not guarded_by_token(gs, n)]
            if bad:
                wit = f"called from {bad[0][0]}: " + bad[0][1].describe(bad[0][1].path([bad[0][1].entry], [bad[0][2]]))
        ctx.check(ok, "header-name/cache-after-validation", cons,
                  "a name is stored in the process-wide canonical-name cache before it passed _istoken: the first use is refused, every later use of the same "
                  "invalid name is served from the cache without any check (e.g. 'Content-Length ' accepted and ignored for framing)", witness=wit)
    # (2) returns of encode
    for r in g.ids(lambda n: n.kind == "stmt" and isinstance(n.ast, ast.Return)):
        v = g.node(r).ast.value
        vals = resolve_local(f, v) if v is not None else []
        def cached(x):
            if cache_attr in src(x):
                return True
            return any(isinstance(nm, ast.Name) and any(cache_attr in src(v) for v in local_values(f, nm.id)) for nm in ast.walk(x))
        from_cache = bool(vals) and all(cached(x) for x in vals)
        if not from_cache and isinstance(v, ast.Name):
            from_cache = any(isinstance(t.ast, ast.NamedExpr) and cache_attr in src(t.ast.value) and t.ast.target.id == v.id and g.dominates(t.id, r)
                             for t in (g.node(i) for i in g.ids(lambda n: n.kind == "test")))
        if from_cache:
            ctx.ok("header-name/validated", ctx.construct(q, g.node(r).ast), "value read from the cache (filled only after validation)")
            continue
        ctx.check(guarded_by_token(g, r), "header-name/validated", ctx.construct(q, g.node(r).ast),
                  "a header name that is not an RFC 9110 token is returned (not refused with InvalidHeaderName)",
                  witness=g.describe(g.path([g.entry], [r])))
    # (3) failed test raises
    for gm, t in [(g, t) for t in val] + helper_tests:
        fsucc = [d for d, l in gm.succ[t] if l == "F"]
        bad = only_nodes_until_exit(gm, fsucc, lambda node: node.kind == "stmt" and isinstance(node.ast, ast.Raise))
        ctx.check(bad is None, "header-name/invalid-raises", q, "an invalid header name does not raise InvalidHeaderName", witness=gm.describe(bad))
