"""C56 - Flattened and JSON-serialized log events format like the original."""
from __future__ import annotations

import ast

from sa.astx import call_name, dotted, src, walk_local
from sa.selftest import Mutant, Silent
from sa.props._lib_k import no_crash
from sa.source import AnalysisError

PROPERTY = "C56"
FLAT = "logger/_flatten.py"
JSON = "logger/_json.py"
FMT = "logger/_format.py"
TECHNIQUE = "finite evaluation of conversion tables; data-flow/CFG/escape rules; interpreted format family"
EXPLANATION = (
    "Finite-exhaustive: for every conversion code {None, s, r, a} (the whole domain str.format accepts) the key under which flattenEvent "
    "stores the text equals the key flatFormat looks up (both through KeyFlattener.flatKey), and the stored text is what str.format would "
    "render for that code (str / repr / ascii) - evaluated by the checker's own interpreter on a probe whose str, repr and ascii differ. "
    "Structural (normalised view, private helpers inlined): the parsed format spec flows into a format() call on one side (data flow); the "
    "flattened key is computed from the field name before '()' is stripped, '()' fields are called before they are converted and a field "
    "whose flattened key is already stored is not resolved again (CFG ordering / guard dominance); _formatEvent selects flatFormat exactly under 'log_flattened' in event and the live formatter exactly otherwise (guard "
    "polarity); eventAsJSON flattens the event it serialises before dumps (must-precede); dumps / loads get only keyword arguments that make "
    "them more total; '__class_uuid__' marker and classInfo rows agree between saver and loader; the JSON fallback encoder (default hook, "
    "objectSaveHook, every classInfo predicate and saver, resolved through the table) performs no may-raise operation on an arbitrary "
    "object (exception-escape analysis with isinstance narrowing). A structural rule that does not recognise a shape abstains with a note. "
    "Bounded only (interpreted family of 39 format strings, four stages original / flattened / flattened twice / JSON-loaded compared with "
    "str.format-with-call-syntax): occurrence counters for repeated fields, the stored value being the converted text, literal/field "
    "order and the '' join in the reader, called vs uncalled references to one name, index-then-call paths in the live formatter, "
    "NamedConstant / bytes / inf values through JSON - no shape-independent structural formulation of these survives helper extraction. "
    "Not decided: values outside the family, objects whose __format__('') differs from str()."
)
RULE_KINDS = {
    # finite-exhaustive: writer / reader key normalisation and conversion function evaluated over the whole conversion domain {None, s, r, a}
    "conversion/": "finite-exhaustive",
    # structural: data flow of the format spec, CFG ordering / guards, must-precede, keyword tables, exception-escape over the encoder's call graph
    "format-spec/": "structural", "key/": "structural", "writer/": "structural", "dispatch/": "structural", "json/": "structural",
    # bounded: formatter / flattener / JSON codec interpreted on a family of format strings
    "roundtrip/": "bounded",
}
ASSUMPTIONS = [
    "string.Formatter.parse yields (literal_text, field_name, format_spec, conversion)",
    "format(value, '') == str(value) for the values in scope (default __format__)",
]
QF = "twisted.logger._flatten."


def _json(ctx):
    ej = ctx.func(JSON, "eventAsJSON")
    gj = ctx.cfg(ej)
    fl = gj.find(lambda x: isinstance(x, ast.Call) and call_name(x) == "flattenEvent")
    du = gj.find(lambda x: isinstance(x, ast.Call) and call_name(x) in ("dumps", "json.dumps"))
    ctx.check(bool(du), "json/flatten-before-dumps", "twisted.logger._json.eventAsJSON", "eventAsJSON no longer serialises with dumps")
    w = gj.must_precede(fl, du) if du else None
    ctx.check(bool(fl) and w is None, "json/flatten-before-dumps", "twisted.logger._json.eventAsJSON | flattenEvent(event)",
              "the event is serialised without having been flattened first: objects are replaced by {'unpersistable': true} and the loaded "
              "event formats differently", witness=gj.describe(w))
    ev = ej.args.args[0].arg
    for n in fl:
        c = next(x for x in walk_local(gj.node(n).ast) if isinstance(x, ast.Call) and call_name(x) == "flattenEvent")
        ctx.check(len(c.args) == 1 and src(c.args[0]) == ev, "json/flatten-before-dumps", ctx.construct("twisted.logger._json.eventAsJSON", c),
                  "a different object than the serialised event is flattened")
    for n in du:
        c = next(x for x in walk_local(gj.node(n).ast) if isinstance(x, ast.Call) and call_name(x) in ("dumps", "json.dumps"))
        kws = {k.arg: k.value for k in c.keywords}
        ctx.check(len(c.args) >= 1 and src(c.args[0]) == ev and _default_hook(ctx.mod(JSON), ej, c) is not None, "json/dumps-arguments",
                  "twisted.logger._json.eventAsJSON | dumps(event, <fallback encoder>)", "dumps does not serialise the flattened event with the fallback encoder")
        _kwargs_total(ctx, "twisted.logger._json.eventAsJSON", c, _DUMPS_OK, _DUMPS_BAD, required={"skipkeys": True},
                      hook_ok=_default_hook(ctx.mod(JSON), ej, c) is not None)
    lj = ctx.func(JSON, "eventFromJSON")
    lo = [c for c in ast.walk(lj) if isinstance(c, ast.Call) and call_name(c) in ("loads", "json.loads")]
    ctx.check(len(lo) == 1 and src(lo[0].args[0]) == lj.args.args[0].arg, "json/loads", "twisted.logger._json.eventFromJSON",
              "eventFromJSON does not load the given text")
    for c in lo:
        _kwargs_total(ctx, "twisted.logger._json.eventFromJSON", c, _LOADS_OK, _LOADS_BAD, required={})
    # class-uuid marker agreement
    sv = ctx.func(JSON, "objectSaveHook")
    ld = ctx.func(JSON, "objectLoadHook")
    wk = {st.targets[0].slice.value for st in ast.walk(sv) if isinstance(st, ast.Assign) and isinstance(st.targets[0], ast.Subscript)
          and isinstance(st.targets[0].slice, ast.Constant)}
    rk = {x.slice.value for x in ast.walk(ld) if isinstance(x, ast.Subscript) and isinstance(x.slice, ast.Constant)}
    rk |= {x.left.value for x in ast.walk(ld) if isinstance(x, ast.Compare) and isinstance(x.left, ast.Constant) and isinstance(x.ops[0], ast.In)}
    ctx.check(len(wk) == 1 and rk == wk, "json/class-marker-agreement", "twisted.logger._json.objectSaveHook|objectLoadHook",
              f"saver marks objects with {sorted(wk)} but the loader looks for {sorted(rk)}")
    table = ctx.mod(JSON).module_assign("classInfo")
    ctx.need(isinstance(table, ast.List), "classInfo table")
    uu = []
    for row in table.elts:
        ok = isinstance(row, ast.Tuple) and len(row.elts) == 4 and isinstance(row.elts[1], ast.Call) and call_name(row.elts[1]) == "UUID"
        ctx.check(ok, "json/class-table-row", ctx.construct("twisted.logger._json.classInfo", row.elts[1] if ok else row),
                  "classInfo row is not (predicate, UUID, saver, loader)")
        if ok:
            uu.append(src(row.elts[1]).upper())
    ctx.check(len(set(uu)) == len(uu), "json/class-table-row", "twisted.logger._json.classInfo | distinct uuids", "two classInfo rows share a UUID")
    ctx.floor("json/class-table-row", len(table.elts), 2, "rows")


# keyword arguments of json.dumps / json.loads: only those that make the (de)serialisation *more* total are acceptable
_DUMPS_OK = {"default", "skipkeys", "ensure_ascii", "sort_keys", "separators", "indent"}
_DUMPS_BAD = {"allow_nan": True, "check_circular": True}          # harmless only with this constant value (the default)
_LOADS_OK = {"object_hook", "strict"}
_LOADS_BAD = {"parse_float": None, "parse_int": None, "parse_constant": None, "object_pairs_hook": None}


def _default_hook(js, owner, call):
    """The function json applies to objects it cannot encode: `default=<fn>` (nested in ``owner`` or module-level) or the `default`
    method of a module class derived from JSONEncoder passed as `cls=`.  -> (FunctionDef, index of the object parameter) or None."""
    kws = {k.arg: k.value for k in call.keywords}
    d = kws.get("default")
    if isinstance(d, ast.Name):
        fn = next((n for n in ast.walk(owner) if isinstance(n, ast.FunctionDef) and n.name == d.id), None) or js.find(d.id)
        return (fn, 0) if isinstance(fn, ast.FunctionDef) else None
    c = kws.get("cls")
    if isinstance(c, ast.Name):
        cls = js.find(c.id)
        if isinstance(cls, ast.ClassDef) and any((dotted(b) or "").split(".")[-1] == "JSONEncoder" for b in cls.bases):
            fn = next((n for n in cls.body if isinstance(n, ast.FunctionDef) and n.name == "default"), None)
            if fn is not None and len(fn.args.args) >= 2:
                return fn, 1
    return None


def _kwargs_total(ctx, qual, call, ok, bad, required, hook_ok=False):
    for k in call.keywords:
        if k.arg is None:
            raise AnalysisError(f"{qual}: **kwargs in {src(call)[:60]}")
        c = ctx.construct(qual, call.func) + f" | {k.arg}="
        if k.arg in required:
            v = k.value.value if isinstance(k.value, ast.Constant) else "?"
            ctx.check(v == required[k.arg], "json/serialisation-total", c, f"{k.arg}={src(k.value)}: events with keys json cannot encode make serialisation raise")
        elif k.arg in ok or (k.arg == "cls" and hook_ok):
            ctx.ok("json/serialisation-total", c)
        elif k.arg in bad:
            harmless = bad[k.arg] is not None and isinstance(k.value, ast.Constant) and k.value.value == bad[k.arg]
            ctx.check(harmless, "json/serialisation-total", c,
                      f"{k.arg}={src(k.value)} makes the JSON round trip raise or alter values json handles by default (e.g. inf/nan, numbers): the loaded "
                      "event no longer formats like the original")
        else:
            raise AnalysisError(f"{qual}: keyword {k.arg} of {src(call.func)} is not classified")
    for k, v in required.items():
        if k not in {x.arg for x in call.keywords}:
            ctx.violation("json/serialisation-total", ctx.construct(qual, call.func) + f" | {k}=", f"{k}={v} was dropped: serialisation is less total than before")


# ---- concrete evaluation of flatten -> format (-> JSON -> format) over a finite family of events -----------------------------
class _V:
    def __init__(self, tag):
        self.tag = tag

    def __str__(self):
        return f"<{self.tag}>"

    def __repr__(self):
        return f"V({self.tag!r})"


class _F(_V):
    def __call__(self):
        return _V(self.tag + "()")


class _H(_V):
    def __init__(self, tag):
        super().__init__(tag)
        self.inner = _V(tag + ".inner")
        self.table = {"k": _V(tag + ".table[k]")}
        self.fn = _F(tag + ".fn")


FAMILY = ["plain text", "", "{x}", "{x!s}", "{x!r}", "{x} and {x}", "{x!r} {x!s} {x}", "{x}{y}", "{{braces}} {x}", "{n} items", "{s!r}",
          "ratio={ratio}", "{u}", "{f()}", "{f}", "{f} -> {f()}", "{f()} -> {f}", "{f()!r} {f()}", "{f!r} {f()!r}", "{h.inner}", "{h.inner!r} {h.inner}",
          "{h.table[k]}", "{h.fn()}", "{h.fn} {h.fn()}", "tail {y} end", "{routes[1].fn()}", "{routes[0].inner} {routes[1].table[k]!r}",
          "{h.table[k].fn()}", "{routes[0].fn().tag}", "state={state}", "{state!r} at {level}", "{seq}",
          "{u!a}", "{n:05d}", "{s:>6}", "{s!r:>8}", "{x!r} {x} {x!r}", "{f()} {f()}", "{b}"]


class _NamedConstant:
    """Model of constantly.NamedConstant."""

    def __init__(self, container, name):
        self._container, self.name = container, name

    def __repr__(self):
        return f"<{self._container}={self.name}>"


class _InvalidLogLevelError(Exception):
    pass


class _LogLevelModel:
    """Model of twisted.logger.LogLevel (constantly.Names API: lookupByName raises ValueError, levelWithName
    raises InvalidLogLevelError, iterconstants)."""

    def __init__(self):
        for n in ("debug", "info", "warn", "error", "critical"):
            setattr(self, n, _NamedConstant("LogLevel", n))

    def iterconstants(self):
        return iter([self.debug, self.info, self.warn, self.error, self.critical])

    def lookupByName(self, name):
        if name in ("debug", "info", "warn", "error", "critical"):
            return getattr(self, name)
        raise ValueError(name)

    def levelWithName(self, name):
        try:
            return self.lookupByName(name)
        except ValueError:
            raise _InvalidLogLevelError(name)


_LEVELS = _LogLevelModel()


def _values():
    h = _H("h")
    h.table["k"] = _H("h.table[k]")
    return {"x": _V("x"), "y": _V("y"), "n": 3, "s": "text", "ratio": float("inf"), "u": "\xe9", "f": _F("f"), "h": h,
            "routes": [_H("r0"), _H("r1")], "state": _NamedConstant("ConnState", "established"), "level": _LEVELS.info,
            "seq": [1, _NamedConstant("ConnState", "closing"), "z"], "b": b"by\xfftes"}


def _resolve(field, values):
    """A field path with the call syntax of twisted.logger: every dotted segment (and the first name) may end in '()'."""
    import _string
    first, rest = _string.formatter_field_name_split(field)

    def step(getter, name):
        callit = isinstance(name, str) and name.endswith("()")
        v = getter(name[:-2] if callit else name)
        return v() if callit else v
    obj = step(values.__getitem__, first)
    for is_attr, i in rest:
        if is_attr:
            obj = step(lambda nm, o=obj: getattr(o, nm), i)
        else:
            obj = obj[i]
    return obj


def _expected(fmt, values):
    import string
    out = []
    for lit, field, spec, conv in string.Formatter().parse(fmt):
        out.append(lit)
        if field is None:
            continue
        obj = _resolve(field, values)
        obj = {None: lambda v: v, "s": str, "r": repr, "a": ascii}[conv](obj)
        out.append(format(obj, spec or ""))
    return "".join(out)


def _concrete(ctx):
    import collections
    import json
    import string
    import typing
    import uuid
    from sa.props._lib_k import Interp, Nonterminating
    fl, js, fm = ctx.mod(FLAT), ctx.mod(JSON), ctx.mod(FMT)
    fa = type("Failure", (), {})

    def safe_repr(o):
        try:
            return repr(o)
        except BaseException:
            return "<unrepresentable>"
    it = Interp({}, budget=6000000)
    it.load(fl)
    it.load(js)
    it.load(fm)
    it.globals.update({"aFormatter": string.Formatter(), "Formatter": string.Formatter, "defaultdict": collections.defaultdict, "dumps": json.dumps,
                       "loads": json.loads, "UUID": uuid.UUID, "NamedConstant": _NamedConstant, "Failure": fa, "LogLevel": _LEVELS,
                       "InvalidLogLevelError": _InvalidLogLevelError, "safe_repr": safe_repr,
                       "JSONDict": dict, "LogEvent": dict, "Dict": typing.Dict, "Any": typing.Any, "Optional": typing.Optional, "Union": typing.Union,
                       "Mapping": typing.Mapping, "Iterator": typing.Iterator, "Tuple": typing.Tuple})
    for name in ("flattenEvent", "flatFormat", "eventAsJSON", "eventFromJSON", "_formatEvent", "formatWithCall"):
        ctx.need(name in it.globals, f"function {name}")
    for name in ("classInfo", "uuidToLoader"):
        expr = js.module_assign(name)
        if expr is not None:
            it.globals[name] = it.ev(expr, [])
    G = it.globals

    def text_of(event):
        return G["_formatEvent"](event)   # the real dispatcher: flatFormat for flattened events, formatWithCall otherwise

    def guarded(fn):
        try:
            return fn()
        except Nonterminating:
            return "<does not terminate>"
        except AnalysisError:
            raise
        except Exception as e:
            return f"<raises {type(e).__name__}: {str(e)[:60]}>"
    for fmt in FAMILY:
        want = _expected(fmt, _values())
        e1 = dict(_values(), log_format=fmt)

        def stage0():
            return text_of(dict(_values(), log_format=fmt))

        def stage1():
            G["flattenEvent"](e1)
            return text_of(e1)

        def stage2():
            G["flattenEvent"](e1)
            return text_of(e1)

        def stage3():
            e3 = dict(_values(), log_format=fmt)
            return text_of(G["eventFromJSON"](G["eventAsJSON"](e3)))
        def stage4():
            e3 = dict(_values(), log_format=fmt)
            once = G["eventFromJSON"](G["eventAsJSON"](e3))
            return text_of(G["eventFromJSON"](G["eventAsJSON"](once)))   # a loaded event is serialised again (relayed log)
        bad = None
        for label, fn in (("the original event (live formatter)", stage0), ("after flattenEvent", stage1), ("after flattening twice", stage2),
                          ("after eventAsJSON/eventFromJSON", stage3), ("after a second JSON hop of the loaded event", stage4)):
            got = guarded(fn)
            if got != want and bad is None:
                bad = (label, got)
        ctx.check(bad is None, "roundtrip/concrete-family", f"{QF}flattenEvent|flatFormat | {fmt!r}",
                  (f"{bad[0]} formats as {bad[1]!r}; str.format with call syntax gives {want!r} - original, flattened and JSON-loaded text must coincide" if bad else ""),
                  detail=f"all five stages give {want!r}")
    ctx.floor("roundtrip/concrete-family", len(FAMILY), 20, "format strings")


def _encoder_total(ctx):
    """The fallback encoder (eventAsJSON.default -> objectSaveHook -> classInfo predicates / savers) is applied to arbitrary
    objects reachable from the event: nothing in it may raise (exception-escape analysis, isinstance narrowing)."""
    from sa.props._lib_k import HOSTILE, TYPED, EscapeAnalysis
    js = ctx.mod(JSON)
    sv = ctx.func(JSON, "objectSaveHook")
    table = js.module_assign("classInfo")
    ctx.need(isinstance(table, ast.List), "classInfo table")
    an = EscapeAnalysis(ctx, [JSON])
    param = sv.args.args[0].arg
    # Which local names denote callables taken out of the classInfo table?  Followed through the loop that unpacks the rows, through a
    # private helper that returns some of them as a tuple, and through the unpacking of that result.
    width = {len(r.elts) for r in table.elts if isinstance(r, ast.Tuple)}
    ctx.need(len(width) == 1 and all(isinstance(r, ast.Tuple) for r in table.elts), "classInfo rows of one width")
    width = width.pop()
    funcs = {n.name: n for n in js.tree.body if isinstance(n, ast.FunctionDef)}
    positions = {}      # (function name, local name) -> column of classInfo
    returns = {}        # function name -> [column, ...] for `return a, b`
    for fname, fn in funcs.items():
        for lp in ast.walk(fn):
            if isinstance(lp, ast.For) and isinstance(lp.iter, ast.Name) and lp.iter.id == "classInfo" and isinstance(lp.target, ast.Tuple) and len(lp.target.elts) == width:
                for pos, t in enumerate(lp.target.elts):
                    if isinstance(t, ast.Name):
                        positions[(fname, t.id)] = pos
        cols = None
        for r in ast.walk(fn):
            if isinstance(r, ast.Return) and isinstance(r.value, ast.Tuple) and all(isinstance(e, ast.Name) and (fname, e.id) in positions for e in r.value.elts):
                cols = [positions[(fname, e.id)] for e in r.value.elts]
        if cols:
            returns[fname] = cols
    for fname, fn in funcs.items():
        got = {}    # local holding a helper's tuple result -> helper
        for st in ast.walk(fn):
            if isinstance(st, ast.Assign) and len(st.targets) == 1:
                v, t = st.value, st.targets[0]
                helper = call_name(v) if isinstance(v, ast.Call) else (got.get(v.id) if isinstance(v, ast.Name) else None)
                if helper in returns:
                    if isinstance(t, ast.Name):
                        got[t.id] = helper
                    elif isinstance(t, ast.Tuple) and len(t.elts) == len(returns[helper]):
                        for e, pos in zip(t.elts, returns[helper]):
                            if isinstance(e, ast.Name):
                                positions[(fname, e.id)] = pos
    ctx.need(positions, "the code that takes predicates / savers out of classInfo")
    called = {}     # column -> applied directly in a test (predicate) or not (saver)
    for (fname, local), pos in positions.items():
        fn = funcs[fname]
        in_test = any(isinstance(c, ast.Call) and isinstance(c.func, ast.Name) and c.func.id == local
                      for st in ast.walk(fn) if isinstance(st, (ast.If, ast.IfExp, ast.While)) for c in ast.walk(st.test))
        is_called = any(isinstance(c, ast.Call) and isinstance(c.func, ast.Name) and c.func.id == local for c in ast.walk(fn))
        if is_called:
            called.setdefault(pos, []).append((local, in_test))
    analysed = []
    for pos, uses in sorted(called.items()):
        fns = []
        for i, row in enumerate(table.elts):
            el = row.elts[pos]
            if isinstance(el, ast.Lambda):
                fd = ast.FunctionDef(name=f"classInfo[{i}].{uses[0][0]}", args=el.args, body=[ast.Return(value=el.body)], decorator_list=[], lineno=el.lineno, col_offset=0)
                fd._parent = js.tree
                fd.body[0]._parent = fd
                fns.append(fd)
            elif isinstance(el, ast.Name) and isinstance(js.find(el.id), ast.FunctionDef):
                fns.append(js.find(el.id))
            else:
                raise AnalysisError(f"classInfo[{i}][{pos}] is applied to event objects but is not a lambda / module function")
        for local, in_test in uses:
            an.table_funcs[local] = [(fn, HOSTILE if in_test else TYPED) for fn in fns]
        analysed += [fn.name for fn in fns]
    an.run(JSON, "objectSaveHook", {param: HOSTILE})
    ej = ctx.func(JSON, "eventAsJSON")
    dcalls = [c for c in ast.walk(ej) if isinstance(c, ast.Call) and call_name(c) in ("dumps", "json.dumps")]
    ctx.need(len(dcalls) == 1, "the dumps(...) call of eventAsJSON")
    hook = _default_hook(js, ej, dcalls[0])
    ctx.need(hook is not None, "fallback encoder (default=<function> or cls=<JSONEncoder subclass with default()>) of dumps")
    dflt, pi = hook
    an.analyse(JSON, dflt, {dflt.args.args[pi].arg: HOSTILE}, "none")
    flagged = set()
    for st in sorted(an.sites.values(), key=lambda x: (x.node.lineno, x.op)):
        if st.level == "all":
            continue
        flagged.add(st.qual)
        ctx.violation("json/encoder-total", ctx.construct(f"twisted.logger._json.{st.qual}", st.node),
                      f"{st.why}: the JSON fallback encoder is applied to every object json cannot encode, so eventAsJSON raises for such an event "
                      "instead of producing text that formats like the original")
    for q, label in [("objectSaveHook", "objectSaveHook"), (js.qualname(dflt), "<fallback encoder passed to dumps>")] + [(a, a) for a in analysed]:
        if q not in flagged:
            ctx.ok("json/encoder-total", f"twisted.logger._json.{label}", "no may-raise operation on an arbitrary object")
    ctx.floor("json/encoder-total", len(analysed), 3, "table callables")


# ==== finite-exhaustive: writer / reader agreement over the whole conversion domain ================================================
class _Probe:
    """str, repr and ascii all differ."""

    def __str__(self):
        return "S\xe9"

    def __repr__(self):
        return "R\xe9"


class _AnyKey(dict):
    """The flattened mapping seen by the reader: records every key it is asked for."""

    def __init__(self):
        super().__init__()
        self.asked = []

    def __getitem__(self, k):
        self.asked.append(k)
        return "?"

    def __contains__(self, k):
        return True


def _conversion_tables(ctx):
    import collections
    import string
    import typing
    from sa.props._lib_k import Interp
    fl = ctx.mod(FLAT)
    for name in ("flattenEvent", "flatFormat", "KeyFlattener.flatKey"):
        ctx.func(FLAT, name)
    it = Interp({}, budget=400000)
    it.load(fl)
    it.globals.update({"aFormatter": string.Formatter(), "Formatter": string.Formatter, "defaultdict": collections.defaultdict, "LogEvent": dict,
                       "Dict": typing.Dict, "Any": typing.Any, "Optional": typing.Optional, "Iterator": typing.Iterator, "Tuple": typing.Tuple})
    want_fn = {None: str, "s": str, "r": repr, "a": ascii}
    domain_note = ("string.Formatter.parse yields a conversion in {None, 's', 'r', 'a'} for every format string str.format accepts (any other code is a "
                   "ValueError in the original path too); all four are evaluated")
    for conv in (None, "s", "r", "a"):
        label = f"conversion={conv!r}"
        fmt = "{x" + ("!" + conv if conv else "") + "}"
        probe = _Probe()
        ev = {"log_format": fmt, "x": probe}
        try:
            it.globals["flattenEvent"](ev)
            stored = dict(ev.get("log_flattened", {}))
            asked = _AnyKey()
            it.globals["flatFormat"]({"log_format": fmt, "log_flattened": asked})
        except AnalysisError:
            raise
        except Exception as e:
            raise AnalysisError(f"C56: flatten / flatFormat cannot be evaluated for {label}: {type(e).__name__}: {e}")
        text_keys = sorted(k for k, v in stored.items() if isinstance(v, str))
        ctx.check(len(asked.asked) == 1 and asked.asked[0] in text_keys, "conversion/key-agreement", f"{QF}flattenEvent|flatFormat | {label}",
                  f"for a field written {fmt} the writer stores its text under {text_keys} but the reader looks up {asked.asked}: KeyError, the flattened event "
                  "formats as 'Unable to format event ...'", detail=domain_note)
        exp = want_fn[conv](probe)
        got = [stored[k] for k in text_keys]
        ctx.check(got == [exp], "conversion/function-agreement", f"{QF}flattenEvent | {label}",
                  f"str.format renders this conversion as {exp!r}, the writer stores {got!r}: the flattened text differs", detail=domain_note)


# ==== structural rules on the normalised view ==========================================================================================
def _norm(ctx, rel, known=()):
    from sa.props._lib_j import Normaliser
    try:
        return Normaliser(ctx.mod(rel), set(known)).run()
    except RecursionError:
        return ctx.mod(rel)


def _abstain(ctx, rule, why, bounded="roundtrip/concrete-family"):
    ctx.note(f"{rule}: shape not recognised ({why}); clause left to the bounded rule {bounded}")


def _parse_loops(tree):
    out = []
    for fn in ast.walk(tree):
        if isinstance(fn, ast.FunctionDef):
            for lp in ast.walk(fn):
                if isinstance(lp, ast.For) and isinstance(lp.iter, ast.Call) and isinstance(lp.iter.func, ast.Attribute) and lp.iter.func.attr == "parse" \
                        and isinstance(lp.target, (ast.Tuple, ast.List)) and len(lp.target.elts) == 4 and all(isinstance(e, ast.Name) for e in lp.target.elts):
                    if not any(l2 is lp for f2, l2 in out):
                        out.append((fn, lp))
    # keep the innermost owning function only
    inner = []
    for fn, lp in out:
        owners = [f2 for f2, l2 in out if l2 is lp]
        best = min(owners, key=lambda f: sum(1 for _ in ast.walk(f)))
        if (best, lp) not in inner:
            inner.append((best, lp))
    return inner


def _membership(t, key):
    """+1 when the test means `key in event`, -1 for `key not in event`, else 0."""
    if isinstance(t, ast.Compare) and len(t.ops) == 1 and isinstance(t.left, ast.Constant) and t.left.value == key:
        if isinstance(t.ops[0], ast.In):
            return 1
        if isinstance(t.ops[0], ast.NotIn):
            return -1
    return 0


def _flatten_structure(ctx):
    from sa.props._lib_j import taint
    nm = _norm(ctx, FLAT, known={"flattenEvent", "flatFormat", "flatKey"})
    loops = _parse_loops(nm.tree)
    # ---- the format spec reaches the emitted text other than through the key ----------------------------------------------------
    if not loops:
        _abstain(ctx, "format-spec/applied", "no loop over Formatter.parse found")
    else:
        applied = False
        for fn, lp in loops:
            spec = lp.target.elts[2].id
            tainted = taint(fn, [spec])
            for x in ast.walk(fn):
                if isinstance(x, ast.Call):
                    nm_ = call_name(x) or ""
                    last = nm_.split(".")[-1]
                    args = list(x.args[1:] if last == "format" and isinstance(x.func, ast.Name) else x.args) + [k.value for k in x.keywords]
                    if last in ("format", "format_field", "__format__") and not (isinstance(x.func, ast.Attribute) and isinstance(x.func.value, ast.Constant)) \
                            and any(isinstance(n, ast.Name) and n.id in tainted for a in args for n in ast.walk(a)):
                        applied = True
                elif isinstance(x, ast.FormattedValue) and x.format_spec is not None and any(isinstance(n, ast.Name) and n.id in tainted for n in ast.walk(x.format_spec)):
                    applied = True
        ctx.check(applied, "format-spec/applied", QF + "flattenEvent|flatFormat | <format spec of a field>",
                  "neither the writer nor the reader applies the field's format spec (it only becomes part of the key): '{x:05d}' gives '00003' "
                  "for the original event and '3' for the flattened one", detail="data flow from the parsed format_spec into a format() call")
    # ---- writer: key computed from the unstripped field name; '()' fields called before conversion ---------------------------------
    w = nm.find("flattenEvent")
    wl = [lp for fn, lp in loops if fn is w]
    if not isinstance(w, ast.FunctionDef) or len(wl) != 1:
        _abstain(ctx, "key/uses-unstripped-field-name", "parse loop of flattenEvent")
        return
    lp = wl[0]
    g = ctx.cfg(w)
    heads = g.ids_of(lp)
    field = lp.target.elts[1].id
    keycalls = [c for c in ast.walk(lp) if isinstance(c, ast.Call) and isinstance(c.func, ast.Attribute) and c.func.attr == "flatKey" and c.args]
    if keycalls and all(isinstance(c.args[0], ast.Name) and c.args[0].id == field for c in keycalls):
        reassign = g.ids(lambda n: n.kind == "stmt" and isinstance(n.ast, (ast.Assign, ast.AugAssign)) and
                         any(isinstance(t, ast.Name) and t.id == field for t in (n.ast.targets if isinstance(n.ast, ast.Assign) else [n.ast.target])))
        bad = None
        for c in keycalls:
            for r in reassign:
                p = g.path([r], g.ids_of(c), avoid=heads, strict=True)
                if p:
                    bad = p
        ctx.check(bad is None, "key/uses-unstripped-field-name", QF + "flattenEvent | flatKey(field name, ...)",
                  "the field name is rewritten (e.g. '()' stripped) before the key is computed: '{x()}' and '{x}' share keys / the reader's key differs",
                  witness=g.describe(bad))
    else:
        _abstain(ctx, "key/uses-unstripped-field-name", "first argument of flatKey")
    # a field whose flattened key is already present is not resolved again (a loaded event has lost its objects)
    keyvars = {t.id for st in ast.walk(lp) if isinstance(st, ast.Assign) and isinstance(st.value, ast.Call) and st.value in keycalls
               for t in st.targets if isinstance(t, ast.Name)}
    lookups = [c for c in ast.walk(lp) if isinstance(c, ast.Call) and isinstance(c.func, ast.Attribute) and c.func.attr == "get_field"]
    if keyvars and lookups:
        def seen_polarity(n):
            out = set()
            for t, lab in g.edge_guards(n):
                te = g.node(t).ast
                if isinstance(te, ast.Compare) and len(te.ops) == 1 and isinstance(te.left, ast.Name) and te.left.id in keyvars and isinstance(te.ops[0], (ast.In, ast.NotIn)):
                    out.add((isinstance(te.ops[0], ast.In)) == (lab == "T"))
            return out
        for c in lookups:
            pol = set()
            for n in g.ids_of(c):
                pol |= seen_polarity(n)
            ctx.check(pol == {False}, "writer/resolves-only-unseen-fields", QF + "flattenEvent | get_field(...)",
                      "a field is looked up in the event although its flattened text is already stored: flattening a loaded event (whose objects are gone) again "
                      "raises instead of keeping the stored text", detail="dominated by `flattened key not in fields`")
    else:
        _abstain(ctx, "writer/resolves-only-unseen-fields", "flatKey result variable / get_field call")
    convs = {"str", "repr", "ascii"}
    aliases = set()
    for st in ast.walk(lp):
        if isinstance(st, ast.Assign) and len(st.targets) == 1 and isinstance(st.targets[0], ast.Name):
            leaves = [st.value.body, st.value.orelse] if isinstance(st.value, ast.IfExp) else [st.value]
            if all(isinstance(x, ast.Name) and x.id in convs for x in leaves):
                aliases.add(st.targets[0].id)
    conv_calls = [c for c in ast.walk(lp) if isinstance(c, ast.Call) and isinstance(c.func, ast.Name) and c.func.id in (convs | aliases) and len(c.args) == 1 and isinstance(c.args[0], ast.Name)]
    callsites = g.ids(lambda n: n.kind == "stmt" and isinstance(n.ast, ast.Assign) and isinstance(n.ast.value, ast.Call) and isinstance(n.ast.value.func, ast.Name)
                      and not n.ast.value.args and not n.ast.value.keywords and any(isinstance(t, ast.Name) and t.id == n.ast.value.func.id for t in n.ast.targets))
    mine = [c for c in conv_calls if any(isinstance(g.node(cs).ast.value.func, ast.Name) and g.node(cs).ast.value.func.id == c.args[0].id for cs in callsites)]
    if mine and callsites:
        bad = None
        for c in mine:
            for cs in callsites:
                if g.node(cs).ast.value.func.id == c.args[0].id:
                    p = g.path(g.ids_of(c), [cs], avoid=heads, strict=True)
                    if p:
                        bad = p
        ctx.check(bad is None, "writer/call-before-convert", QF + "flattenEvent | '()' fields",
                  "the '()' call happens after the value was converted: the text of the callable itself is stored", witness=g.describe(bad))
    else:
        _abstain(ctx, "writer/call-before-convert", "call / conversion sites of the field value")


def _dispatch(ctx):
    nm = _norm(ctx, FMT, known={"_formatEvent", "flatFormat", "formatWithCall"})
    fe = nm.find("_formatEvent")
    ctx.need(isinstance(fe, ast.FunctionDef), "function _formatEvent")
    g = ctx.cfg(fe)
    q = "twisted.logger._format._formatEvent"
    disp = g.find(lambda x: isinstance(x, ast.Call) and call_name(x) == "flatFormat")
    ctx.check(bool(disp), "dispatch/flattened-uses-flatFormat", q + " | flatFormat(event)",
              "events carrying 'log_flattened' are no longer formatted from their flattened values (objects lost by JSON would be re-formatted)")

    def polarity(n):
        out = set()
        for t, lab in g.edge_guards(n):
            m = _membership(g.node(t).ast, "log_flattened")
            if m:
                out.add(m * (1 if lab == "T" else -1))
        return out
    for d in disp:
        ctx.check(polarity(d) == {1}, "dispatch/flattened-uses-flatFormat", q + " | flatFormat only for flattened events",
                  "flatFormat is not selected exactly by the presence of 'log_flattened'")
    for o in g.find(lambda x: isinstance(x, ast.Call) and call_name(x) == "formatWithCall"):
        ctx.check(polarity(o) == {-1}, "dispatch/flattened-uses-flatFormat", q + " | live formatter only for unflattened events",
                  "the live-object formatter can run for an event that carries flattened values")


def check(ctx):
    with ctx.section("conversion tables"):
        no_crash('_conversion_tables', _conversion_tables, ctx)
    with ctx.section("flatten / format structure"):
        no_crash('_flatten_structure', _flatten_structure, ctx)
    with ctx.section("_formatEvent dispatch"):
        no_crash('_dispatch', _dispatch, ctx)
    with ctx.section("JSON"):
        no_crash('_json', _json, ctx)
    with ctx.section("JSON fallback encoder"):
        no_crash('_encoder_total', _encoder_total, ctx)
    with ctx.section("concrete family"):
        no_crash('_concrete', _concrete, ctx)


# a per-call memo of resolved fields in flattenEvent (one keyed wrongly = mutant, one keyed properly = silent variant)
_M_DECL = (FLAT, "    keyFlattener = KeyFlattener()\n\n    for literalText, fieldName, formatSpec, conversion in aFormatter.parse(\n        event[\"log_format\"]\n    ):\n        if fieldName is None:",
           "    keyFlattener = KeyFlattener()\n    lookedUp = {}\n\n    for literalText, fieldName, formatSpec, conversion in aFormatter.parse(\n        event[\"log_format\"]\n    ):\n        if fieldName is None:")
_CONV_FIXED = '        if conversion == "r":\n            conversionFunction = repr\n        elif conversion == "a":\n            conversionFunction = ascii\n        else:  # Above: if conversion is not "r" or "a", it\'s "s"\n            conversionFunction = str\n'
_M_OLD = ("        field = aFormatter.get_field(fieldName, (), event)\n        fieldValue = field[0]\n\n" + _CONV_FIXED + "\n        if callit:\n            fieldValue = fieldValue()\n\n")


def _memo(keyexpr):
    return (f"        memoKey = {keyexpr}\n        if memoKey in lookedUp:\n            fieldValue = lookedUp[memoKey]\n        else:\n"
            "            fieldValue = aFormatter.get_field(fieldName, (), event)[0]\n            if callit:\n                fieldValue = fieldValue()\n"
            "            lookedUp[memoKey] = fieldValue\n\n" + _CONV_FIXED + "\n")


# round-3 shape: the fallback encoder as a JSONEncoder subclass passed with cls=
_ENC_IMPORT = (JSON, "from json import dumps, loads\n", "from json import JSONEncoder, dumps, loads\n")
_ENC_CALL = (JSON, "    return dumps(event, default=default, skipkeys=True)", "    return dumps(event, cls=_Fallback, skipkeys=True)")


def _enc_class(codec):
    return (JSON, "def eventAsJSON(event: LogEvent) -> str:\n", "class _Fallback(JSONEncoder):\n    def default(self, o):\n        if isinstance(o, bytes):\n"
            f"            return o.decode(\"{codec}\")\n        return objectSaveHook(o)\n\n\ndef eventAsJSON(event: LogEvent) -> str:\n")


_READER_OLD = "        s.append(literalText)\n\n        if fieldName is not None:\n            key = keyFlattener.flatKey(fieldName, formatSpec, conversion or \"s\")\n            s.append(str(fieldValues[key]))\n"

# round-4 shapes: the table search in a private helper returning (uuid, saver); the reader writing into a StringIO
_HOOK_OLD = ("    for predicate, uuid, saver, loader in classInfo:\n        if predicate(pythonObject):\n            result = saver(pythonObject)\n"
             "            result[\"__class_uuid__\"] = str(uuid)\n            return result\n    return {\"unpersistable\": True}\n")
_HOOK_NEW = ("    found = _entryFor(pythonObject)\n    if found is None:\n        return {\"unpersistable\": True}\n    marker, save = found\n"
             "    result = save(pythonObject)\n    result[\"__class_uuid__\"] = str(marker)\n    return result\n")


def _hook_helper(column):
    return (JSON, "def objectSaveHook(pythonObject: object) -> JSONDict:\n",
            "def _entryFor(thing):\n    for predicate, uuid, saver, loader in classInfo:\n        if predicate(thing):\n"
            f"            return uuid, {column}\n    return None\n\n\ndef objectSaveHook(pythonObject: object) -> JSONDict:\n")


MUTANTS = [
    Mutant("reader-default-conversion-empty", FLAT, "conversion or \"s\")", "conversion or \"\")", expect_rule="roundtrip/concrete-family"),
    Mutant("revert-F56a-ascii-conversion-kept", FLAT, "        if conversion not in (\"r\", \"a\"):\n            conversion = \"s\"\n", "        if conversion != \"r\":\n            conversion = \"s\"\n",
           more=[(FLAT, _CONV_FIXED, "        if conversion == \"r\":\n            conversionFunction = repr\n        else:  # Above: if conversion is not \"r\", it's \"s\"\n            conversionFunction = str\n")],
           expect_rule="conversion/key-agreement"),
    Mutant("ascii-key-kept-but-rendered-with-str", FLAT, "        elif conversion == \"a\":\n            conversionFunction = ascii\n", "", expect_rule="conversion/function-agreement"),
    Mutant("writer-normalisation-dropped", FLAT, "        if conversion not in (\"r\", \"a\"):\n            conversion = \"s\"\n\n        flattenedKey", "        flattenedKey",
           expect_rule="roundtrip/concrete-family"),
    Mutant("writer-conversion-functions-swapped", FLAT, _CONV_FIXED,
           "        if conversion == \"r\":\n            conversionFunction = str\n        elif conversion == \"a\":\n            conversionFunction = ascii\n        else:\n            conversionFunction = repr\n",
           expect_rule="roundtrip/concrete-family"),
    Mutant("key-ignores-conversion", FLAT, "\"{fieldName}!{conversion}:{formatSpec}\".format(", "\"{fieldName}!:{formatSpec}\".format(", expect_rule="roundtrip/concrete-family"),
    Mutant("convert-before-call", FLAT, "        if callit:\n            fieldValue = fieldValue()\n\n        flattenedValue = conversionFunction(fieldValue)\n",
           "        flattenedValue = conversionFunction(fieldValue)\n        if callit:\n            fieldValue = fieldValue()\n", expect_rule="roundtrip/concrete-family"),
    Mutant("store-raw-value", FLAT, "        fields[flattenedKey] = flattenedValue\n", "        fields[flattenedKey] = fieldValue\n", expect_rule="roundtrip/concrete-family"),
    Mutant("strip-parens-before-key", FLAT, "        flattenedKey = keyFlattener.flatKey(fieldName, formatSpec, conversion)\n        structuredKey = keyFlattener.flatKey(fieldName, formatSpec, \"\")\n\n        if flattenedKey in fields:\n            # We've already seen and handled this key\n            continue\n\n        if fieldName.endswith(\"()\"):\n            fieldName = fieldName[:-2]\n            callit = True\n        else:\n            callit = False\n",
           "        if fieldName.endswith(\"()\"):\n            fieldName = fieldName[:-2]\n            callit = True\n        else:\n            callit = False\n        flattenedKey = keyFlattener.flatKey(fieldName, formatSpec, conversion)\n        structuredKey = keyFlattener.flatKey(fieldName, formatSpec, \"\")\n\n        if flattenedKey in fields:\n            continue\n",
           expect_rule="roundtrip/concrete-family"),
    Mutant("memo-keyed-by-stripped-field-name", FLAT, _M_OLD, _memo("fieldName"), more=[_M_DECL], expect_rule="roundtrip/concrete-family"),
    Mutant("dumps-rejects-nan-and-inf", JSON, "dumps(event, default=default, skipkeys=True)", "dumps(event, default=default, skipkeys=True, allow_nan=False)",
           expect_rule="json/serialisation-total"),
    Mutant("dumps-without-skipkeys", JSON, "dumps(event, default=default, skipkeys=True)", "dumps(event, default=default)", expect_rule="json/serialisation-total"),
    Mutant("loads-maps-constants", JSON, "loads(eventText, object_hook=objectLoadHook)", "loads(eventText, object_hook=objectLoadHook, parse_constant=lambda name: None)",
           expect_rule="json/serialisation-total"),
    Mutant("structured-key-call-skipped-when-seen", FLAT, "        flattenedKey = keyFlattener.flatKey(fieldName, formatSpec, conversion)\n        structuredKey = keyFlattener.flatKey(fieldName, formatSpec, \"\")\n\n        if flattenedKey in fields:\n            # We've already seen and handled this key\n            continue\n",
           "        flattenedKey = keyFlattener.flatKey(fieldName, formatSpec, conversion)\n        if fieldName + \"!s:\" in fields and conversion == \"s\":\n            flattenedKey = fieldName + \"!s:\"\n        structuredKey = keyFlattener.flatKey(fieldName, formatSpec, \"\")\n\n        if flattenedKey in fields:\n            continue\n",
           expect_rule="roundtrip/concrete-family"),
    Mutant("level-predicate-uses-raising-lookup", JSON, "            and getattr(LogLevel, level.name, None) is level\n", "            and LogLevel.lookupByName(level.name) is level\n",
           expect_rule="json/encoder-total"),
    Mutant("level-predicate-without-type-test", JSON, "            isinstance(level, NamedConstant)\n            and getattr(LogLevel, level.name, None) is level\n",
           "            getattr(LogLevel, level.name, None) is level\n", expect_rule="json/encoder-total"),
    Mutant("default-decodes-bytes-as-utf8", JSON, "            return unencodable.decode(\"charmap\")", "            return unencodable.decode(\"utf-8\")", expect_rule="json/encoder-total"),
    Mutant("indexed-element-not-rewrapped", FMT, "        value = self._wrapped[name]  # type:ignore[index]\n        return PotentialCallWrapper(value)\n",
           "        value = self._wrapped[name]  # type:ignore[index]\n        return value\n", expect_rule="roundtrip/concrete-family"),
    Mutant("call-wrapper-str-is-repr", FMT, "    def __str__(self) -> str:\n        return str(self._wrapped)\n", "    def __str__(self) -> str:\n        return repr(self._wrapped)\n",
           expect_rule="roundtrip/concrete-family"),
    Mutant("keycall-calls-before-lookup-strip", FMT, "    realKey = key[:-2] if callit else key\n", "    realKey = key[:-1] if callit else key\n", expect_rule="roundtrip/concrete-family"),
    Mutant("encoder-class-decodes-bytes-as-utf8", JSON, _ENC_CALL[1], _ENC_CALL[2], more=[_ENC_IMPORT, _enc_class("utf-8")], expect_rule="json/encoder-total"),
    Mutant("reader-extends-with-field-first", FLAT, _READER_OLD,
           "        if fieldName is None:\n            s.append(literalText)\n        else:\n            s += (str(fieldValues[keyFlattener.flatKey(fieldName, formatSpec, conversion or \"s\")]), literalText)\n",
           expect_rule="roundtrip/concrete-family"),
    Mutant("seen-fields-resolved-again", FLAT, "        if flattenedKey in fields:\n            # We've already seen and handled this key\n            continue\n\n", "",
           more=[(FLAT, "        fields[flattenedKey] = flattenedValue\n        fields[structuredKey] = fieldValue\n",
                  "        if flattenedKey not in fields:\n            fields[flattenedKey] = flattenedValue\n            fields[structuredKey] = fieldValue\n")],
           expect_rule="writer/resolves-only-unseen-fields"),
    Mutant("table-search-helper-returns-the-loader", JSON, _HOOK_OLD, _HOOK_NEW, more=[_hook_helper("loader")], expect_rule="roundtrip/concrete-family"),
    Mutant("json-without-flatten", JSON, "    flattenEvent(event)\n    return dumps(", "    return dumps(", expect_rule="json/flatten-before-dumps"),
    Mutant("reader-joins-with-space", FLAT, "    return \"\".join(s)", "    return \" \".join(s)", expect_rule="roundtrip/concrete-family"),
    Mutant("reader-field-before-literal", FLAT, "        s.append(literalText)\n\n        if fieldName is not None:\n            key = keyFlattener.flatKey(fieldName, formatSpec, conversion or \"s\")\n            s.append(str(fieldValues[key]))\n",
           "        if fieldName is not None:\n            key = keyFlattener.flatKey(fieldName, formatSpec, conversion or \"s\")\n            s.append(str(fieldValues[key]))\n        s.append(literalText)\n",
           expect_rule="roundtrip/concrete-family"),
    Mutant("reader-swaps-spec-and-conversion", FLAT, "    for literalText, fieldName, formatSpec, conversion in aFormatter.parse(\n        event[\"log_format\"]\n    ):\n        s.append",
           "    for literalText, fieldName, conversion, formatSpec in aFormatter.parse(\n        event[\"log_format\"]\n    ):\n        s.append", expect_rule="roundtrip/concrete-family"),
    Mutant("dispatch-dropped", FMT, "        if \"log_flattened\" in event:\n            return flatFormat(event)\n\n", "", expect_rule="roundtrip/concrete-family"),
]
SILENT = [
    Silent("writer-branch-reordered", FLAT, _CONV_FIXED,
           "        if conversion == \"a\":\n            conversionFunction = ascii\n        elif conversion != \"r\":\n            conversionFunction = str\n        else:\n            conversionFunction = repr\n"),
    Silent("reader-renamed-locals", FLAT, "    for literalText, fieldName, formatSpec, conversion in aFormatter.parse(\n        event[\"log_format\"]\n    ):\n        s.append(literalText)\n\n        if fieldName is not None:\n            key = keyFlattener.flatKey(fieldName, formatSpec, conversion or \"s\")\n            s.append(str(fieldValues[key]))\n",
           "    for lit, name, spec, conv in aFormatter.parse(\n        event[\"log_format\"]\n    ):\n        s.append(lit)\n        if name is None:\n            continue\n        key = keyFlattener.flatKey(name, spec, conv or \"s\")\n        s.append(str(fieldValues[key]))\n"),
    Silent("flatkey-suffix-test", FLAT, "        if n != 1:\n", "        if n > 1:\n"),
    Silent("memo-keyed-by-name-and-call-flag", FLAT, _M_OLD, _memo("(fieldName, callit)"), more=[_M_DECL]),
    Silent("memo-keyed-by-flattened-key", FLAT, _M_OLD, _memo("flattenedKey"), more=[_M_DECL]),
    Silent("dumps-keeps-unicode", JSON, "dumps(event, default=default, skipkeys=True)", "dumps(event, default=default, skipkeys=True, ensure_ascii=False, allow_nan=True)"),
    Silent("indexed-element-rewrapped-inline", FMT, "        value = self._wrapped[name]  # type:ignore[index]\n        return PotentialCallWrapper(value)\n",
           "        return PotentialCallWrapper(self._wrapped[name])\n"),
    Silent("level-predicate-by-membership", JSON, "            and getattr(LogLevel, level.name, None) is level\n", "            and any(level is c for c in LogLevel.iterconstants())\n"),
    Silent("reader-as-generator", FLAT, "    s = []\n\n    for literalText, fieldName, formatSpec, conversion in aFormatter.parse(\n        event[\"log_format\"]\n    ):\n        s.append(literalText)\n\n        if fieldName is not None:\n            key = keyFlattener.flatKey(fieldName, formatSpec, conversion or \"s\")\n            s.append(str(fieldValues[key]))\n\n    return \"\".join(s)",
           "    def pieces():\n        for lit, name, spec, conv in aFormatter.parse(event[\"log_format\"]):\n            yield lit\n            if name is None:\n                continue\n            yield str(fieldValues[keyFlattener.flatKey(name, spec, conv if conv else \"s\")])\n\n    return \"\".join(pieces())"),
    Silent("field-resolution-in-helper", FLAT, _M_OLD + "        flattenedValue = conversionFunction(fieldValue)\n",
           "        fieldValue, flattenedValue = _lookUp(fieldName, callit, conversion, event)\n",
           more=[(FLAT, "def flattenEvent(event: LogEvent) -> None:\n", "def _lookUp(name, call, conv, event):\n    found = aFormatter.get_field(name, (), event)[0]\n    if call:\n        found = found()\n    return found, {\"r\": repr, \"a\": ascii}.get(conv, str)(found)\n\n\ndef flattenEvent(event: LogEvent) -> None:\n")]),
    Silent("fallback-encoder-at-module-level", JSON, "    def default(unencodable: object) -> Union[JSONDict, str]:\n", "    def unusedLocal(unencodable: object) -> Union[JSONDict, str]:\n",
           more=[(JSON, "    return dumps(event, default=default, skipkeys=True)", "    return dumps(event, default=_fallback, skipkeys=True)"),
                 (JSON, "def eventAsJSON(event: LogEvent) -> str:\n", "def _fallback(thing):\n    if not isinstance(thing, bytes):\n        return objectSaveHook(thing)\n    return thing.decode(\"charmap\")\n\n\ndef eventAsJSON(event: LogEvent) -> str:\n")]),
    Silent("conversion-functions-from-a-module-table", FLAT, _CONV_FIXED, "        conversionFunction = _RENDER[conversion]\n",
           more=[(FLAT, "aFormatter = Formatter()\n", "aFormatter = Formatter()\n_RENDER = {\"r\": repr, \"a\": ascii, \"s\": str}\n")]),
    Silent("save-hook-as-search-loop-with-else", JSON, "        if predicate(pythonObject):\n            result = saver(pythonObject)\n            result[\"__class_uuid__\"] = str(uuid)\n            return result\n    return {\"unpersistable\": True}\n",
           "        if predicate(pythonObject):\n            break\n    else:\n        return {\"unpersistable\": True}\n    result = saver(pythonObject)\n    result[\"__class_uuid__\"] = str(uuid)\n    return result\n"),
    Silent("fallback-encoder-as-conditional-expression", JSON, "        if isinstance(unencodable, bytes):\n            return unencodable.decode(\"charmap\")\n        return objectSaveHook(unencodable)\n",
           "        return unencodable.decode(\"charmap\") if isinstance(unencodable, bytes) else objectSaveHook(unencodable)\n"),
    Silent("fallback-encoder-as-jsonencoder-subclass", JSON, _ENC_CALL[1], _ENC_CALL[2], more=[_ENC_IMPORT, _enc_class("charmap")]),
    Silent("reader-extends-list-with-a-tuple", FLAT, _READER_OLD,
           "        if fieldName is None:\n            s.append(literalText)\n        else:\n            s += (literalText, str(fieldValues[keyFlattener.flatKey(fieldName, formatSpec, conversion or \"s\")]))\n"),
    Silent("seen-check-as-positive-condition", FLAT, "        if flattenedKey in fields:\n            # We've already seen and handled this key\n            continue\n\n        if fieldName.endswith(\"()\"):\n            fieldName = fieldName[:-2]\n            callit = True\n        else:\n            callit = False\n\n        field = aFormatter.get_field(fieldName, (), event)\n        fieldValue = field[0]\n\n" + _CONV_FIXED + "\n        if callit:\n            fieldValue = fieldValue()\n\n        flattenedValue = conversionFunction(fieldValue)\n        fields[flattenedKey] = flattenedValue\n        fields[structuredKey] = fieldValue\n",
           "        if flattenedKey not in fields:\n            callit = fieldName.endswith(\"()\")\n            fieldValue = aFormatter.get_field(fieldName[:-2] if callit else fieldName, (), event)[0]\n            if callit:\n                fieldValue = fieldValue()\n            fields[flattenedKey] = {\"r\": repr, \"a\": ascii}.get(conversion, str)(fieldValue)\n            fields[structuredKey] = fieldValue\n"),
    Silent("table-search-in-private-helper", JSON, _HOOK_OLD, _HOOK_NEW, more=[_hook_helper("saver")]),
    Silent("reader-writes-into-stringio", FLAT, "    s = []\n", "    out = StringIO()\n",
           more=[(FLAT, "        s.append(literalText)\n", "        out.write(literalText)\n"), (FLAT, "            s.append(str(fieldValues[key]))\n", "            out.write(str(fieldValues[key]))\n"),
                 (FLAT, "    return \"\".join(s)", "    return out.getvalue()"), (FLAT, "from collections import defaultdict\n", "from collections import defaultdict\nfrom io import StringIO\n")]),
    Silent("json-local-for-text", JSON, "    flattenEvent(event)\n    return dumps(event, default=default, skipkeys=True)", "    flattenEvent(event)\n    text = dumps(event, default=default, skipkeys=True)\n    return text"),
]
