"""C56 - Flattened and JSON-serialized log events format like the original."""
from __future__ import annotations

import ast

from sa.astx import NotConst, call_attr, call_name, const_eval, names_read, src, walk_local
from sa.selftest import Mutant, Silent
from sa.source import AnalysisError
from sa.props._lib_k import contains_node, eval_to

PROPERTY = "C56"
FLAT = "logger/_flatten.py"
JSON = "logger/_json.py"
FMT = "logger/_format.py"
TECHNIQUE = "finite evaluation of key normalisers, CFG ordering, concrete interpretation over event family"
EXPLANATION = (
    "Writer/reader agreement for flattened events, decided on the AST/CFG of flattenEvent, flatFormat, KeyFlattener.flatKey, "
    "eventAsJSON/eventFromJSON and _formatEvent: (a) the conversion code each side hands to flatKey (after flatKey's own "
    "normalisation) and the conversion function the writer applies are evaluated over the whole domain {None, s, r, a} and "
    "must coincide with each other and with str.format's semantics; (b) the format spec must be applied by one of the two sides; "
    "(c) both sides iterate aFormatter.parse(event['log_format']) with the same tuple layout, call flatKey exactly once per "
    "field in order with a fresh KeyFlattener created outside the loop, the key depends on all three components and is "
    "computed from the unstripped field name; (d) the writer calls `()` fields before converting and stores the converted "
    "text under the flattened key; (e) the reader emits literal-then-field joined by ''; (f) eventAsJSON flattens before "
    "dumps, the 'log_flattened' / '__class_uuid__' constants agree between writers, readers and the _formatEvent dispatch, dumps / loads "
    "receive only keyword arguments that make them more total (no allow_nan=False, parse_* hooks, dropped skipkeys); (g) flattenEvent, "
    "flatFormat, eventAsJSON and eventFromJSON are interpreted concretely over a family of 25 format strings (plain / !s / !r, repeated, "
    "called and uncalled references to the same name, attribute and index lookups, inf) and the text after flattening, flattening "
    "twice and the JSON round trip must equal the str.format-with-call text of the original event. "
    "Not decided: text equality for arbitrary values, fidelity of non-string values through JSON."
)
ASSUMPTIONS = [
    "string.Formatter.parse yields (literal_text, field_name, format_spec, conversion)",
    "format(value, '') == str(value) for the values in scope (default __format__)",
]
DOMAIN = [None, "s", "r", "a"]
EXPECT_FUNC = {None: "<str>", "s": "<str>", "r": "<repr>", "a": "<ascii>"}
FUNC_ENV = {"str": "<str>", "repr": "<repr>", "ascii": "<ascii>"}
QF = "twisted.logger._flatten."


def _parse_loop(ctx, func, qual):
    """The `for a, b, c, d in aFormatter.parse(event['log_format'])` loop of a function."""
    loops = [n for n in ast.walk(func) if isinstance(n, ast.For) and isinstance(n.iter, ast.Call) and call_attr(n.iter) == "parse"]
    ctx.need(len(loops) == 1, f"the single Formatter.parse loop of {qual}")
    lp = loops[0]
    ctx.need(isinstance(lp.target, (ast.Tuple, ast.List)) and len(lp.target.elts) == 4 and all(isinstance(e, ast.Name) for e in lp.target.elts),
             f"4-name unpacking of the parse tuple in {qual}")
    return lp, [e.id for e in lp.target.elts]


def _flatkey_calls(node):
    return [c for c in ast.walk(node) if isinstance(c, ast.Call) and call_attr(c) == "flatKey"]


def _norm_by_flatkey(ctx, flatkey, value):
    """flatKey's own normalisation of its conversion parameter, at the point where the key text is built."""
    conv = flatkey.args.args[3].arg
    fmt_calls = [c for c in ast.walk(flatkey) if isinstance(c, ast.Call) and call_attr(c) == "format"]
    ctx.need(fmt_calls, "the key template .format(...) call of flatKey")
    env = eval_to(flatkey.body, fmt_calls[0], {conv: value}, {conv}, "flatKey")
    if env is None:
        raise AnalysisError("flatKey: key construction not reached")
    kw = {k.arg: k.value for k in fmt_calls[0].keywords}
    expr = kw.get("conversion")
    if expr is None:
        return env[conv]
    try:
        return const_eval(expr, env)
    except NotConst as e:
        raise AnalysisError(f"flatKey: conversion component not evaluable: {e}")


def _structural(ctx):
    writer = ctx.func(FLAT, "flattenEvent")
    reader = ctx.func(FLAT, "flatFormat")
    flatkey = ctx.func(FLAT, "KeyFlattener.flatKey")
    ctx.need(len(flatkey.args.args) == 4, "flatKey(self, fieldName, formatSpec, conversion)")
    wl, wnames = _parse_loop(ctx, writer, "flattenEvent")
    rl, rnames = _parse_loop(ctx, reader, "flatFormat")

    # ---- (c) same iteration source, same tuple layout -------------------------------------------------------
    for q, lp in (("flattenEvent", wl), ("flatFormat", rl)):
        it = lp.iter
        ok = src(it.func.value) == "aFormatter" and len(it.args) == 1 and isinstance(it.args[0], ast.Subscript) \
            and isinstance(it.args[0].slice, ast.Constant) and it.args[0].slice.value == "log_format"
        ctx.check(ok, "parse/same-source", ctx.construct(QF + q, it),
                  "the field list is not obtained from aFormatter.parse(event['log_format']) (the two sides would walk different field sequences)")
    ctx.check(src(wl.iter) == src(rl.iter), "parse/same-source", QF + "flattenEvent|flatFormat",
              "writer and reader parse different expressions")

    # which flatKey call carries the conversion on each side
    def conv_calls(lp, names):
        out = []
        for c in _flatkey_calls(lp):
            if len(c.args) == 3 and not (isinstance(c.args[2], ast.Constant)):
                out.append(c)
        return out
    wcalls = conv_calls(wl, wnames)
    rcalls = conv_calls(rl, rnames)
    ctx.check(len(wcalls) == 1, "key/one-call-per-field", QF + "flattenEvent", f"{len(wcalls)} conversion-carrying flatKey calls per field in the writer (must be 1)")
    ctx.check(len(rcalls) == 1, "key/one-call-per-field", QF + "flatFormat", f"{len(rcalls)} conversion-carrying flatKey calls per field in the reader (must be 1)")
    if len(wcalls) != 1 or len(rcalls) != 1:
        return
    wc, rc = wcalls[0], rcalls[0]
    layout_ok = True
    for q, c, names, lp in (("flattenEvent", wc, wnames, wl), ("flatFormat", rc, rnames, rl)):
        ok = src(c.args[0]) == names[1] and src(c.args[1]) == names[2] and names_read(c.args[2]) <= {names[3]} and names[3] in names_read(c.args[2])
        if not ctx.check(ok, "key/tuple-layout", ctx.construct(QF + q, c),
                         "flatKey is not called with (field_name, format_spec, f(conversion)) taken from positions 1, 2, 3 of the parse tuple"):
            layout_ok = False
        # fresh flattener, created outside the loop
        recv = c.func.value
        ctx.need(isinstance(recv, ast.Name), f"flatKey receiver is a local name in {q}")
        f = writer if q == "flattenEvent" else reader
        creates = [st for st in ast.walk(f) if isinstance(st, ast.Assign) and any(isinstance(t, ast.Name) and t.id == recv.id for t in st.targets)]
        fresh = len(creates) == 1 and isinstance(creates[0].value, ast.Call) and call_name(creates[0].value) == "KeyFlattener" \
            and not contains_node(lp, creates[0])
        ctx.check(fresh, "key/fresh-flattener", QF + q + " | " + recv.id,
                  "the occurrence counters are not those of one fresh KeyFlattener per pass (created once, outside the field loop): "
                  "repeated fields get different /n suffixes on the two sides")
        # the key is computed from the unstripped field name: no assignment to the field-name variable may precede the call
        g = ctx.cfg(f)
        cids = g.ids_of(c)
        reassign = g.ids(lambda n: n.kind == "stmt" and isinstance(n.ast, (ast.Assign, ast.AugAssign)) and
                         any(isinstance(t, ast.Name) and t.id == names[1] for t in (n.ast.targets if isinstance(n.ast, ast.Assign) else [n.ast.target])))
        heads = g.ids_of(lp)
        bad = None
        for r in reassign:
            p = g.path([r], cids, avoid=heads, strict=True)
            if p:
                bad = p
        ctx.check(bad is None, "key/uses-unstripped-field-name", ctx.construct(QF + q, c),
                  "the field name is rewritten (e.g. '()' stripped) before the key is computed: '{x()}' gets different keys on the two sides",
                  witness=g.describe(bad))
        # exactly once per non-None field: a path around the loop that avoids the call must take the `field is None` exit
        head = heads[0] if heads else None
        ctx.need(head is not None, f"loop head of {q}")

        def is_none_edge(a, b, l, g=g, nm=names[1]):
            n = g.node(a)
            if n.kind != "test" or not isinstance(n.ast, ast.Compare) or len(n.ast.ops) != 1 or src(n.ast.left) != nm:
                return False
            if not (isinstance(n.ast.comparators[0], ast.Constant) and n.ast.comparators[0].value is None):
                return False
            return (isinstance(n.ast.ops[0], ast.Is) and l == "T") or (isinstance(n.ast.ops[0], ast.IsNot) and l == "F")
        first = [d for d, l in g.succ[head] if l == "iter"]
        p = g.path(first, [head], avoid=cids, edge_ok=lambda a, b, l: l != "exc" and not is_none_edge(a, b, l)) if first else None
        ctx.check(p is None, "key/one-call-per-field", ctx.construct(QF + q, c),
                  "a field with a name can be skipped without its flatKey call (occurrence counters of the two sides diverge)",
                  witness=g.describe(p))
        for cid in cids:
            ctx.check(not g.path([cid], cids, avoid=heads, strict=True), "key/one-call-per-field", ctx.construct(QF + q, c) + " | not repeated",
                      "flatKey can run twice for one field")

    if not layout_ok:
        return
    # ---- flatKey: key depends on all three components ----------------------------------------------------------
    fk_fmt = [c for c in ast.walk(flatkey) if isinstance(c, ast.Call) and call_attr(c) == "format" and isinstance(c.func.value, ast.Constant)]
    ctx.need(fk_fmt, "flatKey key template")
    tmpl = fk_fmt[0].func.value.value
    import string
    used = {f for _, f, _, _ in string.Formatter().parse(tmpl) if f}
    kw = {k.arg: k.value for k in fk_fmt[0].keywords}
    params = [a.arg for a in flatkey.args.args[1:]]
    for p_ in params:
        dep = any(p_ in names_read(v) for k, v in kw.items() if k in used)
        ctx.check(dep, "key/depends-on-component", f"{QF}KeyFlattener.flatKey | {p_}",
                  f"the flattened key does not depend on {p_}: two fields differing only in it share one stored value")

    # ---- (a) conversion agreement over the finite domain --------------------------------------------------------
    conv_w, conv_r = wnames[3], rnames[3]
    wstore = None
    # the writer's stored value: fields[<flattenedKey>] = <value>
    key_targets = [st for st in ast.walk(wl) if isinstance(st, ast.Assign) and len(st.targets) == 1 and isinstance(st.targets[0], ast.Name) and st.value is wc]
    ctx.need(key_targets, "assignment of the flattened key in flattenEvent")
    keyvar = key_targets[0].targets[0].id
    stores = [st for st in ast.walk(wl) if isinstance(st, ast.Assign) and len(st.targets) == 1 and isinstance(st.targets[0], ast.Subscript)
              and src(st.targets[0].slice) == keyvar]
    ctx.check(len(stores) == 1, "writer/stores-converted-text", QF + "flattenEvent | fields[flattenedKey]",
              f"{len(stores)} stores under the flattened key (must be exactly one)")
    if len(stores) != 1:
        return
    wstore = stores[0]
    # the converted value: either a call directly or a local assigned from a call
    conv_call = wstore.value
    if isinstance(conv_call, ast.Name):
        defs = [st for st in ast.walk(wl) if isinstance(st, ast.Assign) and any(isinstance(t, ast.Name) and t.id == conv_call.id for t in st.targets)]
        conv_call = defs[-1].value if defs else None
    is_call = isinstance(conv_call, ast.Call) and isinstance(conv_call.func, ast.Name) and len(conv_call.args) >= 1
    ctx.check(is_call, "writer/stores-converted-text", ctx.construct(QF + "flattenEvent", wstore),
              "the value stored under the flattened key is not the str/repr conversion of the field (raw objects do not survive JSON and "
              "format differently)")
    for v in DOMAIN:
        label = f"conversion={v!r}"
        env_w = eval_to(wl.body, wc, dict(FUNC_ENV, **{conv_w: v}), {conv_w}, "flattenEvent")
        env_r = eval_to(rl.body, rc, {conv_r: v}, {conv_r}, "flatFormat")
        if env_w is None or env_r is None:
            raise AnalysisError(f"C56: flatKey call not reached for {label}")
        try:
            kw_ = _norm_by_flatkey(ctx, flatkey, const_eval(wc.args[2], env_w))
            kr_ = _norm_by_flatkey(ctx, flatkey, const_eval(rc.args[2], env_r))
        except NotConst as e:
            raise AnalysisError(f"C56: conversion argument not evaluable: {e}")
        ctx.check(kw_ == kr_, "conversion/key-agreement", f"{QF}flattenEvent|flatFormat | {label}",
                  f"for a field written {{x{'!' + v if v else ''}}} the writer stores under conversion code {kw_!r} but the reader looks up {kr_!r}: KeyError, "
                  "the flattened event formats as 'Unable to format event ...'", detail=f"both sides use {kw_!r}")
        if is_call:
            tracked = {conv_w, conv_call.func.id}
            env_f = eval_to(wl.body, conv_call, dict(FUNC_ENV, **{conv_w: v}), tracked, "flattenEvent")
            if env_f is None:
                raise AnalysisError(f"C56: conversion call not reached for {label}")
            fn = env_f.get(conv_call.func.id)
            ctx.check(fn == EXPECT_FUNC[v], "conversion/function-agreement", f"{QF}flattenEvent | {label}",
                      f"str.format applies {EXPECT_FUNC[v]} for this conversion, the writer flattens with {fn}: the flattened text differs",
                      detail=f"{fn}")

    # ---- (b) the format spec is applied by one side ---------------------------------------------------------------
    g = ctx.cfg(reader)
    appends = [c for c in ast.walk(rl) if isinstance(c, ast.Call) and call_attr(c) == "append" and len(c.args) == 1]
    field_app = [c for c in appends if any(x is rc or (isinstance(x, ast.Name) and x.id in _assigned_from(rl, rc)) for x in ast.walk(c.args[0]))]
    lit_app = [c for c in appends if src(c.args[0]) == rnames[0]]
    ctx.check(len(field_app) == 1 and len(lit_app) == 1, "reader/emits-literal-then-field", QF + "flatFormat",
              "the reader does not append exactly one literal and one field value per parsed item")
    spec_r, spec_w = rnames[2], wnames[2]

    def applies_spec(expr, spec):
        return any(isinstance(x, ast.Call) and (call_attr(x) in ("format", "format_field", "__format__")) and
                   any(spec in names_read(a) for a in list(x.args) + [k.value for k in x.keywords]) for x in ast.walk(expr))
    applied = any(applies_spec(c.args[0], spec_r) for c in field_app) or (is_call and applies_spec(conv_call, spec_w))
    ctx.check(applied, "format-spec/applied", QF + "flattenEvent|flatFormat | <format spec of a field>",
              "neither the writer nor the reader applies the field's format spec (it only becomes part of the key): '{x:05d}' gives '00003' "
              "for the original event and '3' for the flattened one")

    # ---- (e) reader order and join ----------------------------------------------------------------------------------
    if len(field_app) == 1 and len(lit_app) == 1:
        fa, la = g.ids_of(field_app[0]), g.ids_of(lit_app[0])
        heads = g.ids_of(rl)
        starts = [h2 for h in heads for h2, l in g.succ[h] if l == "iter"]
        p = g.path([x for x in starts if x not in la], fa, avoid=set(la) | set(heads))
        ctx.check(p is None, "reader/emits-literal-then-field", ctx.construct(QF + "flatFormat", field_app[0]),
                  "a field value can be emitted before the literal text that precedes it", witness=g.describe(p))
        ctx.check(src(field_app[0].func.value) == src(lit_app[0].func.value), "reader/emits-literal-then-field",
                  QF + "flatFormat | same buffer", "literal text and field values go to different buffers")
        buf = src(field_app[0].func.value)
        rets = [n for n in ast.walk(reader) if isinstance(n, ast.Return) and n.value is not None]
        ok = any(isinstance(r.value, ast.Call) and call_attr(r.value) == "join" and isinstance(r.value.func.value, ast.Constant)
                 and r.value.func.value.value == "" and len(r.value.args) == 1 and src(r.value.args[0]) == buf for r in rets) and len(rets) == 1
        ctx.check(ok, "reader/joins-with-empty-separator", QF + "flatFormat | return",
                  "the pieces are not concatenated with the empty separator in order")
        # literal appended unconditionally in each iteration
        p = g.path([x for x in starts if x not in la], heads, avoid=la, edge_ok=lambda a, b, l: l != "exc")
        ctx.check(p is None, "reader/emits-literal-then-field", ctx.construct(QF + "flatFormat", lit_app[0]),
                  "an iteration can skip the literal text", witness=g.describe(p))
        # the looked-up mapping is event['log_flattened']
        look = [x for x in ast.walk(field_app[0].args[0]) if isinstance(x, ast.Subscript)]
        ctx.check(bool(look), "reader/reads-flattened-value", ctx.construct(QF + "flatFormat", field_app[0]),
                  "the emitted field is not looked up by its flattened key")

    # ---- (d) writer: call before convert --------------------------------------------------------------------------------
    gw = ctx.cfg(writer)
    if is_call:
        argname = src(conv_call.args[0])
        callsites = gw.ids(lambda n: n.kind == "stmt" and isinstance(n.ast, ast.Assign) and isinstance(n.ast.value, ast.Call)
                           and isinstance(n.ast.value.func, ast.Name) and n.ast.value.func.id == argname and not n.ast.value.args
                           and any(isinstance(t, ast.Name) and t.id == argname for t in n.ast.targets))
        ctx.check(bool(callsites), "writer/call-before-convert", QF + "flattenEvent | <call of '()' fields>",
                  "fields written '{x()}' are no longer called by the writer before being converted")
        cc = gw.ids_of(conv_call)
        heads = gw.ids_of(wl)
        for cs in callsites:
            p = gw.path(cc, [cs], avoid=heads, strict=True)
            ctx.check(p is None, "writer/call-before-convert", ctx.construct(QF + "flattenEvent", gw.node(cs).ast),
                      "the '()' call happens after the value was converted: the text of the callable itself is stored", witness=gw.describe(p))
            # the call is conditional on the '()' suffix test
            flags = {t.id for st in ast.walk(wl) if isinstance(st, ast.Assign) and isinstance(st.value, ast.Constant) and st.value.value is True
                     for t in st.targets if isinstance(t, ast.Name)}
            ctx.check(gw.guarded(cs, lambda e: src(e) in flags or "endswith('()')" in src(e), True), "writer/call-before-convert",
                      ctx.construct(QF + "flattenEvent", gw.node(cs).ast) + " | only for '()' fields", "the field is called although it was not written with '()'")
        # the converted value derives from get_field on the event
        gf = [c for c in ast.walk(wl) if isinstance(c, ast.Call) and call_attr(c) == "get_field"]
        ctx.check(len(gf) == 1 and len(gf[0].args) == 3 and src(gf[0].args[2]) == writer.args.args[0].arg, "writer/resolves-like-format",
                  QF + "flattenEvent | get_field", "the field is not resolved with Formatter.get_field against the event itself")
    # writer publishes the mapping under 'log_flattened'; reader and dispatcher read the same key
    pub = [st for st in ast.walk(writer) if isinstance(st, ast.Assign) and isinstance(st.targets[0], ast.Subscript)
           and isinstance(st.targets[0].slice, ast.Constant) and src(st.targets[0].value) == writer.args.args[0].arg]
    wkey = {st.targets[0].slice.value for st in pub}
    rkey = {x.slice.value for x in ast.walk(reader) if isinstance(x, ast.Subscript) and isinstance(x.slice, ast.Constant)
            and src(x.value) == reader.args.args[0].arg and x.slice.value != "log_format"}
    ctx.check(wkey == {"log_flattened"} and rkey == wkey, "flattened-key-constant", QF + "flattenEvent|flatFormat | 'log_flattened'",
              f"writer publishes under {sorted(wkey)} but the reader reads {sorted(rkey)}")
    if pub and wstore is not None:
        mapping = src(wstore.targets[0].value)
        pre = {tl for h in gw.ids_of(wl) for tl in gw.edge_guards(h)}
        ok = src(pub[0].value) == mapping and all(src(gw.node(t).ast) == mapping and lab == "T"
                                                  for n in gw.ids_of(pub[0]) for t, lab in gw.edge_guards(n) if (t, lab) not in pre)
        ctx.check(ok, "writer/publishes-fields", ctx.construct(QF + "flattenEvent", pub[0]),
                  "the mapping that received the flattened values is not the one attached to the event (or only under an unrelated condition)")



def _dispatch(ctx):
    fe = ctx.func(FMT, "_formatEvent")
    gf_ = ctx.cfg(fe)
    disp = gf_.find(lambda x: isinstance(x, ast.Call) and call_name(x) == "flatFormat")
    ctx.check(bool(disp), "dispatch/flattened-uses-flatFormat", "twisted.logger._format._formatEvent",
              "events carrying 'log_flattened' are no longer formatted from their flattened values (objects lost by JSON would be re-formatted)")
    for d in disp:
        ok = gf_.guarded(d, lambda e: src(e) == f"'log_flattened' in {fe.args.args[0].arg}", True)
        ctx.check(ok, "dispatch/flattened-uses-flatFormat", ctx.construct("twisted.logger._format._formatEvent", gf_.node(d).ast),
                  "flatFormat is not selected exactly by the presence of 'log_flattened'")
    others = gf_.find(lambda x: isinstance(x, ast.Call) and call_name(x) == "formatWithCall")
    for o in others:
        ok = gf_.guarded(o, lambda e: src(e) == f"'log_flattened' in {fe.args.args[0].arg}", False)
        ctx.check(ok, "dispatch/flattened-uses-flatFormat", ctx.construct("twisted.logger._format._formatEvent", gf_.node(o).ast),
                  "the live-object formatter can run for an event that carries flattened values")



def _json(ctx):
    ej = ctx.func(JSON, "eventAsJSON")
    gj = ctx.cfg(ej)
    fl = gj.find(lambda x: isinstance(x, ast.Call) and call_name(x) == "flattenEvent")
    du = gj.find(lambda x: isinstance(x, ast.Call) and call_name(x) in ("dumps", "json.dumps"))
    ctx.check(bool(du), "json/flatten-before-dumps", "twisted.logger._json.eventAsJSON", "eventAsJSON no longer serialises with dumps")
    w = gj.must_precede(fl, du) if du else None
    ctx.check(bool(fl) and w is None, "json/flatten-before-dumps", "twisted.logger._json.eventAsJSON | flattenEvent(event)",
              "the event is serialised without having been flattened first: objects are replaced by {'unpersistable': true} and the loaded "
              "event formats differently", witness=gj.describe(w))
    ev = ej.args.args[0].arg
    for n in fl:
        c = next(x for x in walk_local(gj.node(n).ast) if isinstance(x, ast.Call) and call_name(x) == "flattenEvent")
        ctx.check(len(c.args) == 1 and src(c.args[0]) == ev, "json/flatten-before-dumps", ctx.construct("twisted.logger._json.eventAsJSON", c),
                  "a different object than the serialised event is flattened")
    for n in du:
        c = next(x for x in walk_local(gj.node(n).ast) if isinstance(x, ast.Call) and call_name(x) in ("dumps", "json.dumps"))
        kws = {k.arg: k.value for k in c.keywords}
        ctx.check(len(c.args) >= 1 and src(c.args[0]) == ev and "default" in kws, "json/dumps-arguments", ctx.construct("twisted.logger._json.eventAsJSON", c),
                  "dumps does not serialise the flattened event with the fallback encoder")
        _kwargs_total(ctx, "twisted.logger._json.eventAsJSON", c, _DUMPS_OK, _DUMPS_BAD, required={"skipkeys": True})
    lj = ctx.func(JSON, "eventFromJSON")
    lo = [c for c in ast.walk(lj) if isinstance(c, ast.Call) and call_name(c) in ("loads", "json.loads")]
    ctx.check(len(lo) == 1 and src(lo[0].args[0]) == lj.args.args[0].arg, "json/loads", "twisted.logger._json.eventFromJSON",
              "eventFromJSON does not load the given text")
    for c in lo:
        _kwargs_total(ctx, "twisted.logger._json.eventFromJSON", c, _LOADS_OK, _LOADS_BAD, required={})
    # class-uuid marker agreement
    sv = ctx.func(JSON, "objectSaveHook")
    ld = ctx.func(JSON, "objectLoadHook")
    wk = {st.targets[0].slice.value for st in ast.walk(sv) if isinstance(st, ast.Assign) and isinstance(st.targets[0], ast.Subscript)
          and isinstance(st.targets[0].slice, ast.Constant)}
    rk = {x.slice.value for x in ast.walk(ld) if isinstance(x, ast.Subscript) and isinstance(x.slice, ast.Constant)}
    rk |= {x.left.value for x in ast.walk(ld) if isinstance(x, ast.Compare) and isinstance(x.left, ast.Constant) and isinstance(x.ops[0], ast.In)}
    ctx.check(len(wk) == 1 and rk == wk, "json/class-marker-agreement", "twisted.logger._json.objectSaveHook|objectLoadHook",
              f"saver marks objects with {sorted(wk)} but the loader looks for {sorted(rk)}")
    table = ctx.mod(JSON).module_assign("classInfo")
    ctx.need(isinstance(table, ast.List), "classInfo table")
    uu = []
    for row in table.elts:
        ok = isinstance(row, ast.Tuple) and len(row.elts) == 4 and isinstance(row.elts[1], ast.Call) and call_name(row.elts[1]) == "UUID"
        ctx.check(ok, "json/class-table-row", ctx.construct("twisted.logger._json.classInfo", row.elts[1] if ok else row),
                  "classInfo row is not (predicate, UUID, saver, loader)")
        if ok:
            uu.append(src(row.elts[1]).upper())
    ctx.check(len(set(uu)) == len(uu), "json/class-table-row", "twisted.logger._json.classInfo | distinct uuids", "two classInfo rows share a UUID")
    ctx.floor("json/class-table-row", len(table.elts), 2, "rows")


# keyword arguments of json.dumps / json.loads: only those that make the (de)serialisation *more* total are acceptable
_DUMPS_OK = {"default", "skipkeys", "ensure_ascii", "sort_keys", "separators", "indent"}
_DUMPS_BAD = {"allow_nan": True, "check_circular": True}          # harmless only with this constant value (the default)
_LOADS_OK = {"object_hook", "strict"}
_LOADS_BAD = {"parse_float": None, "parse_int": None, "parse_constant": None, "object_pairs_hook": None}


def _kwargs_total(ctx, qual, call, ok, bad, required):
    for k in call.keywords:
        if k.arg is None:
            raise AnalysisError(f"{qual}: **kwargs in {src(call)[:60]}")
        c = ctx.construct(qual, call.func) + f" | {k.arg}="
        if k.arg in required:
            v = k.value.value if isinstance(k.value, ast.Constant) else "?"
            ctx.check(v == required[k.arg], "json/serialisation-total", c, f"{k.arg}={src(k.value)}: events with keys json cannot encode make serialisation raise")
        elif k.arg in ok:
            ctx.ok("json/serialisation-total", c)
        elif k.arg in bad:
            harmless = bad[k.arg] is not None and isinstance(k.value, ast.Constant) and k.value.value == bad[k.arg]
            ctx.check(harmless, "json/serialisation-total", c,
                      f"{k.arg}={src(k.value)} makes the JSON round trip raise or alter values json handles by default (e.g. inf/nan, numbers): the loaded "
                      "event no longer formats like the original")
        else:
            raise AnalysisError(f"{qual}: keyword {k.arg} of {src(call.func)} is not classified")
    for k, v in required.items():
        if k not in {x.arg for x in call.keywords}:
            ctx.violation("json/serialisation-total", ctx.construct(qual, call.func) + f" | {k}=", f"{k}={v} was dropped: serialisation is less total than before")


# ---- concrete evaluation of flatten -> format (-> JSON -> format) over a finite family of events -----------------------------
class _V:
    def __init__(self, tag):
        self.tag = tag

    def __str__(self):
        return f"<{self.tag}>"

    def __repr__(self):
        return f"V({self.tag!r})"


class _F(_V):
    def __call__(self):
        return _V(self.tag + "()")


class _H(_V):
    def __init__(self, tag):
        super().__init__(tag)
        self.inner = _V(tag + ".inner")
        self.table = {"k": _V(tag + ".table[k]")}
        self.fn = _F(tag + ".fn")


FAMILY = ["plain text", "", "{x}", "{x!s}", "{x!r}", "{x} and {x}", "{x!r} {x!s} {x}", "{x}{y}", "{{braces}} {x}", "{n} items", "{s!r}",
          "ratio={ratio}", "{u}", "{f()}", "{f}", "{f} -> {f()}", "{f()} -> {f}", "{f()!r} {f()}", "{f!r} {f()!r}", "{h.inner}", "{h.inner!r} {h.inner}",
          "{h.table[k]}", "{h.fn()}", "{h.fn} {h.fn()}", "tail {y} end", "{routes[1].fn()}", "{routes[0].inner} {routes[1].table[k]!r}",
          "{h.table[k].fn()}", "{routes[0].fn().tag}", "state={state}", "{state!r} at {level}", "{seq}"]


class _NamedConstant:
    """Model of constantly.NamedConstant."""

    def __init__(self, container, name):
        self._container, self.name = container, name

    def __repr__(self):
        return f"<{self._container}={self.name}>"


class _InvalidLogLevelError(Exception):
    pass


class _LogLevelModel:
    """Model of twisted.logger.LogLevel (constantly.Names API: lookupByName raises ValueError, levelWithName
    raises InvalidLogLevelError, iterconstants)."""

    def __init__(self):
        for n in ("debug", "info", "warn", "error", "critical"):
            setattr(self, n, _NamedConstant("LogLevel", n))

    def iterconstants(self):
        return iter([self.debug, self.info, self.warn, self.error, self.critical])

    def lookupByName(self, name):
        if name in ("debug", "info", "warn", "error", "critical"):
            return getattr(self, name)
        raise ValueError(name)

    def levelWithName(self, name):
        try:
            return self.lookupByName(name)
        except ValueError:
            raise _InvalidLogLevelError(name)


_LEVELS = _LogLevelModel()


def _values():
    h = _H("h")
    h.table["k"] = _H("h.table[k]")
    return {"x": _V("x"), "y": _V("y"), "n": 3, "s": "text", "ratio": float("inf"), "u": "\xe9", "f": _F("f"), "h": h,
            "routes": [_H("r0"), _H("r1")], "state": _NamedConstant("ConnState", "established"), "level": _LEVELS.info,
            "seq": [1, _NamedConstant("ConnState", "closing"), "z"]}


def _resolve(field, values):
    """A field path with the call syntax of twisted.logger: every dotted segment (and the first name) may end in '()'."""
    import _string
    first, rest = _string.formatter_field_name_split(field)

    def step(getter, name):
        callit = isinstance(name, str) and name.endswith("()")
        v = getter(name[:-2] if callit else name)
        return v() if callit else v
    obj = step(values.__getitem__, first)
    for is_attr, i in rest:
        if is_attr:
            obj = step(lambda nm, o=obj: getattr(o, nm), i)
        else:
            obj = obj[i]
    return obj


def _expected(fmt, values):
    import string
    out = []
    for lit, field, spec, conv in string.Formatter().parse(fmt):
        out.append(lit)
        if field is None:
            continue
        obj = _resolve(field, values)
        obj = {None: lambda v: v, "s": str, "r": repr, "a": ascii}[conv](obj)
        out.append(format(obj, spec or ""))
    return "".join(out)


def _concrete(ctx):
    import collections
    import json
    import string
    import typing
    import uuid
    from sa.props._lib_k import Interp, Nonterminating
    fl, js, fm = ctx.mod(FLAT), ctx.mod(JSON), ctx.mod(FMT)
    fa = type("Failure", (), {})

    def safe_repr(o):
        try:
            return repr(o)
        except BaseException:
            return "<unrepresentable>"
    it = Interp({"aFormatter": string.Formatter(), "Formatter": string.Formatter, "defaultdict": collections.defaultdict, "dumps": json.dumps,
                 "loads": json.loads, "UUID": uuid.UUID, "NamedConstant": _NamedConstant, "Failure": fa, "LogLevel": _LEVELS,
                 "InvalidLogLevelError": _InvalidLogLevelError, "safe_repr": safe_repr,
                 "JSONDict": dict, "LogEvent": dict, "Dict": typing.Dict, "Any": typing.Any, "Optional": typing.Optional, "Union": typing.Union,
                 "Mapping": typing.Mapping}, budget=4000000)
    it.load(fl)
    it.load(js, only={"eventAsJSON", "eventFromJSON", "objectSaveHook", "objectLoadHook", "failureAsJSON", "failureFromJSON"})
    it.load(fm, only={"_formatEvent", "formatWithCall", "formatUnformattableEvent", "keycall", "PotentialCallWrapper", "CallMapping"})
    for name in ("flattenEvent", "flatFormat", "eventAsJSON", "eventFromJSON", "_formatEvent", "formatWithCall"):
        ctx.need(name in it.globals, f"function {name}")
    for name in ("classInfo", "uuidToLoader"):
        expr = js.module_assign(name)
        if expr is not None:
            it.globals[name] = it.ev(expr, [])
    G = it.globals

    def text_of(event):
        return G["_formatEvent"](event)   # the real dispatcher: flatFormat for flattened events, formatWithCall otherwise

    def guarded(fn):
        try:
            return fn()
        except Nonterminating:
            return "<does not terminate>"
        except AnalysisError:
            raise
        except Exception as e:
            return f"<raises {type(e).__name__}: {str(e)[:60]}>"
    for fmt in FAMILY:
        want = _expected(fmt, _values())
        e1 = dict(_values(), log_format=fmt)

        def stage0():
            return text_of(dict(_values(), log_format=fmt))

        def stage1():
            G["flattenEvent"](e1)
            return text_of(e1)

        def stage2():
            G["flattenEvent"](e1)
            return text_of(e1)

        def stage3():
            e3 = dict(_values(), log_format=fmt)
            return text_of(G["eventFromJSON"](G["eventAsJSON"](e3)))
        bad = None
        for label, fn in (("the original event (live formatter)", stage0), ("after flattenEvent", stage1), ("after flattening twice", stage2),
                          ("after eventAsJSON/eventFromJSON", stage3)):
            got = guarded(fn)
            if got != want and bad is None:
                bad = (label, got)
        ctx.check(bad is None, "roundtrip/concrete-family", f"{QF}flattenEvent|flatFormat | {fmt!r}",
                  (f"{bad[0]} formats as {bad[1]!r}; str.format with call syntax gives {want!r} - original, flattened and JSON-loaded text must coincide" if bad else ""),
                  detail=f"all four stages give {want!r}")
    ctx.floor("roundtrip/concrete-family", len(FAMILY), 20, "format strings")


def _encoder_total(ctx):
    """The fallback encoder (eventAsJSON.default -> objectSaveHook -> classInfo predicates / savers) is applied to arbitrary
    objects reachable from the event: nothing in it may raise (exception-escape analysis, isinstance narrowing)."""
    from sa.props._lib_k import HOSTILE, TYPED, EscapeAnalysis
    js = ctx.mod(JSON)
    sv = ctx.func(JSON, "objectSaveHook")
    table = js.module_assign("classInfo")
    ctx.need(isinstance(table, ast.List), "classInfo table")
    an = EscapeAnalysis(ctx, [JSON])
    param = sv.args.args[0].arg
    loops = [n for n in ast.walk(sv) if isinstance(n, ast.For) and isinstance(n.iter, ast.Name) and n.iter.id == "classInfo" and isinstance(n.target, ast.Tuple)]
    ctx.need(len(loops) == 1, "the loop over classInfo in objectSaveHook")
    lp = loops[0]
    tests = {c.func.id for st in ast.walk(lp) if isinstance(st, ast.If) for c in ast.walk(st.test) if isinstance(c, ast.Call) and isinstance(c.func, ast.Name)}
    analysed = []
    for pos, t in enumerate(lp.target.elts):
        if not isinstance(t, ast.Name):
            continue
        used = any(isinstance(c, ast.Call) and isinstance(c.func, ast.Name) and c.func.id == t.id for c in ast.walk(lp))
        if not used:
            continue
        fns = []
        for i, row in enumerate(table.elts):
            if not (isinstance(row, ast.Tuple) and len(row.elts) == len(lp.target.elts)):
                raise AnalysisError("classInfo row does not match the unpacking in objectSaveHook")
            el = row.elts[pos]
            if isinstance(el, ast.Lambda):
                fd = ast.FunctionDef(name=f"classInfo[{i}].{t.id}", args=el.args, body=[ast.Return(value=el.body)], decorator_list=[], lineno=el.lineno, col_offset=0)
                fd._parent = js.tree
                fd.body[0]._parent = fd
                fns.append(fd)
            elif isinstance(el, ast.Name) and isinstance(js.find(el.id), ast.FunctionDef):
                fns.append(js.find(el.id))
            else:
                raise AnalysisError(f"classInfo[{i}][{pos}] is applied to event objects but is not a lambda / module function")
        an.table_funcs[t.id] = [(fn, HOSTILE if t.id in tests else TYPED) for fn in fns]
        analysed += [fn.name for fn in fns]
    an.run(JSON, "objectSaveHook", {param: HOSTILE})
    dflt = ctx.func(JSON, "eventAsJSON.default")
    an.analyse(JSON, dflt, {dflt.args.args[0].arg: HOSTILE}, "none")
    flagged = set()
    for st in sorted(an.sites.values(), key=lambda x: (x.node.lineno, x.op)):
        if st.level == "all":
            continue
        flagged.add(st.qual)
        ctx.violation("json/encoder-total", ctx.construct(f"twisted.logger._json.{st.qual}", st.node),
                      f"{st.why}: the JSON fallback encoder is applied to every object json cannot encode, so eventAsJSON raises for such an event "
                      "instead of producing text that formats like the original")
    for q in ["objectSaveHook", "eventAsJSON.default"] + analysed:
        if q not in flagged:
            ctx.ok("json/encoder-total", f"twisted.logger._json.{q}", "no may-raise operation on an arbitrary object")
    ctx.floor("json/encoder-total", len(analysed), 3, "table callables")


def check(ctx):
    with ctx.section("flatten/format structure"):
        _structural(ctx)
    with ctx.section("_formatEvent dispatch"):
        _dispatch(ctx)
    with ctx.section("JSON"):
        _json(ctx)
    with ctx.section("JSON fallback encoder"):
        _encoder_total(ctx)
    with ctx.section("concrete family"):
        _concrete(ctx)


def _assigned_from(loop, call):
    return {t.id for st in ast.walk(loop) if isinstance(st, ast.Assign) and st.value is call for t in st.targets if isinstance(t, ast.Name)}


# a per-call memo of resolved fields in flattenEvent (one keyed wrongly = mutant, one keyed properly = silent variant)
_M_DECL = (FLAT, "    keyFlattener = KeyFlattener()\n\n    for literalText, fieldName, formatSpec, conversion in aFormatter.parse(\n        event[\"log_format\"]\n    ):\n        if fieldName is None:",
           "    keyFlattener = KeyFlattener()\n    lookedUp = {}\n\n    for literalText, fieldName, formatSpec, conversion in aFormatter.parse(\n        event[\"log_format\"]\n    ):\n        if fieldName is None:")
_M_OLD = ("        field = aFormatter.get_field(fieldName, (), event)\n        fieldValue = field[0]\n\n        if conversion == \"r\":\n            conversionFunction = repr\n"
          "        else:  # Above: if conversion is not \"r\", it's \"s\"\n            conversionFunction = str\n\n        if callit:\n            fieldValue = fieldValue()\n\n")


def _memo(keyexpr):
    return (f"        memoKey = {keyexpr}\n        if memoKey in lookedUp:\n            fieldValue = lookedUp[memoKey]\n        else:\n"
            "            fieldValue = aFormatter.get_field(fieldName, (), event)[0]\n            if callit:\n                fieldValue = fieldValue()\n"
            "            lookedUp[memoKey] = fieldValue\n\n        if conversion == \"r\":\n            conversionFunction = repr\n        else:\n            conversionFunction = str\n\n")


MUTANTS = [
    Mutant("reader-default-conversion-empty", FLAT, "conversion or \"s\")", "conversion or \"\")", expect_rule="conversion/key-agreement"),
    Mutant("writer-normalisation-dropped", FLAT, "        if conversion != \"r\":\n            conversion = \"s\"\n\n        flattenedKey", "        flattenedKey",
           expect_rule="conversion/key-agreement"),
    Mutant("writer-conversion-functions-swapped", FLAT, "            conversionFunction = repr\n        else:  # Above: if conversion is not \"r\", it's \"s\"\n            conversionFunction = str\n",
           "            conversionFunction = str\n        else:\n            conversionFunction = repr\n", expect_rule="conversion/function-agreement"),
    Mutant("key-ignores-conversion", FLAT, "\"{fieldName}!{conversion}:{formatSpec}\".format(", "\"{fieldName}!:{formatSpec}\".format(", expect_rule="key/depends-on-component"),
    Mutant("convert-before-call", FLAT, "        if callit:\n            fieldValue = fieldValue()\n\n        flattenedValue = conversionFunction(fieldValue)\n",
           "        flattenedValue = conversionFunction(fieldValue)\n        if callit:\n            fieldValue = fieldValue()\n", expect_rule="writer/call-before-convert"),
    Mutant("store-raw-value", FLAT, "        fields[flattenedKey] = flattenedValue\n", "        fields[flattenedKey] = fieldValue\n", expect_rule="writer/stores-converted-text"),
    Mutant("strip-parens-before-key", FLAT, "        flattenedKey = keyFlattener.flatKey(fieldName, formatSpec, conversion)\n        structuredKey = keyFlattener.flatKey(fieldName, formatSpec, \"\")\n\n        if flattenedKey in fields:\n            # We've already seen and handled this key\n            continue\n\n        if fieldName.endswith(\"()\"):\n            fieldName = fieldName[:-2]\n            callit = True\n        else:\n            callit = False\n",
           "        if fieldName.endswith(\"()\"):\n            fieldName = fieldName[:-2]\n            callit = True\n        else:\n            callit = False\n        flattenedKey = keyFlattener.flatKey(fieldName, formatSpec, conversion)\n        structuredKey = keyFlattener.flatKey(fieldName, formatSpec, \"\")\n\n        if flattenedKey in fields:\n            continue\n",
           expect_rule="key/uses-unstripped-field-name"),
    Mutant("memo-keyed-by-stripped-field-name", FLAT, _M_OLD, _memo("fieldName"), more=[_M_DECL], expect_rule="roundtrip/concrete-family"),
    Mutant("dumps-rejects-nan-and-inf", JSON, "dumps(event, default=default, skipkeys=True)", "dumps(event, default=default, skipkeys=True, allow_nan=False)",
           expect_rule="json/serialisation-total"),
    Mutant("dumps-without-skipkeys", JSON, "dumps(event, default=default, skipkeys=True)", "dumps(event, default=default)", expect_rule="json/serialisation-total"),
    Mutant("loads-maps-constants", JSON, "loads(eventText, object_hook=objectLoadHook)", "loads(eventText, object_hook=objectLoadHook, parse_constant=lambda name: None)",
           expect_rule="json/serialisation-total"),
    Mutant("structured-key-call-skipped-when-seen", FLAT, "        flattenedKey = keyFlattener.flatKey(fieldName, formatSpec, conversion)\n        structuredKey = keyFlattener.flatKey(fieldName, formatSpec, \"\")\n\n        if flattenedKey in fields:\n            # We've already seen and handled this key\n            continue\n",
           "        flattenedKey = keyFlattener.flatKey(fieldName, formatSpec, conversion)\n        if fieldName + \"!s:\" in fields and conversion == \"s\":\n            flattenedKey = fieldName + \"!s:\"\n        structuredKey = keyFlattener.flatKey(fieldName, formatSpec, \"\")\n\n        if flattenedKey in fields:\n            continue\n",
           expect_rule="roundtrip/concrete-family"),
    Mutant("level-predicate-uses-raising-lookup", JSON, "            and getattr(LogLevel, level.name, None) is level\n", "            and LogLevel.lookupByName(level.name) is level\n",
           expect_rule="json/encoder-total"),
    Mutant("level-predicate-without-type-test", JSON, "            isinstance(level, NamedConstant)\n            and getattr(LogLevel, level.name, None) is level\n",
           "            getattr(LogLevel, level.name, None) is level\n", expect_rule="json/encoder-total"),
    Mutant("default-decodes-bytes-as-utf8", JSON, "            return unencodable.decode(\"charmap\")", "            return unencodable.decode(\"utf-8\")", expect_rule="json/encoder-total"),
    Mutant("indexed-element-not-rewrapped", FMT, "        value = self._wrapped[name]  # type:ignore[index]\n        return PotentialCallWrapper(value)\n",
           "        value = self._wrapped[name]  # type:ignore[index]\n        return value\n", expect_rule="roundtrip/concrete-family"),
    Mutant("call-wrapper-str-is-repr", FMT, "    def __str__(self) -> str:\n        return str(self._wrapped)\n", "    def __str__(self) -> str:\n        return repr(self._wrapped)\n",
           expect_rule="roundtrip/concrete-family"),
    Mutant("keycall-calls-before-lookup-strip", FMT, "    realKey = key[:-2] if callit else key\n", "    realKey = key[:-1] if callit else key\n", expect_rule="roundtrip/concrete-family"),
    Mutant("json-without-flatten", JSON, "    flattenEvent(event)\n    return dumps(", "    return dumps(", expect_rule="json/flatten-before-dumps"),
    Mutant("reader-joins-with-space", FLAT, "    return \"\".join(s)", "    return \" \".join(s)", expect_rule="reader/joins-with-empty-separator"),
    Mutant("reader-field-before-literal", FLAT, "        s.append(literalText)\n\n        if fieldName is not None:\n            key = keyFlattener.flatKey(fieldName, formatSpec, conversion or \"s\")\n            s.append(str(fieldValues[key]))\n",
           "        if fieldName is not None:\n            key = keyFlattener.flatKey(fieldName, formatSpec, conversion or \"s\")\n            s.append(str(fieldValues[key]))\n        s.append(literalText)\n",
           expect_rule="reader/emits-literal-then-field"),
    Mutant("reader-swaps-spec-and-conversion", FLAT, "    for literalText, fieldName, formatSpec, conversion in aFormatter.parse(\n        event[\"log_format\"]\n    ):\n        s.append",
           "    for literalText, fieldName, conversion, formatSpec in aFormatter.parse(\n        event[\"log_format\"]\n    ):\n        s.append", expect_rule="key/tuple-layout"),
    Mutant("reader-flattener-per-field", FLAT, "    keyFlattener = KeyFlattener()\n    s = []\n", "    s = []\n",
           more=[(FLAT, "        if fieldName is not None:\n            key = keyFlattener", "        if fieldName is not None:\n            keyFlattener = KeyFlattener()\n            key = keyFlattener")],
           expect_rule="key/fresh-flattener"),
    Mutant("dispatch-dropped", FMT, "        if \"log_flattened\" in event:\n            return flatFormat(event)\n\n", "", expect_rule="dispatch/flattened-uses-flatFormat"),
    Mutant("seen-check-before-key", FLAT, "        if fieldName is None:\n            continue\n\n        if conversion != \"r\":",
           "        if fieldName is None or fieldName in event.get(\"log_flattened\", ()):\n            continue\n\n        if conversion != \"r\":", expect_rule="key/one-call-per-field"),
]
SILENT = [
    Silent("writer-branch-inverted", FLAT, "        if conversion == \"r\":\n            conversionFunction = repr\n        else:  # Above: if conversion is not \"r\", it's \"s\"\n            conversionFunction = str\n",
           "        if conversion != \"r\":\n            conversionFunction = str\n        else:\n            conversionFunction = repr\n"),
    Silent("reader-renamed-locals", FLAT, "    for literalText, fieldName, formatSpec, conversion in aFormatter.parse(\n        event[\"log_format\"]\n    ):\n        s.append(literalText)\n\n        if fieldName is not None:\n            key = keyFlattener.flatKey(fieldName, formatSpec, conversion or \"s\")\n            s.append(str(fieldValues[key]))\n",
           "    for lit, name, spec, conv in aFormatter.parse(\n        event[\"log_format\"]\n    ):\n        s.append(lit)\n        if name is None:\n            continue\n        key = keyFlattener.flatKey(name, spec, conv or \"s\")\n        s.append(str(fieldValues[key]))\n"),
    Silent("flatkey-suffix-test", FLAT, "        if n != 1:\n", "        if n > 1:\n"),
    Silent("memo-keyed-by-name-and-call-flag", FLAT, _M_OLD, _memo("(fieldName, callit)"), more=[_M_DECL]),
    Silent("memo-keyed-by-flattened-key", FLAT, _M_OLD, _memo("flattenedKey"), more=[_M_DECL]),
    Silent("dumps-keeps-unicode", JSON, "dumps(event, default=default, skipkeys=True)", "dumps(event, default=default, skipkeys=True, ensure_ascii=False, allow_nan=True)"),
    Silent("indexed-element-rewrapped-inline", FMT, "        value = self._wrapped[name]  # type:ignore[index]\n        return PotentialCallWrapper(value)\n",
           "        return PotentialCallWrapper(self._wrapped[name])\n"),
    Silent("level-predicate-by-membership", JSON, "            and getattr(LogLevel, level.name, None) is level\n", "            and any(level is c for c in LogLevel.iterconstants())\n"),
    Silent("json-local-for-text", JSON, "    flattenEvent(event)\n    return dumps(event, default=default, skipkeys=True)", "    flattenEvent(event)\n    text = dumps(event, default=default, skipkeys=True)\n    return text"),
]
