"""C42 - IMAP4 client parses what the IMAP4 server serialises (quoted strings, literals, NIL, nesting)."""
from __future__ import annotations

import ast

from sa.astx import call_attr, call_name, src
from sa.selftest import Mutant, Silent
from sa.source import AnalysisError, class_assigns
from sa.props._lib_i import sect, COMPAT, Abstain, BlockRaised, FollowModule, NotPure, domain_argument, kinded, structural, Raised, eval_block, interp, peval, words

PROPERTY = "C42"
RULE_KINDS = {
    "reader-table/": "structural",                       # transformer table of collapseStrings + call graph to the tokenizer
    "quote/writer-semantics": "finite-exhaustive",       # character-wise rewrite (premise checked) over the complete class alphabet
    "quote/writer-semantics (bounded)": "bounded",
    "reader/paren-transitions": "finite-exhaustive",     # (in-quote state) x (unit class) table of the scanning loop, premise checked
    "reader/paren-transitions (bounded)": "bounded",
    "reader/undoes-quoting": "finite-exhaustive",        # tokenizer decisions read the unit, its predecessor and two flags (premise checked)
    "literal/needs-literal": "bounded", "writer/item-forms": "bounded", "reader/atoms-and-nil": "bounded", "reader/literal-bypasses-tokenizer": "bounded",
    "roundtrip/": "bounded",
}
IMAP = "mail/imap4.py"
BASIC = "protocols/basic.py"
TECHNIQUE = "table/call-graph rule on collapseStrings; finite-exhaustive class enumeration; bounded round trips"
EXPLANATION = (
    'STRUCTURAL: in collapseStrings the transformer that the predicate selects for literal tuples does not reach the tokeni'
    'zer in the call graph and the one for plain units does. FINITE-EXHAUSTIVE (premises checked on the code): _quote only '
    'applies single-unit .replace() rewrites, so payloads over {backslash, quote, other}^<=4 are complete (escape unit firs'
    't, then the quote); the scanning loop of parseNestedParens decides on (in-quote flag) x (unit class) by comparison wit'
    'h constants - every cell of that table incl. literals framed as the writer frames them (payloads beginning with CR / L'
    'F); splitQuoted decides on the unit, its predecessor and two flags - every writer output for payloads <= 3 over the cl'
    'ass alphabet: escaped quotes are undone, the doubled escape unit is not collapsed (known finding F42, two constructs).'
    ' In splitQuoted / parseNestedParens an enumerate index counted along a front-stripped, front-cut or rewritten copy never subscripts the original text, and no count / find / split / in-test looks for a list delimiter in the whole raw input. BOUNDED only: the whole reader on writer output with quote- and delimiter-carrying strings and literals at every position class of a list {first, after atom, quoted string, nested list, literal}; _needsLiteral on strings over {CR, LF, other}^<=3, one collapseNestedLists call per item kind and posit'
    'ion (kinds beyond None/int/bytes/list are application objects), atoms / NIL, collapseStrings and the whole reader on e'
    'numerated structures - structure equality over all nested inputs is an infinite domain.'
)
ASSUMPTIONS = [
    "_matchingString / iterbytes / networkString behave as documented in twisted.python.compat (modelled)",
    "IMAP4Server.delimiter is the LineReceiver default unless overridden in imap4.py (resolved statically)",
]

ESC, QU = b"\\", b'"'


def ref_quote(p: bytes) -> bytes:
    return QU + p.replace(ESC, ESC + ESC).replace(QU, ESC + QU) + QU


def ref_item(x, delim: bytes) -> bytes:
    if x is None:
        return b"NIL"
    if isinstance(x, int):
        return str(x).encode("ascii")
    if isinstance(x, bytes):
        if b"\r" in x or b"\n" in x or len(x) > 1000:
            return b"{%d}" % len(x) + delim + x
        return ref_quote(x)
    return b"(" + b" ".join(ref_item(y, delim) for y in x) + b")"


class _DontQuoteMe:
    pass


def _delimiter(ctx):
    c = ctx.cls(IMAP, "IMAP4Server")
    if "delimiter" in class_assigns(c):
        return peval(class_assigns(c)["delimiter"], {})
    ctx.need(any(src(b).endswith("LineReceiver") for b in c.bases), "IMAP4Server derives from LineReceiver")
    base = ctx.cls(BASIC, "LineReceiver")
    ctx.need("delimiter" in class_assigns(base), "LineReceiver.delimiter")
    return peval(class_assigns(base)["delimiter"], {})


def _call(fn, *args):
    """(value, None) or (None, description of the exception raised by the evaluated repository function)."""
    try:
        return fn(*args), None
    except Raised as e:
        return None, str(e)
    except BlockRaised as e:
        return None, repr(e.exc)


def check(ctx):
    mod = ctx.mod(IMAP)
    delim = _delimiter(ctx)
    env0 = {"string.whitespace": " \t\n\r\x0b\x0c", "DontQuoteMe": _DontQuoteMe, "IMAP4Server.delimiter": delim}
    funcs = FollowModule(mod, dict(COMPAT), env0)       # explicit models + every other module-level helper of imap4.py, interpreted on demand
    funcs["hasattr"] = lambda o, n: hasattr(o, n)

    # ---- writer: _quote ------------------------------------------------------------------------------------
    with sect(ctx, 'writer: _quote'):
        fq = ctx.func(IMAP, "_quote")
        quote = interp(fq, funcs, env0)
        q = "twisted.mail.imap4._quote"
        bad = None
        n = 0
        for w in words((ESC, QU, b"a"), 4):
            p = b"".join(w)
            got, err = _call(quote, p)
            n += 1
            if got != ref_quote(p):
                bad = (p, got if err is None else err)
                break
        meths = {call_attr(c) for c in ast.walk(fq) if isinstance(c, ast.Call) and isinstance(c.func, ast.Attribute)}
        ex_q = meths <= {"replace"} and not any(isinstance(x, (ast.While, ast.If)) for x in ast.walk(fq))
        why_q = ("_quote only applies .replace() rewrites of single units: it acts character-wise, so words over {backslash, quote, other} are a complete domain"
                 if ex_q else "_quote is not a plain sequence of single-unit rewrites: bounded evidence")
        ctx.check(bad is None, kinded("quote/writer-semantics", ex_q), q,
                  bad and f"_quote({bad[0]!r}) gives {bad[1]!r}; an RFC 3501 quoted string needs {ref_quote(bad[0])!r} (escape the backslash first, then the quote)",
                  detail=f"{n} payloads over {{\\\\, \", a}}^<=4; " + why_q)
        funcs["_quote"] = quote

    # ---- writer: _needsLiteral -----------------------------------------------------------------------------
    with sect(ctx, 'writer: _needsLiteral'):
        fn_ = ctx.func(IMAP, "_needsLiteral")
        needs = interp(fn_, funcs, env0)
        q = "twisted.mail.imap4._needsLiteral"
        bad = None
        for w in words((b"\r", b"\n", b"a"), 3):
            p = b"".join(w)
            got, err = _call(needs, p)
            if err is not None:
                raise AnalysisError(f"{q}: evaluation raises for {p!r}: {err}")
            must = b"\r" in p or b"\n" in p
            if must and not got:
                bad = p
                break
        ctx.check(bad is None, "literal/needs-literal", q,
                  f"{bad!r} contains a line break but is not sent as a literal: inside a quoted string the break ends the protocol line and the "
                  "client's line-based framing loses the rest", detail="40 strings over {CR, LF, a}^<=3")
        plain_ok = not _call(needs, b"a b")[0] and not _call(needs, b"")[0]
        ctx.check(plain_ok, "literal/needs-literal", q + " | plain strings quoted", "short strings without line breaks are no longer sent as quoted strings")
        funcs["_needsLiteral"] = needs

    # ---- writer: collapseNestedLists per item kind ---------------------------------------------------------------
    with sect(ctx, 'writer: collapseNestedLists per item kind'):
        fc = ctx.func(IMAP, "collapseNestedLists")
        q = "twisted.mail.imap4.collapseNestedLists"
        collapse = interp(fc, funcs, env0)
        funcs["collapseNestedLists"] = collapse
        kinds = [
            ("None -> NIL", [None]), ("int -> decimal atom", [0]), ("int -> decimal atom", [1234567890123]), ("int -> decimal atom", [-3]),
            ("bytes -> quoted", [b""]), ("bytes -> quoted", [b"a b"]), ("bytes -> quoted", [b'a"\\b']), ("bytes -> quoted", [b"NIL"]), ("bytes -> quoted", [b"{3}"]),
            ("bytes with line break -> literal", [b"a\nb"]), ("bytes with line break -> literal", [b"\r"]), ("bytes with line break -> literal", [b'"\\\n)']),
            ("literal first / middle / last", [b"two\r\nlines", b"x"]), ("literal first / middle / last", [b"x", b"two\r\nlines", 3]), ("literal first / middle / last", [None, b"x", b"\n"]),
            ("literal first / middle / last", [b"\n", b"\r", b"\r\n"]), ("literal nested", [[b"two\r\nlines"]]), ("literal nested", [[b"two\r\nlines", b"x"], [b"x", b"\n"]]),
            ("literal nested", [b"a", [[b"\r"], None]]),
            ("nested list -> parenthesised", [[b"x", None]]), ("nested list -> parenthesised", [[]]), ("nested list -> parenthesised", [[[1]], b"y"]),
            ("items separated by one space", [None, 1, b"a"]), ("items separated by one space", []),
        ]
        seen = {}
        for kind, items in kinds:
            got, err = _call(collapse, items)
            want = b" ".join(ref_item(x, delim) for x in items)
            ok = err is None and got == want
            if kind not in seen or (seen[kind][0] and not ok):
                seen[kind] = (ok, items, got if err is None else err, want)
        for kind, (ok, items, got, want) in seen.items():
            ctx.check(ok, "writer/item-forms", f"{q} | {kind}", f"collapseNestedLists({items!r}) gives {got!r}; required {want!r}")

    # ---- reader: parseNestedParens transition table ----------------------------------------------------------------
    with sect(ctx, 'reader: parseNestedParens transition table'), structural(ctx, "reader/paren-transitions", "roundtrip/writer-output-parses-back (bounded: the whole reader evaluated on writer outputs)"):
        fp = ctx.func(IMAP, "parseNestedParens")
        q = "twisted.mail.imap4.parseNestedParens"
        allw = [x for x in ast.walk(fp) if isinstance(x, ast.While)]
        loops = [x for x in allw if not any(x is not y and any(z is x for z in ast.walk(y)) for y in allw)]     # outermost loop(s) only
        ctx.need(len(loops) == 1, f"the scanning loop of {q}")
        loop = loops[0]
        params = [a.arg for a in fp.args.args]
        ctx.need(len(params) == 2, f"{q}(s, handleLiteral)")
        sname, hl = params
        # names of the state variables: index, length, quote flag, stack - found by their initialisers
        init = {}
        for st in ast.walk(fp):
            if isinstance(st, ast.Assign) and len(st.targets) == 1 and isinstance(st.targets[0], ast.Name) and st not in ast.walk(loop):
                init[st.targets[0].id] = st.value
        idx = [k for k, v in init.items() if isinstance(v, ast.Constant) and v.value == 0 and k in {n.id for n in ast.walk(loop.test) if isinstance(n, ast.Name)}]
        flag = [k for k, v in init.items() if isinstance(v, ast.Constant) and v.value in (0, False) and k not in idx]
        stack = [k for k, v in init.items() if isinstance(v, ast.List) and len(v.elts) == 1 and isinstance(v.elts[0], ast.List)]
        length = [k for k, v in init.items() if isinstance(v, ast.Call) and call_name(v) == "len"]
        ctx.need(len(idx) == 1 and len(flag) == 1 and len(stack) == 1, f"index / in-quote flag / content stack of {q}")
        idx, flag, stack = idx[0], flag[0], stack[0]
        mod_fn_names = {h.name for h in mod.tree.body if isinstance(h, ast.FunctionDef)}
        for c in ast.walk(loop):
            if isinstance(c, ast.Call) and isinstance(c.func, ast.Name) and c.func.id in mod_fn_names and any(isinstance(a_, ast.Name) and a_.id == sname for a_ in c.args):
                raise Abstain(f"the scanning loop hands the whole input to {c.func.id}(): it is not a one-unit-per-step machine")
            if isinstance(c, (ast.For, ast.While)) and c is not loop:
                raise Abstain("a loop nested in the scanning loop consumes several units per step")
        ex_p, why_p = domain_argument([fp], inputs={sname, hl}, state={idx, flag, stack} | set(length))
        if not ex_p:
            ctx.note(f"{q}: domain argument not established ({why_p}); the step table is bounded evidence")
        rule_p = kinded("reader/paren-transitions", ex_p)

        def step(s, in_quote, depth=1, handle=1):
            st = [[] for _ in range(depth)]
            env = {**env0, sname: s, hl: handle, idx: 0, flag: in_quote, stack: st}
            for ln in length:
                env[ln] = len(s)
            try:
                r = eval_block(loop.body, env, funcs=funcs)
            except BlockRaised as e:
                return {"raised": repr(e.exc)}
            return {"i": env[idx], "q": bool(env[flag]), "stack": env[stack], "raised": r.raised}

        def expect(case, s, in_quote, want, depth=1, why=""):
            got = step(s, in_quote, depth)
            ctx.check(got == want, rule_p, f"{q} | {case}",
                      f"at {s!r} ({'inside' if in_quote else 'outside'} a quoted string) one scanning step gives {got!r}; required {want!r}. {why}")

        expect("in quotes: escape + quote", b'\\"x', 1, {"i": 2, "q": True, "stack": [[b'\\"']], "raised": None},
               why="the unit after the escape must be consumed with it, else an escaped quote closes the string")
        expect("in quotes: escape + escape", b'\\\\"', 1, {"i": 2, "q": True, "stack": [[b"\\\\"]], "raised": None},
               why="a doubled escape must be consumed as a pair, else its second half escapes the closing quote")
        expect("in quotes: closing quote", b'"x', 1, {"i": 1, "q": False, "stack": [[b'"']], "raised": None})
        for sp in (b"(", b")", b"[", b"]", b"{"):
            expect("in quotes: specials are inert", sp + b"3}x", 1, {"i": 1, "q": True, "stack": [[sp]], "raised": None},
                   why="list and literal syntax inside a quoted string is data")
        expect("in quotes: plain unit", b"ax", 1, {"i": 1, "q": True, "stack": [[b"a"]], "raised": None})
        expect("outside: opening quote", b'"x', 0, {"i": 1, "q": True, "stack": [[b'"']], "raised": None})
        expect("outside: plain unit", b"ax", 0, {"i": 1, "q": False, "stack": [[b"a"]], "raised": None})
        for o in (b"(", b"["):
            expect("outside: open list", o + b"x", 0, {"i": 1, "q": False, "stack": [[], []], "raised": None})
        for c in (b")", b"]"):
            expect("outside: close list", c + b"x", 0, {"i": 1, "q": False, "stack": [[[]]], "raised": None}, depth=2)
        for data in (b"a\nb", b"\r\n", b"\rx", b"\nx", b"\r\nx\r\n", b"\n\n\n", b'}\n"(\\', b"x" * 12 + b"\n"):
            lit = ref_item(data, delim)
            expect("outside: literal framed as the writer frames it", lit + b' "x"', 0, {"i": len(lit), "q": False, "stack": [[(data,)]], "raised": None},
                   why="'{N}' CRLF must be followed by exactly N bytes of data taken by length, never scanned")

    # ---- whole reader on writer outputs (structures without backslashes: those are F42)
    with sect(ctx, 'whole reader on writer outputs'):
        q = "twisted.mail.imap4.parseNestedParens ~ collapseNestedLists"
        rf = FollowModule(mod, dict(funcs), env0)
        for name in ("splitQuoted", "splitOn", "collapseStrings", "parseNestedParens"):
            rf[name] = interp(ctx.func(IMAP, name), rf, env0)
        parse = rf["parseNestedParens"]

        def as_parsed(x):
            if isinstance(x, (list, tuple)):
                return [as_parsed(y) for y in x]
            return str(x).encode("ascii") if isinstance(x, int) else x
        structures = [
            [b"a\nb"], [b"\rx", None, 12], [b"\nx"], [b"\r\nx", b"y"], [b"\n\r\n", [b"\r"]], [[b"\n"], b"x y"], [b"", [None, [1, b'q"r']]], [b'a"b'], [],
            [b"NIL", None], [b"(", b")", b"[x]"], [b"{3}", b"{"], [0, -7, [b"x" * 5 + b"\n" + b"y" * 5]], [[[[b"deep\n"]]]],
        ]
        bad = None
        for st_ in structures:
            wire = b" ".join(ref_item(x, delim) for x in st_)
            got, err = _call(parse, wire)
            if err is not None or got != as_parsed(st_):
                bad = (st_, wire, got if err is None else err)
                break
        # position x content grid.  What can precede a run of text inside one list level is complete as {nothing, atom, quoted string, nested list, literal}
        # (the item kinds of the writer); the text itself carries the bytes the quoting rules name as legal data: quotes, unbalanced list delimiters, blanks
        before = {"first": [], "after an atom": [12], "after a quoted string": [b"a b"], "after a nested list": [[b"x"]], "after a literal": [b"l\nm"]}
        texts = [b'say "hi"', b'q"', b'"', b"thanks :-)", b"(", b"[[", b"])", b"a b", b"(\nx", b"x\r\n]", b'"\ny']       # (literals here do not end in white space: the reader strips its whole input first)
        bad_pos = None
        n_pos = 0
        for pos, pre in before.items():
            for t in texts:
                for st_ in (pre + [t], pre + [t, b"z"], [pre + [t]], [b"k", pre + [t], None]):
                    wire = b" ".join(ref_item(x, delim) for x in st_)
                    got, err = _call(parse, wire)
                    n_pos += 1
                    if (err is not None or got != as_parsed(st_)) and bad_pos is None:
                        bad_pos = (pos, t, st_, wire, got if err is None else err)
        ctx.check(bad_pos is None, "roundtrip/text-at-every-position", q + " | <quotes and list delimiters as data, at every position of a list>",
                  bad_pos and f"{bad_pos[2]!r} (the string {bad_pos[1]!r} {bad_pos[0]}) is serialised as {bad_pos[3]!r} and parsed back as {bad_pos[4]!r}: quotes and list "
                  "delimiters inside a quoted string or a literal are data, wherever the string stands",
                  detail=f"{n_pos} structures: {len(before)} position classes x {len(texts)} texts x 4 surroundings")
        ctx.check(bad is None, "roundtrip/writer-output-parses-back", q + " | <structures without backslash>",
                  bad and f"{bad[0]!r} is serialised as {bad[1]!r} and parsed back as {bad[2]!r} (a literal is '{{N}}' CR LF followed by exactly N bytes, whatever they are)",
                  detail=f"{len(structures)} structures")

    # ---- reader: scanning discipline (structural) ------------------------------------------------------------------------
    with structural(ctx, "reader-table/index-base-agrees, reader-table/no-raw-delimiter-scan", "roundtrip/text-at-every-position (bounded)"):
        LIST_DELIMS = (b"(", b")", b"[", b"]")
        for fname in ("splitQuoted", "parseNestedParens"):
            fr_ = ctx.func(IMAP, fname)
            q = "twisted.mail.imap4." + fname
            params = {a.arg for a in fr_.args.args}
            # (1) an index counted along a derived sequence (stripped / sliced text) must not subscript the text it was derived from
            n_loops = 0
            for lp_ in ast.walk(fr_):
                if not (isinstance(lp_, ast.For) and isinstance(lp_.iter, ast.Call) and call_name(lp_.iter) == "enumerate" and lp_.iter.args
                        and isinstance(lp_.target, ast.Tuple) and isinstance(lp_.target.elts[0], ast.Name)):
                    continue
                n_loops += 1
                idx = lp_.target.elts[0].id
                seq = lp_.iter.args[0]
                # expressions the sequence is made of: the argument itself plus the single local definition of every name in it
                parts = [seq]
                for nm_ in [x for x in ast.walk(seq) if isinstance(x, ast.Name)]:
                    ds = [st.value for st in ast.walk(fr_) if isinstance(st, ast.Assign) and len(st.targets) == 1 and isinstance(st.targets[0], ast.Name) and st.targets[0].id == nm_.id]
                    if len(ds) == 1 and not any(isinstance(y, ast.Name) and y.id == nm_.id for y in ast.walk(ds[0])):
                        parts.append(ds[0])
                # operations that move positions: stripping / cutting at the front, rewriting; (rstrip, s[:n], s[:] keep them)
                derived_from = {x.func.value.id for pt in parts for x in ast.walk(pt) if isinstance(x, ast.Call) and isinstance(x.func, ast.Attribute)
                                and isinstance(x.func.value, ast.Name) and x.func.attr in ("strip", "lstrip", "replace", "expandtabs")}
                derived_from |= {x.value.id for pt in parts for x in ast.walk(pt) if isinstance(x, ast.Subscript) and isinstance(x.value, ast.Name)
                                 and isinstance(x.slice, ast.Slice) and x.slice.lower is not None}
                uses = [x for b_ in lp_.body for x in ast.walk(b_) if isinstance(x, ast.Subscript) and isinstance(x.value, ast.Name)
                        and any(isinstance(n_, ast.Name) and n_.id == idx for n_ in ast.walk(x.slice))]
                for x in uses:
                    ctx.check(x.value.id not in derived_from, "reader-table/index-base-agrees", ctx.construct(q, x),
                              f"{idx} counts positions in {src(seq)}, but {src(x)} applies it to {x.value.id} itself, whose positions are shifted (by the removed leading part): "
                              "the look-behind reads the wrong unit whenever the text does not start at offset 0")
                if not uses:
                    ctx.ok("reader-table/index-base-agrees", ctx.construct(q, lp_.iter))
            # (2) no quoting-unaware scan of the whole input for list delimiters
            scans = []
            for x in ast.walk(fr_):
                if (isinstance(x, ast.Call) and isinstance(x.func, ast.Attribute) and isinstance(x.func.value, ast.Name) and x.func.value.id in params
                        and x.func.attr in ("count", "find", "rfind", "index", "rindex", "partition", "rpartition", "split", "rsplit") and x.args
                        and isinstance(x.args[0], ast.Constant) and isinstance(x.args[0].value, (bytes, str)) and len(x.args) == 1):
                    v = x.args[0].value
                    v = v.encode("latin-1") if isinstance(v, str) else v
                    if any(d in v for d in LIST_DELIMS):
                        scans.append(x)
                if (isinstance(x, ast.Compare) and len(x.ops) == 1 and isinstance(x.ops[0], (ast.In, ast.NotIn)) and isinstance(x.comparators[0], ast.Name)
                        and x.comparators[0].id in params and isinstance(x.left, ast.Constant) and isinstance(x.left.value, (bytes, str))):
                    v = x.left.value
                    v = v.encode("latin-1") if isinstance(v, str) else v
                    if any(d in v for d in LIST_DELIMS):
                        scans.append(x)
            for x in scans:
                ctx.check(False, "reader-table/no-raw-delimiter-scan", ctx.construct(q, x),
                          f"{src(x)} looks for a list delimiter in the whole raw input, without knowing about quoting: a parenthesis or bracket inside a quoted string or a "
                          "literal is data, but is counted as structure here")
            if not scans:
                ctx.ok("reader-table/no-raw-delimiter-scan", q)

    # ---- reader: collapseStrings routes literals around the tokenizer ---------------------------------------------------
    with structural(ctx, "reader-table/literal-route", "reader/literal-bypasses-tokenizer (bounded)"):
        fs = ctx.func(IMAP, "collapseStrings")
        q = "twisted.mail.imap4.collapseStrings"
        routes = [c for c in ast.walk(fs) if isinstance(c, ast.Call) and call_name(c) == "splitOn" and len(c.args) == 3]
        if not routes:
            raise Abstain("no splitOn(sequence, predicate, transformers) call")

        def resolve(e):
            """expression -> its defining expression (local single assignment or module level), else itself"""
            if isinstance(e, ast.Name):
                defs = [st.value for st in ast.walk(fs) if isinstance(st, ast.Assign) and len(st.targets) == 1 and isinstance(st.targets[0], ast.Name) and st.targets[0].id == e.id]
                if len(defs) == 1:
                    return defs[0]
                m = mod.module_assign(e.id)
                if m is not None:
                    return m
                fn = next((st for st in mod.tree.body if isinstance(st, ast.FunctionDef) and st.name == e.id), None)
                if fn is not None:
                    return fn
            return e

        def calls_tokenizer(fn_node, seen=()):
            for c in ast.walk(fn_node):
                if isinstance(c, ast.Call) and isinstance(c.func, ast.Name):
                    if c.func.id == "splitQuoted":
                        return True
                    h = next((st for st in mod.tree.body if isinstance(st, ast.FunctionDef) and st.name == c.func.id), None)
                    if h is not None and h.name not in seen and h.name not in ("collapseStrings", "splitOn") and calls_tokenizer(h, seen + (h.name,)):
                        return True
            return False
        for r in routes:
            pred_e, tran_e = resolve(r.args[1]), resolve(r.args[2])
            if not isinstance(tran_e, ast.Dict) or not isinstance(pred_e, (ast.Lambda, ast.FunctionDef)):
                raise Abstain("predicate / transformer table not a lambda-or-function and a dict display")
            try:
                pf = peval(pred_e, dict(env0), funcs) if isinstance(pred_e, ast.Lambda) else interp(pred_e, funcs, env0)
                k_lit, k_plain = pf((b"x",)), pf(b"x")
                table = {peval(k, dict(env0), funcs): resolve(v) for k, v in zip(tran_e.keys, tran_e.values)}
            except (NotPure, Raised, BlockRaised) as ex:
                raise Abstain(f"predicate / table keys not evaluable ({ex})")
            if k_lit == k_plain or k_lit not in table or k_plain not in table:
                raise Abstain("predicate does not separate literal tuples from plain units through the table keys")
            ctx.check(not calls_tokenizer(table[k_lit]), "reader-table/literal-route", q + " | transformer selected for literal tuples",
                      "the transformer selected for literal data (tuples from parseNestedParens) calls the tokenizer: quotes, backslashes and spaces inside a literal are re-interpreted",
                      detail="item kinds {literal tuple, plain unit} are the two classes the predicate distinguishes")
            ctx.check(calls_tokenizer(table[k_plain]), "reader-table/plain-route", q + " | transformer selected for plain units",
                      "runs of plain units are no longer handed to the tokenizer")
    with sect(ctx, 'reader: collapseStrings routes literals around the tokenizer'):
        fs = ctx.func(IMAP, "collapseStrings")
        q = "twisted.mail.imap4.collapseStrings"
        f2 = FollowModule(mod, dict(funcs), env0)
        f2["splitQuoted"] = lambda b: [("TOKENIZED", b)]
        cs = interp(fs, f2, env0)
        f2["collapseStrings"] = cs
        lit = b'a"\\ b'
        cases = [
            ([QU, b"a", QU, (lit,), b"x"], [("TOKENIZED", b'"a"'), lit, ("TOKENIZED", b"x")]),
            ([(lit,)], [lit]),
            ([[(lit,), b"y"], b"z"], [[lit, ("TOKENIZED", b"y")], ("TOKENIZED", b"z")]),
            ([b"n", b"o"], [("TOKENIZED", b"no")]),
            ([], []),
        ]
        bad = None
        for given, want in cases:
            got, err = _call(cs, given)
            if err is not None or got != want:
                bad = (given, got if err is None else err, want)
                break
        ctx.check(bad is None, "reader/literal-bypasses-tokenizer", q,
                  bad and f"collapseStrings({bad[0]!r}) gives {bad[1]!r}; required {bad[2]!r}: literal data (a tuple from parseNestedParens) must pass through verbatim - quotes, "
                  "backslashes and spaces inside it are data - while runs of plain units go to the tokenizer (shown as TOKENIZED)")

    # ---- reader: splitQuoted on writer outputs ----------------------------------------------------------------------------
    with sect(ctx, 'reader: splitQuoted on writer outputs'):
        fsq = ctx.func(IMAP, "splitQuoted")
        q = "twisted.mail.imap4.splitQuoted"
        split = interp(fsq, funcs, env0)
        st_names = {t.id for st in ast.walk(fsq) if isinstance(st, ast.Assign) for t in st.targets if isinstance(t, ast.Name)}
        ex_s, why_s = domain_argument([fsq], inputs={a.arg for a in fsq.args.args}, state=st_names, helpers={h.name for h in mod.tree.body if isinstance(h, ast.FunctionDef)})
        if not ex_s:
            ctx.note(f"{q}: domain argument not established ({why_s}); the payload enumeration is bounded evidence")
        classes = {
            "<escaped quote inside quotes>": [], "<escape unit inside quotes>": [], "<escape unit before closing quote>": [], "<plain quoted strings>": [],
        }
        for w in words((ESC, QU, b"a"), 3):
            p = b"".join(w)
            if ESC in p:
                classes["<escape unit before closing quote>" if p.endswith(ESC) else "<escape unit inside quotes>"].append(p)
            elif QU in p:
                classes["<escaped quote inside quotes>"].append(p)
            else:
                classes["<plain quoted strings>"].append(p)
        classes["<plain quoted strings>"] += [b"a b", b" ", b"NIL", b"(a)", b"{1}", b"12"]
        why = {
            "<escaped quote inside quotes>": "the writer's backslash-quote must be read back as a quote",
            "<escape unit inside quotes>": "the writer doubles every backslash; the reader has no branch on the escape unit, so the doubled backslash is never collapsed",
            "<escape unit before closing quote>": "a payload ending in a backslash is written as ...\\\\\" ; the reader takes the closing quote for an escaped one",
            "<plain quoted strings>": "a quoted string is one token, whatever it contains",
        }
        for cls, payloads in classes.items():
            bad = None
            for p in payloads:
                got, err = _call(split, ref_quote(p))
                if err is not None or got != [p]:
                    bad = (p, got if err is None else err)
                    break
            ctx.check(bad is None, "reader/undoes-quoting", f"{q} | {cls}",
                      bad and f"payload {bad[0]!r} is written as {ref_quote(bad[0])!r} and read back as {bad[1]!r}: {why[cls]}", detail=f"{len(payloads)} payloads")
        atoms = [(b"NIL", [None]), (b"12", [b"12"]), (b'12 "a b" NIL', [b"12", b"a b", None]), (b'NIL "NIL"', [None, b"NIL"]), (b'"" 7', [b"", b"7"]), (b"", [])]
        bad = None
        for text, want in atoms:
            got, err = _call(split, text)
            if err is not None or got != want:
                bad = (text, got if err is None else err, want)
                break
        ctx.check(bad is None, "reader/atoms-and-nil", q, bad and f"{bad[0]!r} is tokenized as {bad[1]!r}; required {bad[2]!r} (unquoted NIL is None, quoted NIL is text, integers stay decimal text)")


_SQ_OLD = ('    for i, c in enumerate(iterbytes(s)):\n        if c == qu:\n            if i and s[i - 1 : i] == esc:\n                word.pop()\n'
           '                word.append(qu)\n            elif not inQuote:\n')
_SQ_FIXED = ('    escaped = False\n    for i, c in enumerate(iterbytes(s)):\n        if escaped:\n            word.append(c)\n            escaped = False\n'
             '        elif inQuote and c == esc:\n            escaped = True\n        elif c == qu:\n            if not inQuote:\n')
MUTANTS = [
    Mutant('nil-atom-object-mislabelled', IMAP, '            pieces.extend([b" ", b"NIL"])\n', '            pieces.extend([b" ", _NIL_ATOM.label.encode("ascii")])\n', more=[(IMAP, 'def collapseNestedLists(items):\n', 'class _Atom:\n    def __init__(self, label):\n        self.label = label\n\n\n_NIL_ATOM = _Atom("nil")\n\n\ndef collapseNestedLists(items):\n')], expect_rule='writer/item-forms'),
    Mutant("quote-escapes-in-wrong-order", IMAP, "    return qu + s.replace(esc, esc + esc).replace(qu, esc + qu) + qu\n",
           "    return qu + s.replace(qu, esc + qu).replace(esc, esc + esc) + qu\n", expect_rule="quote/writer-semantics"),
    Mutant("quote-forgets-escape-unit", IMAP, "    return qu + s.replace(esc, esc + esc).replace(qu, esc + qu) + qu\n", "    return qu + s.replace(qu, esc + qu) + qu\n",
           expect_rule="quote/writer-semantics"),
    Mutant("needs-literal-only-lf", IMAP, "    return cr in s or lf in s or len(s) > 1000\n", "    return cr in s or len(s) > 1000\n", expect_rule="literal/needs-literal"),
    Mutant("literal-without-delimiter", IMAP, '                pieces.extend([b" ", b"{%d}" % (len(i),), IMAP4Server.delimiter, i])\n',
           '                pieces.extend([b" ", b"{%d}" % (len(i),), i])\n', expect_rule="writer/item-forms"),
    Mutant("literal-length-of-stripped-data", IMAP, '                pieces.extend([b" ", b"{%d}" % (len(i),), IMAP4Server.delimiter, i])\n',
           '                pieces.extend([b" ", b"{%d}" % (len(i.strip()),), IMAP4Server.delimiter, i])\n', expect_rule="writer/item-forms"),
    Mutant("literal-glued-to-separator", IMAP, '                pieces.extend([b" ", b"{%d}" % (len(i),), IMAP4Server.delimiter, i])\n', '                pieces.append(b" " + _literal(i))\n', expect_rule="writer/item-forms"),
    Mutant("nil-lowercase", IMAP, '            pieces.extend([b" ", b"NIL"])\n', '            pieces.extend([b" ", b"Nil"])\n', expect_rule="writer/item-forms"),
    Mutant("escape-skips-one-unit", IMAP, "                    contentStack[-1].append(s[i : i + 2])\n                    i += 2\n",
           "                    contentStack[-1].append(s[i : i + 1])\n                    i += 1\n", expect_rule="reader/paren-transitions"),
    Mutant("literal-offset-short", IMAP, "                    contentStack[-1].append((s[end + 3 : end + 3 + literalSize],))\n                    i = end + 3 + literalSize\n",
           "                    contentStack[-1].append((s[end + 3 : end + 3 + literalSize],))\n                    i = end + 2 + literalSize\n", expect_rule="reader/paren-transitions"),
    Mutant("literal-skips-every-line-break", IMAP, "                    contentStack[-1].append((s[end + 3 : end + 3 + literalSize],))\n                    i = end + 3 + literalSize\n",
           "                    begin = end + 1\n                    while s[begin : begin + 1] in (b\"\\r\", b\"\\n\"):\n                        begin += 1\n"
           "                    contentStack[-1].append((s[begin : begin + literalSize],))\n                    i = begin + literalSize\n", expect_rule="r"),
    Mutant("parens-nest-inside-quotes", IMAP, "            if inQuote:\n                if c == b\"\\\\\":\n", "            if inQuote and c not in b\"()\":\n                if c == b\"\\\\\":\n",
           expect_rule="reader/paren-transitions"),
    Mutant("escaped-quote-keeps-backslash", IMAP, "                word.pop()\n                word.append(qu)\n", "                word.append(qu)\n", expect_rule="reader/undoes-quoting"),
    Mutant("quoted-nil-becomes-none", IMAP, "                inQuote = False\n                result.append(empty.join(word))\n                word = []\n",
           "                inQuote = False\n                w = empty.join(word)\n                result.append(None if w == nil else w)\n                word = []\n", expect_rule="reader/"),
    Mutant("literal-retokenized", IMAP, '        1: lambda e: [b"".join([i[0] for i in e])],\n', '        1: lambda e: splitQuoted(b"".join([i[0] for i in e])),\n',
           expect_rule="reader/literal-bypasses-tokenizer"),
    Mutant('tokenizer-scans-a-stripped-copy-but-looks-behind-in-the-original', IMAP, '    s = s.strip()\n    result = []\n    word = []\n', '    text = s.strip()\n    result = []\n    word = []\n', more=[(IMAP, '    for i, c in enumerate(iterbytes(s)):\n        if c == qu:\n            if i and s[i - 1 : i] == esc:\n', '    for i, c in enumerate(iterbytes(text)):\n        if c == qu:\n            if i and s[i - 1 : i] == esc:\n')], expect_rule='reader-table/index-base-agrees'),
    Mutant('paren-balance-prechecked-on-raw-input', IMAP, '    s = s.strip()\n    inQuote = 0\n    contentStack = [[]]\n', '    s = s.strip()\n    depth = s.count(b"(") - s.count(b")")\n    if depth:\n        raise MismatchedNesting(s)\n    inQuote = 0\n    contentStack = [[]]\n', expect_rule='reader-table/no-raw-delimiter-scan'),
    Mutant('open-bracket-without-close-bracket-rejected-up-front', IMAP, '    s = s.strip()\n    inQuote = 0\n    contentStack = [[]]\n', '    s = s.strip()\n    if b"[" in s and b"]" not in s:\n        raise MismatchedNesting(s)\n    inQuote = 0\n    contentStack = [[]]\n', expect_rule='roundtrip/text-at-every-position'),
]
SILENT = [
    Silent('tokenizer-scans-and-looks-behind-in-the-same-stripped-copy', IMAP, '    s = s.strip()\n    result = []\n    word = []\n', '    text = s.strip()\n    result = []\n    word = []\n', more=[(IMAP, '    for i, c in enumerate(iterbytes(s)):\n        if c == qu:\n            if i and s[i - 1 : i] == esc:\n', '    for i, c in enumerate(iterbytes(text)):\n        if c == qu:\n            if i and text[i - 1 : i] == esc:\n')]),
    Silent('tokenizer-scans-a-whole-slice-copy', IMAP, '    for i, c in enumerate(iterbytes(s)):\n        if c == qu:\n            if i and s[i - 1 : i] == esc:\n', '    for i, c in enumerate(iterbytes(s[:])):\n        if c == qu:\n            if i and s[i - 1 : i] == esc:\n'),
    Silent('nil-atom-from-a-private-object', IMAP, '            pieces.extend([b" ", b"NIL"])\n', '            pieces.extend([b" ", _NIL_ATOM.label.encode("ascii")])\n', more=[(IMAP, 'def collapseNestedLists(items):\n', 'class _Atom:\n    def __init__(self, label):\n        self.label = label\n\n\n_NIL_ATOM = _Atom("NIL")\n\n\ndef collapseNestedLists(items):\n')]),
    Silent("quote-as-loop", IMAP, "    return qu + s.replace(esc, esc + esc).replace(qu, esc + qu) + qu\n",
           "    for ch in (esc, qu):\n        s = s.replace(ch, esc + ch)\n    return qu + s + qu\n"),
    Silent("literal-through-helper", IMAP, '                pieces.extend([b" ", b"{%d}" % (len(i),), IMAP4Server.delimiter, i])\n', '                pieces.extend([b" ", _literal(i)])\n'),
    Silent("needs-literal-reordered", IMAP, "    return cr in s or lf in s or len(s) > 1000\n", "    return len(s) > 1000 or any(x in s for x in (lf, cr))\n"),
    Silent("paren-test-membership", IMAP, '                elif c == b"(" or c == b"[":\n', '                elif c in (b"(", b"["):\n'),
    Silent("literal-branch-with-inner-loop", IMAP, "                    contentStack[-1].append((s[end + 3 : end + 3 + literalSize],))\n                    i = end + 3 + literalSize\n",
           "                    begin = end + 1\n                    for _unit in (b\"\\r\", b\"\\n\"):\n                        begin += 1\n"
           "                    stop = begin + literalSize\n                    contentStack[-1].append((s[begin:stop],))\n                    i = stop\n"),
    Silent("collapse-strings-helpers-at-module-level", IMAP, "    pred = lambda e: isinstance(e, tuple)\n    tran = {\n        0: lambda e: splitQuoted(b\"\".join(e)),\n        1: lambda e: [b\"\".join([i[0] for i in e])],\n    }\n",
           "    pred = _isLit\n    tran = {False: _tokens, True: _lits}\n",
           more=[(IMAP, "def collapseStrings(results):\n", "def _isLit(e):\n    return isinstance(e, tuple)\n\n\ndef _tokens(run):\n    return splitQuoted(b\"\".join(run))\n\n\n"
                  "def _lits(run):\n    return [b\"\".join(piece[0] for piece in run)]\n\n\ndef collapseStrings(results):\n")]),
    Silent("collapse-guard-clauses-and-inplace-tuples", IMAP, '        if i is None:\n            pieces.extend([b" ", b"NIL"])\n        elif isinstance(i, int):\n            pieces.extend([b" ", networkString(str(i))])\n',
           '        if i is None:\n            pieces += (b" ", b"NIL")\n            continue\n        if isinstance(i, int):\n            pieces += (b" ", networkString(str(i)))\n            continue\n        if False:\n            pass\n'),
    Silent("quoted-string-copied-by-a-helper", IMAP, '                if c == b\'"\':\n                    contentStack[-1].append(c)\n                    inQuote = not inQuote\n                    i += 1\n                elif handleLiteral and c == b"{":\n',
           '                if c == b\'"\':\n                    contentStack[-1].append(c)\n                    i = _restOfQuoted(s, i + 1, contentStack[-1])\n                elif handleLiteral and c == b"{":\n',
           more=[(IMAP, "def parseNestedParens(s, handleLiteral=1):\n", "def _restOfQuoted(s, start, sink):\n    pos = start\n    while pos < len(s):\n        c = s[pos : pos + 1]\n        if c == b\"\\\\\":\n            sink.append(s[pos : pos + 2])\n            pos += 2\n            continue\n        sink.append(c)\n        pos += 1\n        if c == b'\"':\n            break\n    return pos\n\n\ndef parseNestedParens(s, handleLiteral=1):\n")]),
    Silent("F42-repaired-tokenizer", IMAP, _SQ_OLD, _SQ_FIXED),
]
