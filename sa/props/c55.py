"""C55 - Log formatting never raises."""
from __future__ import annotations

from sa.astx import src
from sa.selftest import Mutant, Silent
from sa.props._lib_k import no_crash
from sa.props._lib_k import EVENT, HOSTILE, SAFE, EscapeAnalysis

PROPERTY = "C55"
FMT = "logger/_format.py"
FLAT = "logger/_flatten.py"
LOG = "python/log.py"
TECHNIQUE = "interprocedural exception-escape analysis, event values as arbitrary objects, handler-coverage levels"
EXPLANATION = (
    "Exception-escape analysis from formatEvent / eventAsText / formatEventAsClassicLogText / _formatEvent / "
    "formatUnformattableEvent (and, for the legacy API, textFromEventDict / _safeFormat) through every repository callee "
    "(flatFormat, formatWithCall, formatTime, _formatSystem, _formatTraceback): values read out of the event, exceptions "
    "bound by handlers and results of calls on them are arbitrary objects, so each attribute read, call, str/repr/format, "
    "%-formatting, arithmetic, comparison, truth test, iteration, join, unguarded event[key] or call-out receiving such a value is a "
    "may-raise site; each site must lie (in every calling context) inside the body of a try whose handler catches "
    "BaseException without re-raising (a handler that stops only Exception is reported separately), explicit raises "
    "likewise; and every return of the entry functions must be text. Construct keys are semantic: a site is attributed to the "
    "function it would be inlined into (single-caller helpers count as inlined) and its text names event-derived operands by provenance "
    "(<event['log_time']>, <caught exception>) with other locals alpha-renamed, so helper extraction / renaming keeps known findings known. Not decided: behaviour of library code that receives "
    "no event value (strftime, Failure()), the observers that write the text "
    "(FileLogObserver.emit / formatTime of python/log.py)."
)
RULE_KINDS = {
    # exception-escape analysis over the call graph of the formatting entry points + value-kind (text / arbitrary object) provenance
    "escape/": "structural", "returns-text": "structural",
}
ASSUMPTIONS = [
    "the event is a real dict: .get/.items/`in` and event[k] under a dominating `k in event` test are total",
    "`is`, isinstance, cast, reflect.safe_repr/safe_str, Failure() and the PotentialCallWrapper/CallMapping constructors are total on "
    "arbitrary objects; truth tests (`if x`, `x and`, `not x`, conditional expressions, `while x`) of event values are NOT: they call __bool__/__len__",
    "legacy events carry the documented required keys `message` (a tuple) and `isError`",
    "the bare re-raise of KeyboardInterrupt in _safeFormat is deliberate and outside the property",
]

ENTRIES = [
    ("formatEvent", {"event": EVENT}),
    ("formatUnformattableEvent", {"event": EVENT, "error": HOSTILE}),
    ("formatEventAsClassicLogText", {"event": EVENT}),
    ("_formatEvent", {"event": EVENT}),
    ("eventAsText", {"event": EVENT}),
]
LEGACY = [
    ("_safeFormat", {"fmtString": HOSTILE, "fmtDict": HOSTILE}),
    ("textFromEventDict", {"eventDict": EVENT}),
]


def _modname(rel):
    return "twisted." + rel[:-3].replace("/", ".")


def _report(ctx, an, entries, rel):
    sites = sorted(an.sites.values(), key=lambda s: (s.rel, s.node.lineno, s.op))
    n_prot = 0
    for s in sites:
        r_rel, r_name = an.root(s.rel, s.fname or s.qual.split(".")[-1])
        c = f"{_modname(r_rel)}.{r_name} | {s.text}"
        if s.level == "none":
            ctx.violation("escape/unprotected", c,
                          f"{s.why} (in {s.qual}): it can raise and no enclosing try catches it on some call path from the formatting entry points")
        elif s.level == "exc":
            ctx.violation("escape/handler-not-catch-all", c,
                          f"{s.why} (in {s.qual}): the only enclosing handler stops Exception, a BaseException raised by the value escapes the formatter")
        else:
            n_prot += 1
            ctx.ok("escape/protected", c, s.why)
    for q, _ in entries:
        rets = an.returns.get((rel, q), [])
        bad = [node for node, k in rets if k in (HOSTILE, EVENT)]
        ctx.check(not bad, "returns-text", f"{_modname(rel)}.{q} | <return value>",
                  "the formatting function can return an event-derived object instead of text" + (f" ({src(bad[0])[:60]})" if bad else ""),
                  detail=f"{len(rets)} return statements")
    return len(sites), n_prot


def _check_new_style(ctx):
    an = EscapeAnalysis(ctx, [FMT, FLAT])
    for q, kinds in ENTRIES:
        ctx.func(FMT, q)
        an.run(FMT, q, kinds)
    n, prot = _report(ctx, an, ENTRIES, FMT)
    ctx.floor("escape/sites(_format)", n, 10, "may-raise sites")
    # every helper the design names must have been reached from the entry points
    for helper in ("flatFormat", "formatWithCall", "_formatSystem", "_formatTraceback", "formatTime", "formatUnformattableEvent"):
        ctx.need(any(k[1] == helper for k in an.returns), f"{helper} reachable from the formatting entry points")
    return an.assumed_total


def _check_legacy(ctx):
    an2 = EscapeAnalysis(ctx, [LOG], required_keys=("message", "isError"), typed_keys={"message": EVENT, "isError": SAFE})  # message: a real tuple of arbitrary objects
    for q, kinds in LEGACY:
        ctx.func(LOG, q)
        an2.run(LOG, q, kinds)
    n2, prot2 = _report(ctx, an2, LEGACY, LOG)
    ctx.floor("escape/sites(log.py)", n2, 3, "may-raise sites")
    return an2.assumed_total


def check(ctx):
    total = set()
    with ctx.section("twisted.logger._format"):
        total |= no_crash('_check_new_style', _check_new_style, ctx)
    with ctx.section("twisted.python.log"):
        total |= no_crash('_check_legacy', _check_legacy, ctx)
    ctx.extra["assumed_total_callees"] = sorted(total)


# ---- texts of the repaired code (fix commits e48c134, 66e9dfe, 74ef0c0, 7d9f4f6) and of what they replaced ---------------------------
_SYS_FIXED = '    try:\n        system = cast(Optional[str], event.get("log_system", None))\n        if system is None:\n            level = cast(Optional[NamedConstant], event.get("log_level", None))\n            if level is None:\n                levelName = "-"\n            else:\n                levelName = level.name\n\n            system = "{namespace}#{level}".format(\n                namespace=cast(str, event.get("log_namespace", "-")),\n                level=levelName,\n            )\n        else:\n            system = str(system)\n    except BaseException:\n        system = "UNFORMATTABLE"\n    return system\n'
_SYS_BEFORE = '    system = cast(Optional[str], event.get("log_system", None))\n    if system is None:\n        level = cast(Optional[NamedConstant], event.get("log_level", None))\n        if level is None:\n            levelName = "-"\n        else:\n            levelName = level.name\n\n        system = "{namespace}#{level}".format(\n            namespace=cast(str, event.get("log_namespace", "-")),\n            level=levelName,\n        )\n    else:\n        try:\n            system = str(system)\n        except Exception:\n            system = "UNFORMATTABLE"\n    return system\n'
_TS_FIXED = ("        try:\n            timeStamp = \"\".join(\n                [formatTime(cast(float, event.get(\"log_time\", None))), \" \"]\n            )\n"
             "        except BaseException:\n            # An event's time is whatever its emitter put there; like the rest\n"
             "            # of the event it must not be able to break formatting.\n            timeStamp = \"UNFORMATTABLE \"\n")
_TS_BEFORE = "        timeStamp = \"\".join([formatTime(cast(float, event.get(\"log_time\", None))), \" \"])\n"
_TB_FIXED = ("    try:\n        traceback = failure.getTraceback()\n    except BaseException as e:\n"
             "        traceback = \"(UNABLE TO OBTAIN TRACEBACK FROM EVENT):\" + safe_str(e)\n    if not isinstance(traceback, str):\n"
             "        # Whatever was logged as the failure, the result is joined to text.\n        traceback = safe_str(traceback)\n    return traceback\n")
_LEGACY_FIXED = ("            except KeyboardInterrupt:\n                raise\n            except BaseException as e:\n"
                 "                traceback = \"(unable to obtain traceback): \" + reflect.safe_str(e)\n            if not isinstance(traceback, str):\n"
                 "                traceback = reflect.safe_str(traceback)\n")
_LEGACY_BEFORE = "            except Exception as e:\n                traceback = \"(unable to obtain traceback): \" + str(e)\n"
_SAFEFORMAT_FIXED = ("        text = fmtString % fmtDict\n        if not isinstance(text, str):\n            # A bytes format string produces bytes; that is not a usable\n"
                     "            # format string for a function which returns text.\n            raise TypeError(\"log format did not produce text\")\n")

_WHY_FIXED = '            try:\n                if why:\n                    why = reflect.safe_str(why)\n                else:\n                    why = "Unhandled Error"\n            except KeyboardInterrupt:\n                raise\n            except BaseException:\n                # Even asking whether there is a "why" can fail.\n                why = reflect.safe_str(why)\n'
_WHY_BEFORE = '            if why:\n                why = reflect.safe_str(why)\n            else:\n                why = "Unhandled Error"\n'

MUTANTS = [
    Mutant("revert-F55j-why-truth-test-guard", LOG, _WHY_FIXED, _WHY_BEFORE, expect_rule="escape/unprotected"),
    # reverts of the fix: commits
    Mutant("revert-F55-timestamp-guard", FMT, _TS_FIXED, _TS_BEFORE, expect_rule="escape/unprotected"),
    Mutant("revert-F55-F55e-formatSystem-guard", FMT, _SYS_FIXED, _SYS_BEFORE, expect_rule="escape/"),
    Mutant("revert-F55f-safe-str-of-caught-exception", FMT, "(UNABLE TO OBTAIN TRACEBACK FROM EVENT):\" + safe_str(e)", "(UNABLE TO OBTAIN TRACEBACK FROM EVENT):\" + str(e)",
           expect_rule="escape/unprotected"),
    Mutant("revert-F55g-non-str-traceback-guard", FMT, "    if not isinstance(traceback, str):\n        # Whatever was logged as the failure, the result is joined to text.\n        traceback = safe_str(traceback)\n", "",
           expect_rule="escape/unprotected"),
    Mutant("revert-F55h-legacy-traceback-handler", LOG, _LEGACY_FIXED, _LEGACY_BEFORE, expect_rule="escape/"),
    Mutant("revert-F55i-safeFormat-text-check", LOG, _SAFEFORMAT_FIXED, "        text = fmtString % fmtDict\n", expect_rule="returns-text"),
    Mutant("failure-fetched-then-truth-tested", FMT, "    if includeTraceback and \"log_failure\" in event:\n        f = event[\"log_failure\"]\n",
           "    f = event.get(\"log_failure\")\n    if includeTraceback and f:\n", expect_rule="escape/unprotected"),
    Mutant("system-presence-by-truth", FMT, "    try:\n        system = cast(Optional[str], event.get(\"log_system\", None))\n        if system is None:\n",
           "    system = cast(Optional[str], event.get(\"log_system\", None))\n    hasSystem = not not system\n    try:\n        if not hasSystem:\n", expect_rule="escape/unprotected"),
    Mutant("timestamp-only-for-truthy-time", FMT, "    if includeTimestamp:\n        try:\n", "    if includeTimestamp and event.get(\"log_time\"):\n        try:\n", expect_rule="escape/unprotected"),
    Mutant("system-str-before-the-guard", FMT, "    try:\n        system = cast(Optional[str], event.get(\"log_system\", None))\n        if system is None:\n",
           "    system = cast(Optional[str], event.get(\"log_system\", None))\n    if system is not None:\n        return str(system)\n    try:\n        if system is None:\n",
           expect_rule="escape/unprotected"),
    Mutant("system-guard-narrowed", FMT, "            system = str(system)\n    except BaseException:\n        system = \"UNFORMATTABLE\"\n",
           "            system = str(system)\n    except Exception:\n        system = \"UNFORMATTABLE\"\n", expect_rule="escape/handler-not-catch-all"),
    Mutant("traceback-note-reprs-the-failure", FMT, "(UNABLE TO OBTAIN TRACEBACK FROM EVENT):\" + safe_str(e)", "(UNABLE TO OBTAIN TRACEBACK FROM EVENT):\" + safe_str(e) + \" in \" + repr(failure)",
           expect_rule="escape/unprotected"),
    Mutant("traceback-handler-narrowed", FMT, "    except BaseException as e:\n        traceback = \"(UNABLE TO OBTAIN TRACEBACK FROM EVENT):\"",
           "    except Exception as e:\n        traceback = \"(UNABLE TO OBTAIN TRACEBACK FROM EVENT):\"", expect_rule="escape/handler-not-catch-all"),
    Mutant("formatEvent-handler-narrowed", FMT, "    except BaseException as e:\n        return formatUnformattableEvent(event, e)",
           "    except Exception as e:\n        return formatUnformattableEvent(event, e)", expect_rule="escape/handler-not-catch-all"),
    Mutant("fallback-uses-repr", FMT, "\" = \".join((safe_repr(key), safe_repr(value)))", "\" = \".join((safe_repr(key), repr(value)))",
           expect_rule="escape/unprotected"),
    Mutant("unformattable-handler-narrowed", FMT, "    except BaseException:\n        # Yikes, something really nasty happened.",
           "    except Exception:\n        # Yikes, something really nasty happened.", expect_rule="escape/handler-not-catch-all"),
    Mutant("last-resort-formats-inner-exception", FMT, "    except BaseException:\n        # Yikes, something really nasty happened.", "    except BaseException as inner:\n        # Yikes, something really nasty happened.",
           more=[(FMT, "error=safe_repr(error), failure=failure, text=text", "error=safe_repr(error), failure=inner, text=text")], expect_rule="escape/unprotected"),
    Mutant("flattened-branch-hoisted-out-of-try", FMT, "    try:\n        if \"log_flattened\" in event:\n            return flatFormat(event)\n\n        format =",
           "    if \"log_flattened\" in event:\n        return flatFormat(event)\n    try:\n        format =", expect_rule="escape/unprotected"),
    Mutant("decode-after-try", FMT, "        elif isinstance(format, bytes):\n            format = format.decode(\"utf-8\")\n        else:\n            raise TypeError(f\"Log format must be str, not {format!r}\")\n\n        return formatWithCall(format, event)\n",
           "        elif not isinstance(format, bytes):\n            raise TypeError(f\"Log format must be str, not {format!r}\")\n    except BaseException as e:\n        return formatUnformattableEvent(event, e)\n    if isinstance(format, bytes):\n        format = format.decode(\"utf-8\")\n    try:\n        return formatWithCall(format, event)\n",
           expect_rule="escape/unprotected"),
    Mutant("none-format-returned", FMT, "        if format is None:\n            return \"\"\n", "        if format is None:\n            return format\n",
           expect_rule="returns-text"),
    Mutant("safeFormat-second-handler-narrowed", LOG, "        except BaseException:\n            try:\n                text = (\n                    \"UNFORMATTABLE",
           "        except Exception:\n            try:\n                text = (\n                    \"UNFORMATTABLE", expect_rule="escape/handler-not-catch-all"),
    Mutant("legacy-why-str", LOG, "                if why:\n                    why = reflect.safe_str(why)\n", "                if why:\n                    why = str(why)\n",
           more=[(LOG, "                # Even asking whether there is a \"why\" can fail.\n                why = reflect.safe_str(why)\n", "                why = str(why)\n")], expect_rule="escape/unprotected"),
    Mutant("legacy-why-guard-narrowed", LOG, "            except BaseException:\n                # Even asking whether there is a \"why\" can fail.\n", "            except Exception:\n                # Even asking whether there is a \"why\" can fail.\n",
           expect_rule="escape/handler-not-catch-all"),
    Mutant("legacy-message-str", LOG, "        text = \" \".join(map(reflect.safe_str, edm))", "        text = \" \".join(map(str, edm))", expect_rule="escape/unprotected"),
]
SILENT = [
    Silent("failure-fetched-then-identity-tested", FMT, "    if includeTraceback and \"log_failure\" in event:\n        f = event[\"log_failure\"]\n",
           "    f = event.get(\"log_failure\", _formatEvent)\n    if includeTraceback and f is not _formatEvent:\n"),
    Silent("system-truth-test-inside-the-guard", FMT, "        if system is None:\n            level = cast(Optional[NamedConstant], event.get(\"log_level\", None))\n",
           "        if system is None or (isinstance(system, str) and not system and False):\n            level = cast(Optional[NamedConstant], event.get(\"log_level\", None))\n"),
    Silent("timestamp-in-private-helper-taking-the-formatter", FMT, _TS_FIXED, "        timeStamp = _stamp(event, formatTime)\n",
           more=[(FMT, "def eventAsText(\n", "def _stamp(event, formatter):\n    try:\n        return formatter(cast(float, event.get(\"log_time\", None))) + \" \"\n    except BaseException:\n        return \"UNFORMATTABLE \"\n\n\ndef eventAsText(\n")]),
    Silent("traceback-note-uses-safe-repr", FMT, "(UNABLE TO OBTAIN TRACEBACK FROM EVENT):\" + safe_str(e)", "(UNABLE TO OBTAIN TRACEBACK FROM EVENT):\" + safe_str(e) + \" in \" + safe_repr(failure)"),
    Silent("traceback-returns-directly-with-renamed-exception", FMT, _TB_FIXED,
           "    try:\n        traceback = failure.getTraceback()\n    except BaseException as problem:\n        why = safe_str(problem)\n        return \"(UNABLE TO OBTAIN TRACEBACK FROM EVENT):\" + why\n"
           "    if isinstance(traceback, str):\n        return traceback\n    return safe_str(traceback)\n"),
    Silent("level-name-as-conditional-expression", FMT, "            if level is None:\n                levelName = \"-\"\n            else:\n                levelName = level.name\n",
           "            levelName = \"-\" if level is None else level.name\n"),
    Silent("formatSystem-early-returns-inside-the-guard", FMT, _SYS_FIXED,
           "    try:\n        system = cast(Optional[str], event.get(\"log_system\", None))\n        if system is not None:\n            return str(system)\n"
           "        level = cast(Optional[NamedConstant], event.get(\"log_level\", None))\n        levelName = \"-\" if level is None else level.name\n"
           "        return \"{namespace}#{level}\".format(namespace=cast(str, event.get(\"log_namespace\", \"-\")), level=levelName)\n"
           "    except BaseException:\n        return \"UNFORMATTABLE\"\n"),
    Silent("rename-local-format", FMT, "        format = cast(Optional[Union[str, bytes]], event.get(\"log_format\", None))\n        if format is None:\n            return \"\"\n\n        # Make sure format is text.\n        if isinstance(format, str):\n            pass\n        elif isinstance(format, bytes):\n            format = format.decode(\"utf-8\")\n        else:\n            raise TypeError(f\"Log format must be str, not {format!r}\")\n\n        return formatWithCall(format, event)\n",
           "        fmt = cast(Optional[Union[str, bytes]], event.get(\"log_format\", None))\n        if fmt is None:\n            return \"\"\n        if isinstance(fmt, bytes):\n            fmt = fmt.decode(\"utf-8\")\n        elif not isinstance(fmt, str):\n            raise TypeError(f\"Log format must be str, not {fmt!r}\")\n        return formatWithCall(fmt, event)\n"),
    Silent("bare-except", FMT, "    except BaseException:\n        # Yikes, something really nasty happened.", "    except:\n        # Yikes, something really nasty happened."),
    Silent("concat-instead-of-join", FMT, "        system = \"\".join([\"[\", _formatSystem(event), \"]\", \" \"])", "        system = \"[\" + _formatSystem(event) + \"] \""),
    Silent("legacy-header-local-inside-the-guard", LOG, _WHY_FIXED,
           "            try:\n                heading = reflect.safe_str(why) if why else \"Unhandled Error\"\n            except KeyboardInterrupt:\n                raise\n            except BaseException:\n                heading = reflect.safe_str(why)\n",
           more=[(LOG, "            text = why + \"\\n\" + traceback\n", "            text = heading + \"\\n\" + traceback\n")]),
    Silent("time-formatting-helper-extracted", FMT, "        tz = FixedOffsetTimeZone.fromLocalTimeStamp(when)\n        datetime = DateTime.fromtimestamp(when, tz)\n        return str(datetime.strftime(timeFormat))\n",
           "        return _strftimeLocal(when, timeFormat)\n\n\ndef _strftimeLocal(stamp, pattern):\n    zone = FixedOffsetTimeZone.fromLocalTimeStamp(stamp)\n    return str(DateTime.fromtimestamp(stamp, zone).strftime(pattern))\n"),
    Silent("legacy-traceback-local", LOG, "            text = why + \"\\n\" + traceback\n", "            text = why + \"\\n\" + traceback\n            del why\n"),
]
