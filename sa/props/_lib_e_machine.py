"""A small interpreter over the *AST* of repository modules (batch E: web/http.py & friends).

It never imports or runs twisted: repository functions and classes are interpreted from their syntax trees read
through sa.source.SourceTree (so self-test overlays apply); only operations on builtin values (bytes, int, list,
dict, bytearray, str, re on constant patterns) are delegated to CPython.  Everything the interpreter does not know -
collaborators such as the transport, zope interfaces, loggers, files - is an ``Opaque`` value: attribute access on it
gives another Opaque, calling it records an ``Event`` and returns an Opaque, testing it forks the path (all paths are
enumerated by replaying with recorded choices).  Rules drive one object (an HTTPChannel, a Request, a decoder) with
concrete inputs and compare what becomes observable - calls on opaque collaborators with their argument values, the
object's attributes at that moment, the exception that leaves - with an oracle written in the rule.  Helper methods
are simply executed, so extracting / inlining helpers, guard clauses, temporaries, comprehensions ... do not matter.
"""
from __future__ import annotations

import ast
import builtins
import re as _re
from typing import Callable, Dict, List, Optional, Sequence

from sa.source import AnalysisError


class Unsupported(Exception):
    pass


class Budget(Unsupported):
    """Step budget exhausted: on the small concrete inputs the rules use this means the interpreted code does not terminate."""


class PyRaise(Exception):
    """The interpreted program raises ``exc`` (a builtin exception instance or an ObjV of a repository class)."""

    def __init__(self, exc):
        Exception.__init__(self, repr(exc))
        self.exc = exc


class _Return(Exception):
    def __init__(self, value):
        self.value = value


class _Break(Exception):
    pass


class _Continue(Exception):
    pass


class Opaque:
    """solid=True: a definite (non-None) external object created by a harness; otherwise an unknown value."""
    __slots__ = ("name", "attrs", "solid")

    def __init__(self, name, solid=False):
        self.name = name
        self.attrs = {}
        self.solid = solid

    def __repr__(self):
        return f"<?{self.name}>"


class ModuleV:
    def __init__(self, machine, rel, mod):
        self.machine, self.rel, self.mod = machine, rel, mod
        self.cache: Dict[str, object] = {}
        self.defs: Dict[str, ast.AST] = {}
        self.imports: Dict[str, tuple] = {}
        self._busy = set()
        stack = list(mod.tree.body)
        while stack:
            st = stack.pop(0)
            if isinstance(st, (ast.FunctionDef, ast.AsyncFunctionDef, ast.ClassDef)):
                self.defs[st.name] = st
            elif isinstance(st, ast.Assign):
                for t in st.targets:
                    if isinstance(t, ast.Name):
                        self.defs[t.id] = st
                    elif isinstance(t, (ast.Tuple, ast.List)):
                        for e in t.elts:
                            if isinstance(e, ast.Name):
                                self.defs[e.id] = st
            elif isinstance(st, ast.AnnAssign) and isinstance(st.target, ast.Name) and st.value is not None:
                self.defs[st.target.id] = st
            elif isinstance(st, ast.ImportFrom):
                for a in st.names:
                    self.imports[a.asname or a.name] = (st.module or "", a.name, st.level)
            elif isinstance(st, ast.Import):
                for a in st.names:
                    self.imports[(a.asname or a.name).split(".")[0]] = (a.name, None, 0)
            elif isinstance(st, (ast.If, ast.Try)):
                stack = list(st.body) + list(getattr(st, "orelse", [])) + stack

    def __repr__(self):
        return f"<module {self.rel}>"


class ClassV:
    def __init__(self, node, module):
        self.node, self.module, self.name = node, module, node.name
        self._bases = None
        self.members: Dict[str, ast.AST] = {}
        stack = list(node.body)
        while stack:
            st = stack.pop(0)
            if isinstance(st, (ast.FunctionDef, ast.AsyncFunctionDef)):
                self.members[st.name] = st   # a later definition replaces an earlier one (@overload stubs)
            elif isinstance(st, ast.Assign):
                for t in st.targets:
                    if isinstance(t, ast.Name):
                        self.members[t.id] = st
            elif isinstance(st, ast.AnnAssign) and isinstance(st.target, ast.Name) and st.value is not None:
                self.members[st.target.id] = st
            elif isinstance(st, (ast.If, ast.Try)):
                stack = list(st.body) + list(getattr(st, "orelse", [])) + stack
        self.values: Dict[str, object] = {}

    def __repr__(self):
        return f"<class {self.name}>"


class FuncV:
    def __init__(self, node, module, closure=None, owner=None, kind="function"):
        self.node, self.module, self.closure, self.owner, self.kind = node, module, closure, owner, kind
        self.name = getattr(node, "name", "<lambda>")

    @property
    def qual(self):
        return (self.owner.name + "." if self.owner else "") + self.name

    def __repr__(self):
        return f"<function {self.qual}>"


class BoundV:
    def __init__(self, obj, func):
        self.obj, self.func = obj, func

    def __repr__(self):
        return f"<bound {self.func.qual}>"


class ObjV:
    def __init__(self, cls, label):
        self.cls, self.label, self.attrs = cls, label, {}

    def __repr__(self):
        return f"<{self.label}>"


class Event:
    __slots__ = ("kind", "name", "args", "kwargs", "state", "where")

    def __init__(self, kind, name, args=(), kwargs=None, state=None, where=""):
        self.kind, self.name, self.args, self.kwargs, self.state, self.where = kind, name, tuple(args), dict(kwargs or {}), state, where

    def __repr__(self):
        return f"{self.kind}:{self.name}{self.args!r}"


class Outcome:
    def __init__(self, kind, value, events, choices, machine_objs):
        self.kind, self.value, self.events, self.choices, self.objs = kind, value, events, choices, machine_objs

    @property
    def exc_name(self):
        return exc_name(self.value) if self.kind == "raise" else None

    def calls(self, *names):
        """Events whose name equals / ends with one of names (".write" suffix form allowed)."""
        out = []
        for e in self.events:
            if e.kind in ("call", "enter") and any(e.name == n or (n.startswith(".") and e.name.endswith(n)) for n in names):
                out.append(e)
        return out


def exc_name(exc) -> str:
    if isinstance(exc, ObjV):
        return exc.cls.name
    if isinstance(exc, ClassV):
        return exc.name
    if isinstance(exc, BaseException):
        return type(exc).__name__
    if isinstance(exc, type):
        return exc.__name__
    return "?"


_PY_ERRORS = (ValueError, TypeError, IndexError, KeyError, ZeroDivisionError, OverflowError, AttributeError, UnicodeError, StopIteration)
_SAFE_BUILTINS = {n: getattr(builtins, n) for n in (
    "len", "int", "bytes", "bytearray", "str", "ord", "chr", "min", "max", "sorted", "list", "tuple", "range", "bool", "memoryview", "repr", "hex",
    "any", "all", "sum", "abs", "set", "frozenset", "dict", "enumerate", "zip", "reversed", "float", "divmod", "round", "iter", "next", "map", "filter", "object")}
_BUILTIN_EXC = {n: getattr(builtins, n) for n in dir(builtins) if isinstance(getattr(builtins, n), type) and issubclass(getattr(builtins, n), BaseException)}
_NATIVE = (bytes, bytearray, str, list, tuple, dict, memoryview, int, float, frozenset, set, bool, type(None), range, _re.Pattern, _re.Match)
_FORBIDDEN_ATTRS = {"__class__", "__dict__", "__globals__", "__subclasses__", "__mro__", "__reduce__", "__reduce_ex__", "__getattribute__"}
_RE_FUNCS = {"compile", "match", "fullmatch", "search", "sub", "subn", "split", "findall", "escape"}


class _ReModule:
    def __repr__(self):
        return "<module re>"


RE_MODULE = _ReModule()


class Machine:
    def __init__(self, tree, budget: int = 400000, max_depth: int = 60, allowed: Optional[set] = None):
        self.tree = tree
        self.allowed = allowed      # repository modules that may be interpreted (None: any); everything else is Opaque
        self.modules: Dict[str, ModuleV] = {}
        self.budget, self.max_depth = budget, max_depth
        self.stubs: Dict[str, Callable] = {}      # qualname / opaque name -> f(machine, args, kwargs) -> value
        self.quiet = {"enter"}                     # event kinds not given a state snapshot
        self.root: Optional[ObjV] = None
        self.reset([])

    # ---- run control ---------------------------------------------------------------------------------
    def reset(self, choices):
        self.events: List[Event] = []
        self.preset = list(choices)
        self.taken: List[bool] = []
        self.steps = 0
        self.depth = 0
        self.counter = 0
        self.frames: List[str] = []

    def tick(self):
        self.steps += 1
        if self.steps > self.budget:
            raise Budget("interpretation budget exhausted")

    def choose(self, what="") -> bool:
        i = len(self.taken)
        v = self.preset[i] if i < len(self.preset) else False
        self.taken.append(v)
        if len(self.taken) > 40:
            raise Unsupported("too many undecided branches on one path (" + what + ")")
        return v

    def explore(self, thunk: Callable[["Machine"], object], max_paths: int = 96, hang_is_outcome: bool = False) -> List[Outcome]:
        """Run thunk(machine) once per combination of undecided branch outcomes."""
        out = []
        pending = [[]]
        while pending:
            if len(out) >= max_paths:
                raise AnalysisError("interpreter: more than %d paths" % max_paths)
            ch = pending.pop()
            self.reset(ch)
            try:
                v = thunk(self)
                o = Outcome("ok", v, self.events, list(self.taken), None)
            except PyRaise as r:
                o = Outcome("raise", r.exc, self.events, list(self.taken), None)
            except Budget as u:
                if not hang_is_outcome:
                    raise AnalysisError(f"interpreter: {u} (in {' > '.join(self.frames[-3:])})")
                o = Outcome("hang", None, self.events, list(self.taken), None)
            except Unsupported as u:
                raise AnalysisError(f"interpreter: {u} (in {' > '.join(self.frames[-3:])})")
            except RecursionError:
                raise AnalysisError("interpreter: recursion too deep")
            out.append(o)
            for i in range(len(ch), len(self.taken)):
                pending.append(self.taken[:i] + [True])
        return out

    # ---- modules / globals ----------------------------------------------------------------------------
    def module(self, rel) -> ModuleV:
        m = self.modules.get(rel)
        if m is None:
            m = ModuleV(self, rel, self.tree.module(rel))
            self.modules[rel] = m
        return m

    def _resolve_module(self, dotted_name: str) -> Optional[ModuleV]:
        if not dotted_name.startswith("twisted"):
            return None
        parts = dotted_name.split(".")[1:]
        for rel in ("/".join(parts) + ".py", "/".join(parts + ["__init__.py"])):
            if self.allowed is not None and rel not in self.allowed and rel not in self.modules:
                continue
            if rel and self.tree.exists(rel):
                return self.module(rel)
        return None

    def global_lookup(self, mod: ModuleV, name: str):
        if name in mod.cache:
            return mod.cache[name]
        if name in mod.defs:
            st = mod.defs[name]
            if name in mod._busy:
                return Opaque(name)
            mod._busy.add(name)
            try:
                if isinstance(st, (ast.FunctionDef, ast.AsyncFunctionDef)):
                    v = FuncV(st, mod)
                elif isinstance(st, ast.ClassDef):
                    v = ClassV(st, mod)
                else:
                    saved = (self.events, self.taken, self.preset)
                    self.events, self.taken, self.preset = [], [], []
                    try:
                        val = self.ev(st.value, {"__module__": mod})
                        tgt = st.targets[0] if isinstance(st, ast.Assign) else st.target
                        if isinstance(tgt, ast.Name):
                            v = val
                        else:
                            vals = list(val)
                            v = vals[[e.id for e in tgt.elts].index(name)]
                        if self.taken:
                            v = Opaque(name)
                    except (PyRaise, Unsupported, TypeError, ValueError):
                        v = Opaque(name)
                    finally:
                        self.events, self.taken, self.preset = saved
            finally:
                mod._busy.discard(name)
            mod.cache[name] = v
            return v
        if name in mod.imports:
            src_mod, orig, level = mod.imports[name]
            if orig is None:     # import x
                v = RE_MODULE if src_mod == "re" else (self._resolve_module(src_mod) or Opaque(src_mod))
            else:
                if level:
                    base = mod.rel.split("/")[:-1]
                    base = base[: len(base) - (level - 1)] if level > 1 else base
                    src_full = "twisted." + ".".join(base + ([src_mod] if src_mod else []))
                else:
                    src_full = src_mod
                target = self._resolve_module(src_full)
                sub = self._resolve_module(src_full + "." + orig)
                if target is not None and (orig in target.defs or orig in target.imports):
                    v = self.global_lookup(target, orig)
                elif sub is not None:
                    v = sub
                elif src_full == "re" :
                    v = Opaque("re." + orig)
                else:
                    v = Opaque(f"{src_full}.{orig}")
            mod.cache[name] = v
            return v
        if name in _SAFE_BUILTINS:
            return _SAFE_BUILTINS[name]
        if name in _BUILTIN_EXC:
            return _BUILTIN_EXC[name]
        if name in ("isinstance", "getattr", "hasattr", "setattr", "super", "type", "id", "callable", "issubclass", "print", "property", "staticmethod", "classmethod"):
            return ("builtin", name)
        return Opaque(name)

    # ---- classes / attributes ---------------------------------------------------------------------------
    def bases(self, cls: ClassV):
        if cls._bases is None:
            cls._bases = []
            for b in cls.node.bases:
                try:
                    cls._bases.append(self.ev(b, {"__module__": cls.module}))
                except (PyRaise, Unsupported):
                    cls._bases.append(Opaque("base"))
        return cls._bases

    def mro(self, cls) -> List[object]:
        cached = getattr(cls, "_mro_cache", None) if isinstance(cls, ClassV) else None
        if cached is not None:
            return cached
        out, seen = [], set()

        def rec(c):
            if id(c) in seen:
                return
            seen.add(id(c))
            out.append(c)
            if isinstance(c, ClassV):
                for b in self.bases(c):
                    rec(b)
        rec(cls)
        if isinstance(cls, ClassV):
            cls._mro_cache = out
        return out

    def class_complete(self, cls) -> bool:
        r = getattr(cls, "_complete_cache", None)
        if r is None:
            r = all(isinstance(c, ClassV) or (isinstance(c, type)) for c in self.mro(cls))
            if isinstance(cls, ClassV):
                cls._complete_cache = r
        return r

    def is_subclass(self, cls, target) -> Optional[bool]:
        if isinstance(target, tuple):
            rs = [self.is_subclass(cls, t) for t in target]
            return True if any(r is True for r in rs) else (None if any(r is None for r in rs) else False)
        if isinstance(target, Opaque):
            return None
        unknown = False
        for c in self.mro(cls):
            if c is target:
                return True
            if isinstance(c, type) and isinstance(target, type) and issubclass(c, target):
                return True
            if isinstance(c, Opaque):
                unknown = True
        return None if unknown and not isinstance(target, type) else (None if unknown and target in (object,) else False) if unknown else False

    def class_member(self, cls: ClassV, name: str):
        """(found, raw value) searching the class and its known bases."""
        for c in self.mro(cls):
            if isinstance(c, ClassV) and name in c.members:
                if name not in c.values:
                    st = c.members[name]
                    if isinstance(st, (ast.FunctionDef, ast.AsyncFunctionDef)):
                        kind = "function"
                        for d in st.decorator_list:
                            dn = d.id if isinstance(d, ast.Name) else (d.attr if isinstance(d, ast.Attribute) else "")
                            if dn in ("staticmethod", "classmethod", "property"):
                                kind = {"staticmethod": "static", "classmethod": "class", "property": "property"}[dn]
                        c.values[name] = FuncV(st, c.module, owner=c, kind=kind)
                    else:
                        saved = (self.events, self.taken, self.preset)
                        self.events, self.taken, self.preset = [], [], []
                        try:
                            # class body scope: the functions and plain values defined in the class body are visible by their bare names
                            # (a table  {key: method}  built in the class body holds plain functions, called as f(self, ...))
                            scope = {"__module__": c.module}
                            for mn, mst in c.members.items():
                                if mn == name:
                                    continue
                                if isinstance(mst, (ast.FunctionDef, ast.AsyncFunctionDef)):
                                    scope[mn] = FuncV(mst, c.module, owner=c, kind="static")
                            c.values[name] = self.ev(st.value, scope)
                        except (PyRaise, Unsupported):
                            c.values[name] = Opaque(f"{c.name}.{name}")
                        finally:
                            self.events, self.taken, self.preset = saved
                return True, c.values[name]
        return False, None

    def get_attr(self, obj, name: str):
        if name in _FORBIDDEN_ATTRS and not isinstance(obj, (ObjV, ClassV)):
            raise Unsupported("attribute " + name)
        if isinstance(obj, Opaque):
            if name not in obj.attrs:
                obj.attrs[name] = Opaque(f"{obj.name}.{name}")
            return obj.attrs[name]
        if isinstance(obj, ObjV):
            if name in obj.attrs:
                return obj.attrs[name]
            if name == "__class__":
                return obj.cls
            found, v = self.class_member(obj.cls, name)
            if found:
                if isinstance(v, FuncV):
                    if v.kind == "static":
                        return v
                    if v.kind == "class":
                        return BoundV(obj.cls, v)
                    if v.kind == "property":
                        return self.call(BoundV(obj, v), [], {})
                    return BoundV(obj, v)
                if isinstance(v, (list, dict, bytearray, set)):
                    return v
                return v
            if self.class_complete(obj.cls):
                raise PyRaise(AttributeError(name))
            v = Opaque(f"{obj.label}.{name}")
            obj.attrs[name] = v
            return v
        if isinstance(obj, ClassV):
            if name == "__name__":
                return obj.name
            found, v = self.class_member(obj, name)
            if found:
                if isinstance(v, FuncV) and v.kind == "class":
                    return BoundV(obj, v)
                return v
            return Opaque(f"{obj.name}.{name}")
        if isinstance(obj, ModuleV):
            return self.global_lookup(obj, name)
        if obj is RE_MODULE:
            if name in _RE_FUNCS:
                return getattr(_re, name)
            if name.isupper() and isinstance(getattr(_re, name, None), _re.RegexFlag):
                return getattr(_re, name)
            raise Unsupported("re." + name)
        if isinstance(obj, BaseException) and name == "args":
            return obj.args
        if isinstance(obj, _NATIVE) or obj in (bytes, bytearray, str, int, dict, list):
            if name.startswith("__") and name not in ("__len__", "__contains__"):
                raise Unsupported("dunder attribute on builtin value")
            try:
                return getattr(obj, name)
            except AttributeError as e:
                raise PyRaise(e)
        if isinstance(obj, (FuncV, BoundV)):
            return Opaque(f"{obj!r}.{name}")
        raise Unsupported(f"attribute {name} of {type(obj).__name__}")

    def has_attr(self, obj, name) -> Optional[bool]:
        if isinstance(obj, Opaque):
            return None
        if isinstance(obj, ObjV):
            if name in obj.attrs:
                return True
            if self.class_member(obj.cls, name)[0]:
                return True
            return False if self.class_complete(obj.cls) else None
        try:
            self.get_attr(obj, name)
            return True
        except PyRaise:
            return False

    def set_attr(self, obj, name, value):
        if isinstance(obj, ObjV):
            obj.attrs[name] = value
            self.events.append(Event("set", f"{obj.label}.{name}", (value,), where=self.frames[-1] if self.frames else ""))
        elif isinstance(obj, Opaque):
            obj.attrs[name] = value
            self.events.append(Event("set", f"{obj.name}.{name}", (value,)))
        else:
            raise Unsupported("attribute assignment on " + type(obj).__name__)

    def new_object(self, cls: ClassV, label: Optional[str] = None) -> ObjV:
        self.counter += 1
        return ObjV(cls, label or f"{cls.name}#{self.counter}")

    def snapshot(self):
        if self.root is None:
            return None
        out = {}
        for k, v in self.root.attrs.items():
            out[k] = type(v)(v) if isinstance(v, (list, bytearray, dict, set)) else v
        return out

    # ---- truth / unknowns -------------------------------------------------------------------------------
    def truth(self, v, what="") -> bool:
        if isinstance(v, Opaque):
            if v.solid:
                return True
            return self.choose(what or v.name)
        if isinstance(v, ObjV):
            found, f = self.class_member(v.cls, "__bool__")
            if not found:
                found, f = self.class_member(v.cls, "__len__")
            if found and isinstance(f, FuncV):
                return self.truth(self.call(BoundV(v, f), [], {}))
            return True
        if isinstance(v, (ClassV, FuncV, BoundV, ModuleV)):
            return True
        return bool(v)

    @staticmethod
    def unknown(*vals) -> bool:
        return any(isinstance(v, Opaque) for v in vals)

    # ---- expressions ---------------------------------------------------------------------------------------
    def lookup(self, name, env):
        scope = env
        while scope is not None:
            if name in scope:
                return scope[name]
            scope = scope.get("__outer__")
        return self.global_lookup(env["__module__"], name)

    def ev(self, node, env):
        self.steps += 1
        if self.steps > self.budget:
            raise Budget("interpretation budget exhausted")
        t = type(node)
        if t is ast.Constant:
            return node.value
        if t is ast.Name:
            nm = node.id
            scope = env
            while scope is not None:
                if nm in scope:
                    return scope[nm]
                scope = scope.get("__outer__")
            return self.global_lookup(env["__module__"], nm)
        try:
            return self._ev(node, env)
        except _PY_ERRORS as e:
            raise PyRaise(e)

    def _ev(self, node, env):
        ev = self.ev
        t = type(node)
        if t is ast.Constant:
            return node.value
        if t is ast.Name:
            return self.lookup(node.id, env)
        if t is ast.Attribute:
            return self.get_attr(ev(node.value, env), node.attr)
        if t in (ast.Tuple, ast.List, ast.Set):
            vals = []
            for e in node.elts:
                if isinstance(e, ast.Starred):
                    vals.extend(self.iterate(ev(e.value, env)))
                else:
                    vals.append(ev(e, env))
            return tuple(vals) if t is ast.Tuple else (vals if t is ast.List else set(vals))
        if t is ast.Dict:
            out = {}
            for k, v in zip(node.keys, node.values):
                if k is None:
                    out.update(ev(v, env))
                else:
                    out[ev(k, env)] = ev(v, env)
            return out
        if t is ast.UnaryOp:
            v = ev(node.operand, env)
            if isinstance(node.op, ast.Not):
                return not self.truth(v, "not")
            if self.unknown(v):
                return Opaque("?")
            return -v if isinstance(node.op, ast.USub) else (+v if isinstance(node.op, ast.UAdd) else ~v)
        if t is ast.BinOp:
            return self.binop(node.op, ev(node.left, env), ev(node.right, env))
        if t is ast.BoolOp:
            v = None
            for e in node.values:
                v = ev(e, env)
                tv = self.truth(v, "boolop")
                if isinstance(node.op, ast.And) and not tv:
                    return v if not isinstance(v, Opaque) else False
                if isinstance(node.op, ast.Or) and tv:
                    return v if not isinstance(v, Opaque) else True
            return v if not isinstance(v, Opaque) else isinstance(node.op, ast.And)
        if t is ast.IfExp:
            return ev(node.body, env) if self.truth(ev(node.test, env), "ifexp") else ev(node.orelse, env)
        if t is ast.Compare:
            left = ev(node.left, env)
            for op, rn in zip(node.ops, node.comparators):
                right = ev(rn, env)
                r = self.compare(op, left, right)
                if isinstance(r, Opaque):
                    r = self.choose("compare")
                if not r:
                    return False
                left = right
            return True
        if t is ast.Subscript:
            v = ev(node.value, env)
            if isinstance(node.slice, ast.Slice):
                lo = ev(node.slice.lower, env) if node.slice.lower is not None else None
                hi = ev(node.slice.upper, env) if node.slice.upper is not None else None
                st = ev(node.slice.step, env) if node.slice.step is not None else None
                if self.unknown(v, lo, hi, st):
                    return Opaque("?")
                return v[lo:hi:st]
            i = ev(node.slice, env)
            if self.unknown(v, i):
                return Opaque(f"{getattr(v, 'name', '?')}[]")
            if isinstance(v, (ObjV, ClassV)):
                return Opaque("?")     # typing subscripts such as Deferred[None]
            return v[i]
        if t is ast.JoinedStr:
            out = ""
            for p in node.values:
                if isinstance(p, ast.Constant):
                    out += str(p.value)
                else:
                    val = ev(p.value, env)
                    if self.unknown(val) or isinstance(val, (ObjV, ClassV, FuncV, BoundV)):
                        val = "<?>"
                    if p.conversion == 114:
                        val = repr(val)
                    elif p.conversion == 115:
                        val = str(val)
                    spec = ev(p.format_spec, env) if p.format_spec is not None else ""
                    out += format(val, spec)
            return out
        if t in (ast.ListComp, ast.GeneratorExp, ast.SetComp, ast.DictComp):
            out = []

            def rec(i, scope):
                if i == len(node.generators):
                    if t is ast.DictComp:
                        out.append((ev(node.key, scope), ev(node.value, scope)))
                    else:
                        out.append(ev(node.elt, scope))
                    return
                gen = node.generators[i]
                for item in self.iterate(ev(gen.iter, scope)):
                    self.tick()
                    s2 = {"__outer__": scope, "__module__": scope["__module__"]}
                    self.bind(gen.target, item, s2)
                    if all(self.truth(ev(c, s2), "comprehension-if") for c in gen.ifs):
                        rec(i + 1, s2)
            rec(0, env)
            return set(out) if t is ast.SetComp else (dict(out) if t is ast.DictComp else out)
        if t is ast.Lambda:
            return FuncV(node, env["__module__"], closure=env)
        if t is ast.NamedExpr:
            v = ev(node.value, env)
            env[node.target.id] = v
            return v
        if t is ast.Call:
            return self.ev_call(node, env)
        if t in (ast.Yield, ast.YieldFrom):
            scope = env
            while scope is not None and "__yields__" not in scope and "__cm_body__" not in scope:
                scope = scope.get("__outer__")
            if scope is None:
                raise Unsupported("yield outside an eagerly evaluated generator")
            if "__cm_body__" in scope:
                if t is not ast.Yield:
                    raise Unsupported("yield from in a context manager")
                body = scope["__cm_body__"]
                if body is None:
                    raise Unsupported("context manager generator yields twice")
                scope["__cm_body__"] = None
                body(ev(node.value, env) if node.value is not None else None)
                return None
            if t is ast.Yield:
                scope["__yields__"].append(ev(node.value, env) if node.value is not None else None)
            else:
                scope["__yields__"].extend(self.iterate(ev(node.value, env)))
            return None
        if t is ast.Starred:
            raise Unsupported("starred")
        if t is ast.Slice:
            raise Unsupported("slice")
        raise Unsupported(t.__name__)

    def binop(self, op, a, b):
        if self.unknown(a, b) or isinstance(a, (ObjV, ClassV)) or isinstance(b, (ObjV, ClassV)):
            return Opaque("?")
        o = type(op)
        if o is ast.Add:
            return a + b
        if o is ast.Sub:
            return a - b
        if o is ast.Mult:
            if (isinstance(a, int) and abs(a) > 10 ** 6 and not isinstance(b, int)) or (isinstance(b, int) and abs(b) > 10 ** 6 and not isinstance(a, int)):
                raise Unsupported("huge repetition")
            return a * b
        if o is ast.Mod:
            return a % b
        if o is ast.FloorDiv:
            return a // b
        if o is ast.Div:
            return a / b
        if o is ast.Pow:
            if isinstance(b, int) and abs(b) > 256:
                raise Unsupported("pow")
            return a ** b
        if o is ast.BitAnd:
            return a & b
        if o is ast.BitOr:
            return a | b
        if o is ast.BitXor:
            return a ^ b
        if o is ast.LShift:
            if b > 256:
                raise Unsupported("shift")
            return a << b
        if o is ast.RShift:
            return a >> b
        raise Unsupported("binop")

    def compare(self, op, a, b):
        t = type(op)
        if t in (ast.Is, ast.IsNot):
            if isinstance(a, Opaque) or isinstance(b, Opaque):
                if a is b:
                    return t is ast.Is
                o, other = (a, b) if isinstance(a, Opaque) else (b, a)
                if o.solid and not isinstance(other, Opaque):
                    return t is ast.IsNot
                return Opaque("?")
            return (a is b) if t is ast.Is else (a is not b)
        if t in (ast.In, ast.NotIn):
            if self.unknown(a, b):
                return Opaque("?")
            if isinstance(b, (list, tuple, set, frozenset)) and any(isinstance(x, Opaque) for x in b):
                return Opaque("?")
            r = a in b
            return r if t is ast.In else not r
        if self.unknown(a, b):
            if a is b and t in (ast.Eq, ast.NotEq):
                return t is ast.Eq
            return Opaque("?")
        if isinstance(a, (ObjV, ClassV, FuncV)) or isinstance(b, (ObjV, ClassV, FuncV)):
            if t is ast.Eq:
                return a is b
            if t is ast.NotEq:
                return a is not b
            raise Unsupported("ordering of objects")
        if t is ast.Eq:
            return a == b
        if t is ast.NotEq:
            return a != b
        if t is ast.Lt:
            return a < b
        if t is ast.LtE:
            return a <= b
        if t is ast.Gt:
            return a > b
        return a >= b

    def iterate(self, v):
        if isinstance(v, Opaque):
            if self.choose("iterate " + v.name):
                return [Opaque(v.name + "[i]")]
            return []
        if isinstance(v, (ObjV, ClassV, FuncV, BoundV)):
            raise Unsupported("iteration over object")
        return list(v)

    # ---- calls ------------------------------------------------------------------------------------------
    def ev_call(self, node: ast.Call, env):
        fn = self.ev(node.func, env)
        args = []
        for a in node.args:
            if isinstance(a, ast.Starred):
                args.extend(self.iterate(self.ev(a.value, env)))
            else:
                args.append(self.ev(a, env))
        kwargs = {}
        for k in node.keywords:
            if k.arg is None:
                kwargs.update(self.ev(k.value, env))
            else:
                kwargs[k.arg] = self.ev(k.value, env)
        # receiver-aware native method calls
        if isinstance(node.func, ast.Attribute) and not isinstance(fn, (Opaque, BoundV, FuncV, ClassV)) and callable(fn) and not isinstance(fn, tuple):
            return self.native_call(fn, args, kwargs)
        return self.call(fn, args, kwargs, env)

    def native_call(self, fn, args, kwargs):
        recv = getattr(fn, "__self__", None)
        deep = any(isinstance(a, (list, tuple)) and any(isinstance(x, Opaque) for x in a) for a in args)
        if deep and getattr(fn, "__name__", "") not in ("append", "extend", "add", "insert", "setdefault", "update", "__setitem__", "len", "list", "tuple"):
            return Opaque("?")
        if self.unknown(*args, *kwargs.values()):
            if isinstance(recv, (list, bytearray, dict, set)) and getattr(fn, "__name__", "") in ("append", "extend", "add", "insert", "setdefault", "update", "__setitem__"):
                pass    # storing an unknown value is fine
            else:
                return Opaque("?")
        if any(isinstance(a, (FuncV, BoundV)) for a in args) and getattr(fn, "__name__", "") in ("map", "filter", "sorted", "min", "max"):
            f = args[0] if fn.__name__ in ("map", "filter") else None
            if f is not None:
                seqs = [self.iterate(a) for a in args[1:]]
                res = [self.call(f, list(xs), {}) for xs in zip(*seqs)]
                return res if fn.__name__ == "map" else [x for x, keep in zip(seqs[0], res) if self.truth(keep)]
            raise Unsupported("key function")
        if fn in (map, filter) and args and args[0] in _SAFE_BUILTINS.values():
            return list(fn(*args))
        r = fn(*args, **kwargs)
        if fn in (enumerate, zip, reversed, map, filter, iter) or type(r).__name__ in ("dict_items", "dict_keys", "dict_values"):
            r = list(r)
        return r

    def call(self, fn, args, kwargs=None, env=None):
        kwargs = kwargs or {}
        self.tick()
        if isinstance(fn, Opaque):
            st = self.stubs.get(fn.name)
            if st is None and self.stubs:
                for k, f in self.stubs.items():
                    if fn.name.endswith("." + k):
                        st = f
                        break
            if st is not None:
                return st(self, args, kwargs)
            self.events.append(Event("call", fn.name, args, kwargs, self.snapshot(), self.frames[-1] if self.frames else ""))
            return Opaque(fn.name + "()")
        if isinstance(fn, BoundV):
            if isinstance(fn.func, FuncV):
                return self.invoke(fn.func, [fn.obj] + list(args), kwargs)
            raise Unsupported("bound")
        if isinstance(fn, FuncV):
            return self.invoke(fn, list(args), kwargs)
        if isinstance(fn, ClassV):
            return self.instantiate(fn, args, kwargs)
        if isinstance(fn, tuple) and fn and fn[0] == "builtin":
            return self.builtin(fn[1], args, kwargs, env)
        if isinstance(fn, type) and issubclass(fn, BaseException):
            if self.unknown(*args):
                return fn("<?>")
            return fn(*args)
        if callable(fn):
            return self.native_call(fn, args, kwargs)
        if isinstance(fn, ObjV):
            found, f = self.class_member(fn.cls, "__call__")
            if found and isinstance(f, FuncV):
                return self.invoke(f, [fn] + list(args), kwargs)
        raise PyRaise(TypeError(f"{type(fn).__name__} object is not callable"))

    def builtin(self, name, args, kwargs, env):
        if name == "isinstance" or name == "issubclass":
            v, target = args
            if isinstance(v, Opaque):
                return Opaque("?")
            targets = target if isinstance(target, tuple) else (target,)
            if name == "issubclass":
                r = self.is_subclass(v, target)
                return Opaque("?") if r is None else r
            if isinstance(v, ObjV):
                r = self.is_subclass(v.cls, tuple(t for t in targets))
                return Opaque("?") if r is None else r
            res = False
            for tg in targets:
                if isinstance(tg, type):
                    res = res or isinstance(v, tg)
                elif isinstance(tg, Opaque):
                    return Opaque("?")
            return res
        if name == "getattr":
            if self.unknown(args[1]):
                return Opaque("?")
            if len(args) == 3:
                h = self.has_attr(args[0], args[1])
                if h is None:
                    return self.get_attr(args[0], args[1]) if self.choose("getattr default") else args[2]
                return self.get_attr(args[0], args[1]) if h else args[2]
            return self.get_attr(args[0], args[1])
        if name == "hasattr":
            h = self.has_attr(args[0], args[1])
            return Opaque("?") if h is None else h
        if name == "setattr":
            self.set_attr(args[0], args[1], args[2])
            return None
        if name == "type":
            v = args[0]
            return v.cls if isinstance(v, ObjV) else (Opaque("?") if isinstance(v, Opaque) else type(v))
        if name == "callable":
            return isinstance(args[0], (FuncV, BoundV, ClassV)) or (Opaque("?") if isinstance(args[0], Opaque) else callable(args[0]))
        if name == "id":
            return Opaque("id")
        if name == "print":
            return None
        if name == "super":
            return Opaque("super")
        raise Unsupported("builtin " + name)

    def instantiate(self, cls: ClassV, args, kwargs):
        key = cls.name
        if key in self.stubs:
            return self.stubs[key](self, args, kwargs)
        for c in self.mro(cls):
            if isinstance(c, type) and issubclass(c, BaseException) or (isinstance(c, ClassV) and c.name in ("Exception",)):
                break
        obj = self.new_object(cls)
        found, init = self.class_member(cls, "__init__")
        if found and isinstance(init, FuncV):
            self.invoke(init, [obj] + list(args), kwargs)
        else:
            obj.attrs["args"] = tuple(args)
        return obj

    def invoke(self, fn: FuncV, args, kwargs, cm_body=None):
        qual = fn.qual
        if qual in self.stubs:
            return self.stubs[qual](self, args, kwargs)
        if self.depth >= self.max_depth:
            raise Unsupported("call depth")
        node = fn.node
        scope = {"__module__": fn.module, "__outer__": fn.closure}
        a = node.args
        params = [p.arg for p in a.posonlyargs + a.args]
        if fn.kind == "static" and args and isinstance(args[0], ObjV) and len(args) > len(params) and not a.vararg:
            args = args[1:]
        pos = list(args)
        if len(pos) > len(params) and not a.vararg:
            raise PyRaise(TypeError(f"{qual}() takes {len(params)} positional arguments but {len(pos)} were given"))
        defaults = a.defaults
        for i, p in enumerate(params):
            if i < len(pos):
                scope[p] = pos[i]
            elif p in kwargs:
                scope[p] = kwargs.pop(p)
            else:
                j = i - (len(params) - len(defaults))
                if j < 0:
                    raise PyRaise(TypeError(f"{qual}() missing argument {p}"))
                scope[p] = self.ev(defaults[j], {"__module__": fn.module, "__outer__": fn.closure})
        if a.vararg:
            scope[a.vararg.arg] = tuple(pos[len(params):])
        for p, d in zip(a.kwonlyargs, a.kw_defaults):
            if p.arg in kwargs:
                scope[p.arg] = kwargs.pop(p.arg)
            elif d is not None:
                scope[p.arg] = self.ev(d, {"__module__": fn.module, "__outer__": fn.closure})
            else:
                raise PyRaise(TypeError(f"{qual}() missing keyword argument {p.arg}"))
        if a.kwarg:
            scope[a.kwarg.arg] = dict(kwargs)
        elif kwargs:
            raise PyRaise(TypeError(f"{qual}() got unexpected keyword arguments {sorted(kwargs)}"))
        self.events.append(Event("enter", qual, args[1:] if fn.owner is not None and fn.kind != "static" else args, where=self.frames[-1] if self.frames else ""))
        self.depth += 1
        self.frames.append(qual)
        try:
            if isinstance(node, ast.Lambda):
                return self.ev(node.body, scope)
            gen = getattr(node, "_sa_is_gen", None)
            if gen is None:
                gen = any(isinstance(n, (ast.Yield, ast.YieldFrom, ast.Await)) for st in node.body for n in _walk_no_nested(st))
                node._sa_is_gen = gen
            if gen:
                # a generator function without sends: evaluated eagerly into the list of the values it yields.  That is only the same
                # thing when producing the values has no effect the consumer could observe in between, so effects make it unsupported.
                if any(isinstance(n, ast.Await) for st in node.body for n in _walk_no_nested(st)):
                    raise Unsupported("coroutine " + qual)
                if cm_body is not None:
                    # @contextmanager generator driving a `with` block: the block runs where the generator yields, an exception of the
                    # block is raised at the yield (so the generator's try/finally / except see it)
                    scope["__cm_body__"] = cm_body
                    try:
                        self.block(node.body, scope)
                    except _Return:
                        pass
                    return None
                scope["__yields__"] = []
                n_events = len([e for e in self.events if e.kind in ("call", "set", "del")])
                try:
                    self.block(node.body, scope)
                except _Return:
                    pass
                if len([e for e in self.events if e.kind in ("call", "set", "del")]) != n_events:
                    raise Unsupported("generator with side effects " + qual)
                return scope["__yields__"]
            try:
                self.block(node.body, scope)
            except _Return as r:
                return r.value
            return None
        finally:
            self.depth -= 1
            self.frames.pop()

    # ---- statements ------------------------------------------------------------------------------------------
    def bind(self, target, value, env):
        if isinstance(target, ast.Name):
            env[target.id] = value
        elif isinstance(target, (ast.Tuple, ast.List)):
            if isinstance(value, Opaque):
                for e in target.elts:
                    self.bind(e.value if isinstance(e, ast.Starred) else e, Opaque(value.name + "[]"), env)
                return
            vals = self.iterate(value)
            star = [i for i, e in enumerate(target.elts) if isinstance(e, ast.Starred)]
            if star:
                i = star[0]
                after = len(target.elts) - i - 1
                if len(vals) < len(target.elts) - 1:
                    raise PyRaise(ValueError("not enough values to unpack"))
                parts = vals[:i] + [vals[i:len(vals) - after]] + vals[len(vals) - after:]
                for e, v in zip(target.elts, parts):
                    self.bind(e.value if isinstance(e, ast.Starred) else e, v, env)
                return
            if len(vals) != len(target.elts):
                raise PyRaise(ValueError(f"cannot unpack {len(vals)} values into {len(target.elts)}"))
            for e, v in zip(target.elts, vals):
                self.bind(e, v, env)
        elif isinstance(target, ast.Attribute):
            self.set_attr(self.ev(target.value, env), target.attr, value)
        elif isinstance(target, ast.Subscript):
            cont = self.ev(target.value, env)
            if isinstance(cont, Opaque):
                self.events.append(Event("call", cont.name + ".__setitem__", (value,), state=self.snapshot()))
                return
            if isinstance(target.slice, ast.Slice):
                lo = self.ev(target.slice.lower, env) if target.slice.lower is not None else None
                hi = self.ev(target.slice.upper, env) if target.slice.upper is not None else None
                cont[lo:hi] = value
            else:
                cont[self.ev(target.slice, env)] = value
        else:
            raise Unsupported("assignment target")

    def block(self, stmts, env):
        for st in stmts:
            self.stmt(st, env)

    def stmt(self, st, env):
        self.steps += 1
        try:
            self._stmt(st, env)
        except _PY_ERRORS as e:
            raise PyRaise(e)

    def _stmt(self, st, env):
        ev = self.ev
        t = type(st)
        if t is ast.Expr:
            if not isinstance(st.value, ast.Constant):
                ev(st.value, env)
        elif t is ast.Pass or t is ast.Global or t is ast.Nonlocal:
            pass
        elif t is ast.Assign:
            v = ev(st.value, env)
            for tg in st.targets:
                self.bind(tg, v, env)
        elif t is ast.AnnAssign:
            if st.value is not None:
                self.bind(st.target, ev(st.value, env), env)
        elif t is ast.AugAssign:
            cur = ev(st.target, env)
            val = ev(st.value, env)
            if isinstance(cur, (bytearray, list)) and isinstance(st.op, ast.Add) and not self.unknown(val):
                cur += val                      # in-place, like Python
                self.bind(st.target, cur, env)
            else:
                self.bind(st.target, self.binop(st.op, cur, val), env)
        elif t is ast.If:
            self.block(st.body if self.truth(ev(st.test, env), "if") else st.orelse, env)
        elif t is ast.For:
            broke = False
            seq = ev(st.iter, env)
            for item in (_live(seq) if isinstance(seq, (list, bytearray)) else self.iterate(seq)):
                self.tick()
                self.bind(st.target, item, env)
                try:
                    self.block(st.body, env)
                except _Break:
                    broke = True
                    break
                except _Continue:
                    continue
            if not broke:
                self.block(st.orelse, env)
        elif t is ast.While:
            n = 0
            broke = False
            while self.truth(ev(st.test, env), "while"):
                self.tick()
                n += 1
                if n > 20000:
                    raise Unsupported("loop bound")
                try:
                    self.block(st.body, env)
                except _Break:
                    broke = True
                    break
                except _Continue:
                    continue
            if not broke:
                self.block(st.orelse, env)
        elif t is ast.Return:
            raise _Return(ev(st.value, env) if st.value is not None else None)
        elif t is ast.Break:
            raise _Break()
        elif t is ast.Continue:
            raise _Continue()
        elif t is ast.Raise:
            if st.exc is None:
                cur = self.lookup("__exc__", env) if self._has(env, "__exc__") else RuntimeError("no active exception")
                raise PyRaise(cur)
            e = ev(st.exc, env)
            if isinstance(e, ClassV):
                e = self.instantiate(e, [], {})
            elif isinstance(e, type) and issubclass(e, BaseException):
                e = e()
            elif isinstance(e, Opaque):
                e = Opaque(e.name)
            raise PyRaise(e)
        elif t is ast.Assert:
            if not self.truth(ev(st.test, env), "assert"):
                raise PyRaise(AssertionError())
        elif t is ast.Delete:
            for tg in st.targets:
                if isinstance(tg, ast.Name):
                    env.pop(tg.id, None)
                elif isinstance(tg, ast.Attribute):
                    o = ev(tg.value, env)
                    if isinstance(o, (ObjV, Opaque)):
                        if isinstance(o, ObjV) and tg.attr not in o.attrs and self.class_complete(o.cls) and not self.class_member(o.cls, tg.attr)[0]:
                            raise PyRaise(AttributeError(tg.attr))
                        o.attrs.pop(tg.attr, None)
                        self.events.append(Event("del", f"{getattr(o, 'label', getattr(o, 'name', '?'))}.{tg.attr}"))
                    else:
                        raise Unsupported("del attribute")
                elif isinstance(tg, ast.Subscript):
                    cont = ev(tg.value, env)
                    if isinstance(cont, Opaque):
                        continue
                    if isinstance(tg.slice, ast.Slice):
                        lo = ev(tg.slice.lower, env) if tg.slice.lower is not None else None
                        hi = ev(tg.slice.upper, env) if tg.slice.upper is not None else None
                        sp = ev(tg.slice.step, env) if tg.slice.step is not None else None
                        del cont[lo:hi:sp]
                    else:
                        del cont[ev(tg.slice, env)]
                else:
                    raise Unsupported("del target")
        elif t in (ast.FunctionDef, ast.AsyncFunctionDef):
            env[st.name] = FuncV(st, env["__module__"], closure=env)
        elif t is ast.ClassDef:
            env[st.name] = ClassV(st, env["__module__"])
        elif t is ast.Try:
            self.try_stmt(st, env)
        elif t is ast.With:
            items = list(st.items)

            def run_items(i):
                if i == len(items):
                    self.block(st.body, env)
                    return
                it = items[i]
                ce = it.context_expr
                if isinstance(ce, ast.Call):
                    fn = ev(ce.func, env)
                    target = fn.func if isinstance(fn, BoundV) else fn
                    if isinstance(target, FuncV) and not isinstance(target.node, ast.Lambda) and any(
                            (d.id if isinstance(d, ast.Name) else getattr(d, "attr", "")) == "contextmanager" for d in target.node.decorator_list):
                        args = [ev(a, env) for a in ce.args]
                        kwargs = {k.arg: ev(k.value, env) for k in ce.keywords}
                        if isinstance(fn, BoundV):
                            args = [fn.obj] + args

                        def body(value, it=it, i=i):
                            if it.optional_vars is not None:
                                self.bind(it.optional_vars, value, env)
                            run_items(i + 1)
                        self.invoke(target, args, kwargs, cm_body=body)
                        return
                v = ev(ce, env)
                if it.optional_vars is not None:
                    self.bind(it.optional_vars, v if isinstance(v, Opaque) else Opaque("ctx"), env)
                run_items(i + 1)
            run_items(0)
        elif t in (ast.Import, ast.ImportFrom):
            for a in st.names:
                env[(a.asname or a.name).split(".")[0]] = Opaque(a.name)
        else:
            raise Unsupported("statement " + t.__name__)

    @staticmethod
    def _has(env, name):
        while env is not None:
            if name in env:
                return True
            env = env.get("__outer__")
        return False

    def matches(self, exc, handler_type) -> bool:
        if handler_type is None:
            return True
        targets = handler_type if isinstance(handler_type, tuple) else (handler_type,)
        res = False
        for tg in targets:
            if isinstance(tg, Opaque):
                if self.choose("except " + tg.name):
                    return True
                continue
            if isinstance(exc, ObjV):
                r = self.is_subclass(exc.cls, tg)
                if r is None:
                    r = self.choose("except")
                res = res or r
            elif isinstance(exc, BaseException):
                res = res or (isinstance(tg, type) and isinstance(exc, tg))
            elif isinstance(exc, Opaque):
                res = res or self.choose("except opaque")
        return res

    def try_stmt(self, st, env):
        try:
            try:
                self.block(st.body, env)
            except PyRaise as r:
                for h in st.handlers:
                    ht = self.ev(h.type, env) if h.type is not None else None
                    if self.matches(r.exc, ht):
                        env["__exc__"] = r.exc
                        if h.name:
                            env[h.name] = r.exc
                        self.block(h.body, env)
                        break
                else:
                    raise
            else:
                self.block(st.orelse, env)
        finally:
            if st.finalbody:
                self.block(st.finalbody, env)


def _live(seq):
    """Iterate a list the way Python does: by index over the live object, so elements appended during the loop are visited."""
    i = 0
    while i < len(seq):
        yield seq[i]
        i += 1


def _walk_no_nested(node):
    if isinstance(node, (ast.FunctionDef, ast.AsyncFunctionDef, ast.Lambda, ast.ClassDef)):
        yield node          # a nested definition: its body belongs to another scope
        return
    stack = [node]
    while stack:
        n = stack.pop()
        yield n
        for c in ast.iter_child_nodes(n):
            if not isinstance(c, (ast.FunctionDef, ast.AsyncFunctionDef, ast.Lambda, ast.ClassDef)):
                stack.append(c)
