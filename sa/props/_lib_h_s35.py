"""Structural layer of C35 (CFG dominance / must-pass / counting / normalised comparisons / table agreement) on the
normalised view of SSHTransportBase and SSHCiphers.  Rule names carry the prefix "s/".  A rule group that cannot read the
shape abstains with a note (the clause is then covered by the bounded layer in c35.py)."""
from __future__ import annotations

import ast
import struct

from sa.astx import NotConst, call_attr, call_name, const_eval, dotted, src, statements
from sa.source import class_assigns
from sa.props._lib_h import (Normaliser, abstain, assigned_pairs, call_nodes, calls_at, const_is, csrc, def_nodes, edge_path, flatten_add,
                              guarded_by_edges, lin, lincmp_c, local_aliases, need, pure_expr, reaching_defs, self_attr, stmts,
                              struct_fmt_norm, succ_on, tests, truth_edges)

TR = "conch/ssh/transport.py"
QT = "twisted.conch.ssh.transport.SSHTransportBase."
QS = "twisted.conch.ssh.transport.SSHCiphers."


class SCtx:
    """the checker context with every rule name prefixed "s/" (structural layer)"""

    def __init__(self, ctx):
        self._c = ctx

    def __getattr__(self, name):
        return getattr(self._c, name)

    def check(self, cond, rule, *a, **k):
        return self._c.check(cond, "s/" + rule, *a, **k)

    def ok(self, rule, *a, **k):
        return self._c.ok("s/" + rule, *a, **k)

    def violation(self, rule, *a, **k):
        return self._c.violation("s/" + rule, *a, **k)

    def floor(self, rule, *a, **k):
        return self._c.floor("s/" + rule, *a, **k)


CE = "self.currentEncryptions"
VDS = CE + ".verifyDigestSize"
DBS = CE + ".decBlockSize"
BUFLEN = "len(self.buf)"


def _cmp_edges(g, al, terms, c, at_least=False):
    wt = frozenset((k, v) for k, v in terms.items() if v)
    out = []
    for t in g.ids(lambda n: n.kind == "test"):
        e = g.node(t).ast
        for lab, neg in (("T", False), ("F", True)):
            nf = lincmp_c(e, al, negate=neg)
            if nf is not None and nf[0] == wt and (nf[1] == c or (at_least and nf[1] >= c)):
                out.append((t, lab))
    return out


def _other(lab):
    return "F" if lab == "T" else "T"


def _neighbour_stmt(g, n, forward):
    """the single statement executed directly after (before) CFG node n, else None"""
    if forward:
        nxt = [d for d, lab in g.succ[n] if lab != "exc"]
    else:
        nxt = [a for a in g.succ for d, lab in g.succ[a] if d == n and lab != "exc"]
    if len(nxt) == 1 and g.node(nxt[0]).kind == "stmt":
        return nxt[0]
    return None


def _buf_cut(g, n):
    """(slice taken from self.buf, slice kept in self.buf) when node n - or n and the statement next to it - cut the head off the buffer:
    ``x, self.buf = self.buf[:a], self.buf[b:]`` or ``x = self.buf[:a]`` directly followed by ``self.buf = self.buf[b:]``"""
    def parts(node):
        prs = assigned_pairs(g.node(node).ast) if isinstance(g.node(node).ast, ast.Assign) else []
        taken = [v for t, v in prs if isinstance(t, ast.Name) and v is not None and _slice_parts(v) and self_attr(_slice_parts(v)[0], "buf")]
        kept = [v for t, v in prs if self_attr(t, "buf") and v is not None and _slice_parts(v) and self_attr(_slice_parts(v)[0], "buf")]
        return taken, kept
    taken, kept = parts(n)
    if taken and kept:
        return taken[0], kept[0]
    other = _neighbour_stmt(g, n, forward=bool(taken))
    if other is None:
        return None
    t2, k2 = parts(other)
    if taken and k2 and not t2:
        return taken[0], k2[0]
    if kept and t2 and not k2:
        return t2[0], kept[0]
    return None


def _slice_parts(e):
    if isinstance(e, ast.Subscript) and isinstance(e.slice, ast.Slice) and e.slice.step is None:
        return e.value, e.slice.lower, e.slice.upper
    return None


def _incrs(g, attr):
    """[(node, ok)] for self.<attr> += 1 / self.<attr> = self.<attr> + 1; other writes give ok False."""
    out = []
    for n in stmts(g, lambda st: isinstance(st, (ast.AugAssign, ast.Assign))):
        st = g.node(n).ast
        if isinstance(st, ast.AugAssign) and self_attr(st.target, attr):
            out.append((n, isinstance(st.op, ast.Add) and const_is(st.value, 1)))
        elif isinstance(st, ast.Assign):
            for t, v in assigned_pairs(st):
                if self_attr(t, attr):
                    out.append((n, v is not None and lin(v) == (frozenset({(f"self.{attr}", 1)}), 1)))
    return out


def _bytes_consts(node):
    try:
        return const_eval(node, {})
    except NotConst:
        return None


def expand_local_helpers(fn, cls):
    """Analysis copy of ``fn`` in which ``[x =|return] self._h(a, ...)`` is replaced by the body of the private method
    ``_h`` of the same class (instance or static) when that body is a straight line ending in its only return.  Parameters
    are replaced by the argument expressions; a parameter the helper re-binds must be fed from a plain local that the
    caller does not read afterwards (the local is then re-bound in its place).  Anything else is left as it is."""
    from sa.source import methods as _methods
    table = _methods(cls)

    def helper(call):
        if not (isinstance(call, ast.Call) and isinstance(call.func, ast.Attribute) and isinstance(call.func.value, ast.Name)
                and call.func.value.id == "self" and call.func.attr.startswith("_") and not call.func.attr.startswith("__") and not call.keywords):
            return None
        h = table.get(call.func.attr)
        if not isinstance(h, ast.FunctionDef) or h.args.vararg or h.args.kwarg or h.args.kwonlyargs or h.args.defaults:
            return None
        decs = [src(d) for d in h.decorator_list]
        if decs not in ([], ["staticmethod"]):
            return None
        params = [a.arg for a in h.args.args][(0 if decs else 1):]
        body = [st for st in h.body if not (isinstance(st, ast.Expr) and isinstance(st.value, ast.Constant))]
        if len(params) != len(call.args) or not body or not isinstance(body[-1], ast.Return) or body[-1].value is None:
            return None
        if any(not isinstance(st, (ast.Assign, ast.Expr)) for st in body[:-1]) or any(isinstance(n, (ast.Yield, ast.YieldFrom, ast.Await, ast.Lambda)) for st in body for n in ast.walk(st)):
            return None
        return params, body

    def expand(st, later_reads):
        call = st.value if isinstance(st, (ast.Return, ast.Assign)) else None
        if isinstance(st, ast.Assign) and not (len(st.targets) == 1 and isinstance(st.targets[0], ast.Name)):
            return None
        hp = helper(call)
        if hp is None:
            return None
        params, body = hp
        stored = {n.id for b in body for n in ast.walk(b) if isinstance(n, ast.Name) and isinstance(n.ctx, ast.Store)}
        table_ = {}
        for p_, a in zip(params, call.args):
            if p_ in stored:
                if not isinstance(a, ast.Name) or a.id in later_reads:
                    return None
                table_[p_] = a.id
            else:
                if not pure_expr(a):
                    return None
                table_[p_] = src(a)
        caller_names = {n.id for n in ast.walk(fn) if isinstance(n, ast.Name)} | {a.arg for a in fn.args.args}
        if (stored - set(params)) & caller_names:
            return None
        out = []
        for b in body:
            text = ast.unparse(b)
            nb = ast.parse(text).body[0]

            class R(ast.NodeTransformer):
                def visit_Name(self, node):
                    if node.id in table_:
                        return ast.copy_location(ast.parse(table_[node.id], mode="eval").body if isinstance(node.ctx, ast.Load) else ast.Name(id=table_[node.id], ctx=ast.Store()), node)
                    return node
            nb = R().visit(nb)
            out.append(nb)
        last = out[-1]
        if isinstance(st, ast.Assign):
            out[-1] = ast.Assign(targets=[ast.Name(id=st.targets[0].id, ctx=ast.Store())], value=last.value, lineno=st.lineno)
        for o in out:
            ast.copy_location(o, st)
            for n in ast.walk(o):
                ast.copy_location(n, st)
        return out

    def block(stmts_, after):
        out = []
        for i, st in enumerate(stmts_):
            later = {n.id for s2 in stmts_[i + 1:] for n in ast.walk(s2) if isinstance(n, ast.Name) and isinstance(n.ctx, ast.Load)} | after
            for field in ("body", "orelse", "finalbody"):
                if isinstance(getattr(st, field, None), list) and not isinstance(st, (ast.FunctionDef, ast.AsyncFunctionDef, ast.ClassDef)):
                    setattr(st, field, block(getattr(st, field), later))
            new = expand(st, later)
            out.extend(new if new is not None else [st])
        return out

    if not any(helper(c) for c in ast.walk(fn) if isinstance(c, ast.Call)):
        return fn
    v = ast.parse(ast.unparse(fn)).body[0]
    v.body = block(v.body, set())
    ast.fix_missing_locations(v)
    for parent in ast.walk(v):
        for child in ast.iter_child_nodes(parent):
            child._parent = parent
    v._parent = getattr(fn, "_parent", None)
    return v


def structural(ctx0):
    ctx = SCtx(ctx0)
    _ok_gp = False; _ok_sp = False; _ok_nk = False; _ok_dr = False; rfmt = None; pst = None
    mod = ctx.mod(TR)
    VT = Normaliser(mod, ["SSHTransportBase"], {"sendDisconnect", "getPacket", "sendPacket", "dispatchMessage", "_unsupportedVersionReceived",
                                                   "_allowedKeyExchangeMessageType"}, subscripts=False).view
    _vc = Normaliser(mod, ["SSHCiphers"], set()).view
    _ciph = next(c for c in mod.classes() if c.name == "SSHCiphers")
    _vcc = {}

    def VC(f):
        if id(f) not in _vcc:
            _vcc[id(f)] = expand_local_helpers(_vc(f), _ciph)
        return _vcc[id(f)]
    mconst = {}
    for st in mod.tree.body:
        if isinstance(st, ast.Assign) and len(st.targets) == 1 and isinstance(st.targets[0], ast.Name) and isinstance(st.value, ast.Constant):
            mconst[st.targets[0].id] = st.value.value

    with abstain(ctx0, 's/getPacket/anchors', 'receiver/ and tamper/ (bounded)'):
        f = VT(ctx.func(TR, "SSHTransportBase.getPacket"))
        g = ctx.cfg(f)
        q = QT + "getPacket"
        al = local_aliases(f, allow=pure_expr)
        rets = stmts(g, lambda st: isinstance(st, ast.Return) and st.value is not None and not const_is(st.value, None))
        ctx.need(rets, "getPacket: return <payload>")
        ctx.check(len(rets) == 1 and isinstance(g.node(rets[0]).ast.value, ast.Name), "deliver/single-return", q, "getPacket has several / computed payload returns")
        ret = rets[0]
        pay = g.node(ret).ast.value.id if isinstance(g.node(ret).ast.value, ast.Name) else None
        pk_var = None
        if pay:
            for d in def_nodes(g, pay):
                for t, v in assigned_pairs(g.node(d).ast):
                    sp = _slice_parts(v) if v is not None else None
                    if isinstance(t, ast.Name) and t.id == pay and sp and isinstance(sp[0], ast.Name):
                        pk_var = sp[0].id
                        pay_slice = (d, sp)
        ctx.need(pk_var, "getPacket: payload = packet[hdr:-padding]")
        ups = [st for st in statements(f) if isinstance(st, ast.Assign) and isinstance(st.value, ast.Call) and call_name(st.value) in ("struct.unpack", "unpack")
               and isinstance(st.targets[0], (ast.Tuple, ast.List))]
        ctx.need(ups, "getPacket: struct.unpack of the header")
        rfmt = const_eval(ups[0].value.args[0], {})
        L, PAD = [src(e) for e in ups[0].targets[0].elts][:2]
        hdr = struct.calcsize(rfmt)
        first_name = src(_slice_parts(ups[0].value.args[1])[0]) if _slice_parts(ups[0].value.args[1]) else "first"
        consume = stmts(g, lambda st: isinstance(st, ast.Assign) and any(self_attr(t, "buf") and v is not None and _slice_parts(v) and self_attr(_slice_parts(v)[0], "buf")
                                                                         and _slice_parts(v)[1] is not None and L in csrc(_slice_parts(v)[1], al) for t, v in assigned_pairs(st)))
        disc = call_nodes(g, lambda c: call_name(c) == "self.sendDisconnect")
        def _is_verify(e):
            if isinstance(e, ast.Call) and csrc(e.func, al) == CE + ".verify":
                return True
            if isinstance(e, ast.Name):         # authentic = ...verify(...); if not authentic: ...
                vals = [v for st in statements(f) if isinstance(st, ast.Assign) for t, v in assigned_pairs(st) if isinstance(t, ast.Name) and t.id == e.id]
                return len(vals) == 1 and isinstance(vals[0], ast.Call) and csrc(vals[0].func, al) == CE + ".verify"
            return False
        ver_tests = tests(g, _is_verify)
        all_verify = [x for x in ast.walk(f) if isinstance(x, ast.Call) and csrc(x.func, al) == CE + ".verify"]
        if not ver_tests and all_verify:
            need(ctx, False, "getPacket calls verify() but not as a branch condition the analysis can follow")
        decomp = call_nodes(g, lambda c: csrc(c.func, al) == "self.incomingCompression.decompress")
        _ok_gp = True
    with abstain(ctx0, 's/getPacket/mac', 'receiver/ and tamper/ (bounded)'):
        ctx.need(_ok_gp, 'anchors of getPacket (section skipped)')
        ms_falsy = truth_edges(g, lambda e: csrc(e, al) == VDS, False)
        ms_truthy = truth_edges(g, lambda e: csrc(e, al) == VDS, True)
        ctx.check(bool(ver_tests), "mac/verified-before-delivery", q + " | verify()", "getPacket never calls currentEncryptions.verify: a tampered packet is delivered")
        passes = [(t, "T") for t in ver_tests] + ms_falsy
        for sink, what in [(ret, "returned to the dispatcher")] + [(d, "fed to the decompressor") for d in decomp]:
            w = edge_path(g, [g.entry], [sink], avoid_edges=passes)
            ctx.check(w is None, "mac/verified-before-delivery", ctx.construct(q, g.node(sink).ast),
                      f"a payload can be {what} although a MAC is configured and verify() did not succeed", witness=g.describe(w))
        # MAC mismatch -> DISCONNECT_MAC_ERROR
        mac_disc = [d for d in disc if any("DISCONNECT_MAC_ERROR" in src(c.args[0]) for c in calls_at(g, d, lambda c: call_name(c) == "self.sendDisconnect") if c.args)]
        for t in ver_tests:
            w = edge_path(g, succ_on(g, t, "F"), [g.exit], avoid_nodes=mac_disc)
            ctx.check(bool(mac_disc) and w is None, "mac/mismatch-disconnects", ctx.construct(q, g.node(t).ast),
                      "a MAC mismatch does not lead to sendDisconnect(DISCONNECT_MAC_ERROR)", witness=g.describe(w))
        for d in disc:
            w = edge_path(g, [d], [ret], strict=True)
            ctx.check(w is None, "deliver/nothing-after-disconnect", ctx.construct(q, g.node(d).ast),
                      "after sendDisconnect the packet is still delivered", witness=g.describe(w))
        ctx.floor("deliver/nothing-after-disconnect", len(disc), 4, "sendDisconnect sites in getPacket")
        for t in ver_tests:
            c = all_verify[0]
            cc = ctx.construct(q, c)
            ok3 = len(c.args) == 3
            ctx.check(ok3 and src(c.args[0]) == "self.incomingPacketSequence", "mac/covers-sequence-number", cc,
                      "verify() is not given self.incomingPacketSequence: replayed / reordered / dropped packets are accepted")
            ctx.check(ok3 and isinstance(c.args[1], ast.Name) and c.args[1].id == pk_var, "mac/authenticates-what-is-delivered", cc,
                      f"verify() authenticates {src(c.args[1]) if ok3 else '?'} but the payload is sliced from {pk_var}")
            if ok3 and isinstance(c.args[2], ast.Name):
                mv = c.args[2].id
                good = False
                rd = reaching_defs(g, mv, t)
                need(ctx, len(rd) == 1, f"getPacket: one definition of {mv} reaches verify()")
                cut = _buf_cut(g, rd[0])
                need(ctx, cut is not None, f"getPacket: {mv} cut from the head of self.buf (in one statement or two adjacent ones)")
                s1, s2 = _slice_parts(cut[0]), _slice_parts(cut[1])
                good = bool(s1[1] is None and s2[2] is None and s1[2] is not None and s2[1] is not None and csrc(s1[2], al) == VDS and csrc(s2[1], al) == VDS)
                ctx.check(good, "mac/mac-bytes-cut-from-buffer", cc, "the MAC compared is not exactly the verifyDigestSize bytes following the packet, removed from the buffer")
            else:
                ctx.check(False, "mac/mac-bytes-cut-from-buffer", cc, "MAC argument shape not recognised")
        # packet = first + decrypt(rest)
        for d in def_nodes(g, pk_var):
            for t, v in assigned_pairs(g.node(d).ast):
                if isinstance(t, ast.Name) and t.id == pk_var and v is not None:
                    ops = flatten_add(v)
                    okp = len(ops) == 2 and isinstance(ops[0], ast.Name) and isinstance(ops[1], ast.Call) and csrc(ops[1].func, al) == CE + ".decrypt"
                    ctx.check(okp, "decrypt/packet-is-first-block-plus-rest", ctx.construct(q, g.node(d).ast), "the plaintext packet is not <first block> + decrypt(<rest>)")
                    if okp:
                        first_var = ops[0].id
                        sp = _slice_parts(ops[1].args[0])
                        ctx.check(sp is not None and sp[2] is None and sp[1] is not None and csrc(sp[1], al) == DBS, "decrypt/packet-is-first-block-plus-rest",
                                  ctx.construct(q, g.node(d).ast) + " | rest", "the rest handed to decrypt() does not start after the first cipher block: a block is decrypted twice or skipped")
    with abstain(ctx0, 's/getPacket/header', 'receiver/ and tamper/ (bounded)'):
        ctx.need(_ok_gp, 'anchors of getPacket (section skipped)')
        sp = _slice_parts(ups[0].value.args[1])
        ctx.check(struct_fmt_norm(rfmt) == ("big", "LB") and sp is not None and isinstance(sp[0], ast.Name) and sp[1] is None and sp[2] is not None and src(sp[2]) == str(hdr),
                  "header/format", ctx.construct(q, ups[0]), f"the header is not read as big-endian uint32 length + uint8 padding from the first {hdr} bytes")
        d_, ps = pay_slice
        ctx.check(ps[1] is not None and src(ps[1]) == str(hdr) and ps[2] is not None and src(ps[2]) == f"-{PAD}", "header/payload-bounds", ctx.construct(q, g.node(d_).ast),
                  f"the payload is not packet[{hdr}:-{PAD}] (header and random padding stripped)")
    with abstain(ctx0, 's/getPacket/sequence', 'receiver/ and tamper/ (bounded)'):
        ctx.need(_ok_gp, 'anchors of getPacket (section skipped)')
        incs = _incrs(g, "incomingPacketSequence")
        inn = [n for n, ok in incs]
        for n, ok in incs:
            c = ctx.construct(q, g.node(n).ast)
            ctx.check(ok, "sequence/incoming-once-per-packet", c, "incomingPacketSequence is not advanced by exactly 1")
            w = edge_path(g, [n], [g.exit], avoid_nodes=[ret], strict=True)
            ctx.check(w is None, "sequence/incoming-once-per-packet", c + " | only when delivered",
                      "the sequence number advances although no packet is delivered: every later MAC check fails", witness=g.describe(w))
            w = edge_path(g, [n], inn, strict=True)
            ctx.check(w is None, "sequence/incoming-once-per-packet", c + " | once", "advanced twice for one packet", witness=g.describe(w))
            w = edge_path(g, [n], ver_tests, strict=True)
            ctx.check(w is None, "sequence/incoming-once-per-packet", c + " | after verify", "advanced before the MAC is verified with it", witness=g.describe(w))
        w = edge_path(g, [g.entry], [ret], avoid_nodes=inn)
        ctx.check(bool(inn) and w is None, "sequence/incoming-once-per-packet", q, "a packet is delivered without advancing incomingPacketSequence", witness=g.describe(w))
    with abstain(ctx0, 's/getPacket/first-block', 'receiver/ and tamper/ (bounded)'):
        ctx.need(_ok_gp, 'anchors of getPacket (section skipped)')
        dec_first = call_nodes(g, lambda c: csrc(c.func, al) == CE + ".decrypt" and c.args and _slice_parts(c.args[0]) is not None
                               and self_attr(_slice_parts(c.args[0])[0], "buf") and _slice_parts(c.args[0])[1] is None)
        ctx.need(dec_first, "getPacket: decrypt(self.buf[:bs])")
        have_block = _cmp_edges(g, al, {BUFLEN: 1, DBS: -1}, 0, at_least=True)
        # "a decrypted first block is stashed": hasattr(self, "first"), or x = getattr(self, "first", <sentinel>) tested with `x is [not] <sentinel>`
        stash_present = [(t, "T") for t in tests(g, lambda e: isinstance(e, ast.Call) and dotted(e.func) == "hasattr" and len(e.args) == 2 and src(e.args[0]) == "self"
                                                 and const_is(e.args[1], "first"))]

        def _single_def(name):
            vals = [v for st in statements(f) if isinstance(st, ast.Assign) for t, v in assigned_pairs(st) if isinstance(t, ast.Name) and t.id == name]
            return vals[0] if len(vals) == 1 else None
        for t in g.ids(lambda n: n.kind == "test"):
            e = g.node(t).ast
            if isinstance(e, ast.Compare) and len(e.ops) == 1 and isinstance(e.ops[0], (ast.Is, ast.IsNot)) and isinstance(e.left, ast.Name):
                rds = reaching_defs(g, e.left.id, t)
                dvs = [v for d_ in rds for t_, v in (assigned_pairs(g.node(d_).ast) if isinstance(g.node(d_).ast, ast.Assign) else []) if isinstance(t_, ast.Name) and t_.id == e.left.id]
                dv, sent = (dvs[0] if len(rds) == 1 and len(dvs) == 1 else None), e.comparators[0]
                if isinstance(dv, ast.Call) and dotted(dv.func) == "getattr" and len(dv.args) == 3 and src(dv.args[0]) == "self" and const_is(dv.args[1], "first") \
                        and src(dv.args[2]) == src(sent):
                    sd = _single_def(sent.id) if isinstance(sent, ast.Name) else sent
                    if (isinstance(sd, ast.Call) and dotted(sd.func) == "object" and not sd.args) or const_is(sd, None):
                        stash_present.append((t, "F" if isinstance(e.ops[0], ast.Is) else "T"))
        ctx.need(stash_present, "getPacket: test whether a decrypted first block is stashed in self.first")
        stash_absent = [(t, _other(lab)) for t, lab in stash_present]
        stash_t = [t for t, _ in stash_present]
        for d in dec_first:
            c = calls_at(g, d, lambda c: csrc(c.func, al) == CE + ".decrypt")[0]
            sp = _slice_parts(c.args[0])
            ctx.check(sp[2] is not None and csrc(sp[2], al) == DBS, "segmentation/first-block", ctx.construct(q, c) + " | width", "the first decryption is not exactly one cipher block")
            ctx.check(bool(have_block) and guarded_by_edges(g, d, have_block), "segmentation/first-block", ctx.construct(q, c),
                      "the first block is decrypted before a whole cipher block is buffered: the cipher stream is advanced over partial data")
            ctx.check(guarded_by_edges(g, d, stash_absent), "segmentation/first-block-decrypted-once", ctx.construct(q, c),
                      "the first block is decrypted again although an already decrypted copy is stashed in self.first (CBC/CTR state corrupted when a packet "
                      "arrives in two segments)")
    with abstain(ctx0, 's/getPacket/whole-packet', 'receiver/ and tamper/ (bounded)'):
        ctx.need(_ok_gp, 'anchors of getPacket (section skipped)')
        ctx.need(consume, "getPacket: self.buf = self.buf[4 + packetLen:] (after substituting single-assignment locals)")
        whole = _cmp_edges(g, al, {BUFLEN: 1, L: -1, VDS: -1}, 4)
        for cn in consume:
            cc = ctx.construct(q, g.node(cn).ast)
            ctx.check(bool(whole) and guarded_by_edges(g, cn, whole), "segmentation/wait-for-whole-packet", cc,
                      f"the packet is cut from the buffer without the exact guard len(buf) >= 4 + {L} + macLen: a packet (or its MAC) split across "
                      "deliveries is truncated, or a complete final packet is never delivered")
            cut = _buf_cut(g, cn)
            need(ctx, cut is not None, "getPacket: the packet cut from the head of self.buf (in one statement or two adjacent ones)")
            enc, rest = [cut[0]], [cut[1]]
            ok = _slice_parts(enc[0])[1] is None and _slice_parts(rest[0])[2] is None and _slice_parts(enc[0])[2] is not None and _slice_parts(rest[0])[1] is not None \
                and lin(_slice_parts(enc[0])[2], al) == (frozenset({(L, 1)}), 4) and lin(_slice_parts(rest[0])[1], al) == (frozenset({(L, 1)}), 4)
            ctx.check(ok, "segmentation/consume-exactly-packet", cc, f"the bytes taken and the bytes left do not meet at 4 + {L}")
        stash = stmts(g, lambda st: isinstance(st, ast.Assign) and any(self_attr(t, "first") and isinstance(v, ast.Name) and v.id == first_name for t, v in assigned_pairs(st)))
        short = [d for t, lab in whole for d in succ_on(g, t, _other(lab))]
        w = edge_path(g, short, [g.exit], avoid_nodes=stash)
        ctx.check(bool(stash) and w is None, "segmentation/first-block-kept", q + " | <need more data>",
                  "when the rest of the packet has not arrived yet the decrypted first block is thrown away: it is decrypted a second time on the next "
                  "delivery (works only for the 'none' cipher)", witness=g.describe(w))
        reuse = stmts(g, lambda st: isinstance(st, ast.Assign) and any(isinstance(t, ast.Name) and t.id == first_name and v is not None and self_attr(v, "first") for t, v in assigned_pairs(st)))
        clear = stmts(g, lambda st: (isinstance(st, ast.Delete) and any(self_attr(t, "first") for t in st.targets))) + stash
        for r in reuse:
            w = edge_path(g, [r], [g.exit], avoid_nodes=clear, strict=True)
            ctx.check(w is None, "segmentation/first-block-consumed-once", ctx.construct(q, g.node(r).ast),
                      "a stashed first block stays in self.first after its packet was consumed: it is taken as the header of the next packet", witness=g.describe(w))
            ctx.check(guarded_by_edges(g, r, stash_present), "segmentation/first-block-consumed-once", ctx.construct(q, g.node(r).ast) + " | guard",
                      "self.first is read although it may not exist")
        # read with a default (getattr(self, "first", <sentinel>)): always safe; the stashed block must be cleared on the paths where it was present
        reuse_d = stmts(g, lambda st: isinstance(st, ast.Assign) and any(isinstance(t, ast.Name) and t.id == first_name and isinstance(v, ast.Call) and dotted(v.func) == "getattr"
                                                                          and len(v.args) == 3 and src(v.args[0]) == "self" and const_is(v.args[1], "first") for t, v in assigned_pairs(st)))
        for r in reuse_d:
            starts = [d for t, lab in stash_present for d in succ_on(g, t, lab)]
            w = edge_path(g, starts, [g.exit], avoid_nodes=clear)
            ctx.check(w is None, "segmentation/first-block-consumed-once", ctx.construct(q, g.node(r).ast),
                      "a stashed first block stays in self.first after its packet was consumed: it is taken as the header of the next packet", witness=g.describe(w))
        need(ctx, reuse or reuse_d, "getPacket: the stashed first block read back (first = self.first / getattr(self, 'first', <sentinel>))")
        ctx.ok("segmentation/first-block-kept", q + " | <reuse>")
    with abstain(ctx0, 's/getPacket/lengths', 'receiver/ and tamper/ (bounded)'):
        ctx.need(_ok_gp, 'anchors of getPacket (section skipped)')
        def is_mod(l):
            return isinstance(l, ast.BinOp) and isinstance(l.op, ast.Mod) and csrc(l.right, al) == DBS and lin(l.left, al) == (frozenset({(L, 1)}), 4)

        def is_align(e):
            if isinstance(e, ast.Compare) and len(e.ops) == 1 and isinstance(e.ops[0], (ast.Eq, ast.NotEq)) and const_is(e.comparators[0], 0):
                return is_mod(e.left)
            return is_mod(e)        # the remainder used as a truth value: `if (packetLen + 4) % bs:`
        at = tests(g, is_align)
        aligned = [(t, ("T" if isinstance(g.node(t).ast.ops[0], ast.Eq) else "F") if isinstance(g.node(t).ast, ast.Compare) else "F") for t in at]
        ctx.check(bool(aligned) and guarded_by_edges(g, ret, aligned), "length/block-aligned", q, f"a packet whose length (4 + {L}) is not a multiple of the block size is not rejected")
        def is_declen(e):
            if isinstance(e, ast.Compare) and len(e.ops) == 1 and isinstance(e.ops[0], (ast.Eq, ast.NotEq)):
                d = lin(ast.BinOp(left=e.left, op=ast.Sub(), right=e.comparators[0]), al)
                return d in ((frozenset({(f"len({pk_var})", 1), (L, -1)}), -4), (frozenset({(f"len({pk_var})", -1), (L, 1)}), 4))
            return False
        dt = tests(g, is_declen)
        okl = [(t, "T" if isinstance(g.node(t).ast.ops[0], ast.Eq) else "F") for t in dt]
        ctx.check(bool(okl) and guarded_by_edges(g, ret, okl), "length/decrypted-length", q, f"a packet whose decrypted length differs from 4 + {L} is not rejected")
        big = []
        for t in g.ids(lambda n: n.kind == "test"):
            for lab, neg in (("T", False), ("F", True)):
                nf = lincmp_c(g.node(t).ast, al, negate=neg)
                if nf is not None and nf[0] == frozenset({(L, 1)}):
                    big.append((t, lab, nf[1]))
        if big:
            # not a verdict: the sender does not bound what it frames, so payloads above this limit - however validly framed - are refused by a peer running
            # the same code; which limit is right above the RFC minimum is the implementation's choice (outside the clause decided here)
            ctx0.note(f"s/length/limit: getPacket accepts packet_length <= {min(c - 1 for t, lab, c in big)} (RFC 4253 6.1 requires >= 35000); sendPacket puts no bound on the "
                      "payload it frames, so larger payloads are answered with DISCONNECT 'bad packet length' - sizes above the receiver's limit are outside the decided clause")
            ctx.extra["receiver_packet_length_limit"] = min(c - 1 for t, lab, c in big)
        ctx.check(bool(big) and all(c - 1 >= 35000 for t, lab, c in big), "length/limit-admits-rfc-minimum", q,
                  f"the packet length limit ({[c - 1 for t, lab, c in big]}) is missing or below the 35000 bytes every implementation must accept (RFC 4253 6.1)")
        for t, lab, c in big:
            w = edge_path(g, succ_on(g, t, lab), [g.exit], avoid_nodes=disc)
            ctx.check(w is None and guarded_by_edges(g, (consume or [ret])[0], [(t, _other(lab))]), "length/limit-admits-rfc-minimum", ctx.construct(q, g.node(t).ast),
                      "an over-long length field neither disconnects nor prevents the consumption", witness=g.describe(w))
    with abstain(ctx0, 's/getPacket/decompression', 'receiver/ and tamper/ (bounded)'):
        ctx.need(_ok_gp, 'anchors of getPacket (section skipped)')
        for d in decomp:
            st = g.node(d).ast
            ctx.check(guarded_by_edges(g, d, truth_edges(g, lambda e: self_attr(e, "incomingCompression"), True)) and isinstance(st, ast.Assign)
                      and any(isinstance(t, ast.Name) and t.id == pay for t in st.targets) and [src(a) for a in st.value.args] == [pay],
                      "compression/decompress-payload", ctx.construct(q, st), "decompression is not 'payload = incomingCompression.decompress(payload)' under 'if self.incomingCompression'")

    with abstain(ctx0, 's/sendPacket/anchors', 'sender/ and rekey/ (bounded)'):
        f = VT(ctx.func(TR, "SSHTransportBase.sendPacket"))
        g = ctx.cfg(f)
        q = QT + "sendPacket"
        al = local_aliases(f, allow=pure_expr)
        mt, pl = f.args.args[1].arg, f.args.args[2].arg
        wr = call_nodes(g, lambda c: call_name(c) == "self.transport.write")
        ctx.need(wr, "sendPacket: self.transport.write")
        _ok_sp = True
    with abstain(ctx0, 's/sendPacket/sequence-and-mac', 'sender/ and rekey/ (bounded)'):
        ctx.need(_ok_sp, 'anchors of sendPacket (section skipped)')
        incs = _incrs(g, "outgoingPacketSequence")
        onn = [n for n, ok in incs]
        mac_calls = call_nodes(g, lambda c: csrc(c.func, al) == CE + ".makeMAC")
        for n, ok in incs:
            c = ctx.construct(q, g.node(n).ast)
            ctx.check(ok, "sequence/outgoing-once-per-packet", c, "outgoingPacketSequence is not advanced by exactly 1")
            w = g.must_precede(wr, [n], exc=False)
            ctx.check(w is None, "sequence/outgoing-once-per-packet", c + " | only when written",
                      "the sequence number advances for a packet that was queued, not written: the peer's MAC check fails from then on", witness=g.describe(w))
            w = edge_path(g, [n], onn, strict=True)
            ctx.check(w is None, "sequence/outgoing-once-per-packet", c + " | once", "advanced twice for one packet")
            w = edge_path(g, [n], mac_calls, strict=True)
            ctx.check(w is None, "sequence/outgoing-once-per-packet", c + " | after MAC", "advanced before the MAC is computed with it", witness=g.describe(w))
        for wn in wr:
            w = edge_path(g, [wn], [g.exit], avoid_nodes=onn, strict=True)
            ctx.check(bool(onn) and w is None, "sequence/outgoing-once-per-packet", q, "a packet is written without advancing outgoingPacketSequence", witness=g.describe(w))
        def resolve(e, depth=0):
            """expression with single-definition locals replaced by what they were bound to"""
            if depth > 4:
                return e
            if isinstance(e, ast.Name):
                vals = [v for st in statements(f) if isinstance(st, ast.Assign) for t, v in assigned_pairs(st) if isinstance(t, ast.Name) and t.id == e.id]
                if len(vals) == 1 and vals[0] is not None and e.id not in (mt, pl):
                    return resolve(vals[0], depth + 1)
                return e
            if isinstance(e, ast.BinOp) and isinstance(e.op, ast.Add):
                return ast.BinOp(left=resolve(e.left, depth), op=ast.Add(), right=resolve(e.right, depth))
            return e
        for wn in wr:
            wcall = calls_at(g, wn, lambda c: call_name(c) == "self.transport.write")[0]
            parts = flatten_add(resolve(wcall.args[0])) if wcall.args else []
            enc = [p_ for p_ in parts if isinstance(p_, ast.Call) and csrc(p_.func, al) == CE + ".encrypt"]
            mac = [p_ for p_ in parts if isinstance(p_, ast.Call) and csrc(p_.func, al) == CE + ".makeMAC"]
            cc = q + " | <what is written>"
            need(ctx, len(parts) == 2 and len(enc) == 1 and len(mac) == 1, "sendPacket: transport.write(encrypt(packet) + makeMAC(seq, packet))")
            ctx.check(parts[0] is enc[0] and parts[1] is mac[0], "mac/sender", cc + " | order", "the MAC is not appended after the ciphertext")
            ok = len(mac[0].args) == 2 and src(mac[0].args[0]) == "self.outgoingPacketSequence"
            ctx.check(ok, "mac/covers-sequence-number", cc, "makeMAC is not given self.outgoingPacketSequence")
            ok = len(mac[0].args) == 2 and isinstance(mac[0].args[1], ast.Name) and [src(a_) for a_ in enc[0].args] == [src(mac[0].args[1])]
            ctx.check(ok, "mac/sender", cc, "the MAC is not computed over the very (plaintext) packet that is encrypted")
    with abstain(ctx0, 's/sendPacket/framing', 'sender/ and rekey/ (bounded)'):
        ctx.need(_ok_sp, 'anchors of sendPacket (section skipped)')
        packs = [c for c in ast.walk(f) if isinstance(c, ast.Call) and call_name(c) in ("struct.pack", "pack")]
        ctx.need(len(packs) == 1 and len(packs[0].args) == 3, "sendPacket: struct.pack(fmt, length, padlen)")
        pk = packs[0]
        sfmt = const_eval(pk.args[0], {})
        ctx.check(rfmt is not None and struct_fmt_norm(sfmt) == struct_fmt_norm(rfmt), "header/format", ctx.construct(q, pk), f"sender packs the header as {sfmt!r}, receiver unpacks {rfmt!r}")
        pst = pk
        while not isinstance(pst, ast.stmt):
            pst = pst._parent
        # the statement that assembles header + payload + padding (possibly through named temporaries)
        def single(e):
            for _ in range(4):
                if not isinstance(e, ast.Name):
                    break
                vals = [v for st in statements(f) if isinstance(st, ast.Assign) for t, v in assigned_pairs(st) if isinstance(t, ast.Name) and t.id == e.id]
                if len(vals) != 1 or vals[0] is None:
                    break
                e = vals[0]
            return e
        layout = None
        for st in statements(f):
            if isinstance(st, ast.Assign):
                ops = flatten_add(st.value)
                if len(ops) == 3 and single(ops[0]) is pk and isinstance(ops[1], ast.Name) and isinstance(ops[2], ast.Call) and len(ops[2].args) == 1 and "andom" in src(ops[2].func):
                    layout = (st, ops)
        need(ctx, layout is not None, "sendPacket: packet = header + payload + random padding")
        pst2, ops = layout
        bad = None
        n_eval = 0
        payv = ops[1].id
        # domain argument, checked on the code: the payload is looked at only through len(); everywhere else it is
        # passed on whole (concatenated, compressed, queued)
        for nm in [n for n in ast.walk(f) if isinstance(n, ast.Name) and n.id in (pl, payv) and isinstance(n.ctx, ast.Load)]:
            par = getattr(nm, "_parent", None)
            whole = (isinstance(par, ast.Call) and (call_name(par) == "len" or call_attr(par) in ("compress", "append", "encrypt", "makeMAC", "write"))) \
                or (isinstance(par, ast.BinOp) and isinstance(par.op, ast.Add)) or isinstance(par, (ast.Tuple, ast.Assign))
            need(ctx, whole, f"sendPacket reads the payload other than through len(): {src(par)[:60] if par is not None else nm.id} (domain argument not established)")
        BLOCKS = (8, 16, 32, 64)
        for B in BLOCKS:
            for n in range(0, 2 * B + 8):
                env = {pl: b"x" * n, mt: 94}
                try:
                    av = {CE + ".encBlockSize": B}
                    _run_straight(f.body, env, pst2, av, al)
                    length, padf, padn = _ce(pk.args[1], env, av), _ce(pk.args[2], env, av), _ce(ops[2].args[0], env, av)
                    body = env[payv]
                except (NotConst, KeyError) as e:
                    need(ctx, False, f"sendPacket framing not evaluable ({e})")
                n_eval += 1
                total = 4 + 1 + len(body) + padn
                if not (len(body) == n + 1 and padf == padn and 4 <= padn <= 255 and length == total - 4 and total % max(B, 8) == 0):
                    bad = bad or f"block size {B}, payload {n} bytes: length field {length}, padding field {padf}, padding bytes {padn}, packet {total} bytes"
        ctx.check(bad is None, "framing/padding-arithmetic", q + " | <length, padding>",
                  f"RFC 4253 6 violated (padding >= 4, total a multiple of the block size, length = payload + padding + 1): {bad}",
                  detail=f"{n_eval} evaluations of the repository's own arithmetic (const_eval, nothing run).  Domain argument: checked above that the "
                         "payload is read only through len() (otherwise passed on whole) and the arithmetic is +, -, %, < on len(payload) and the block size, "
                         f"so its outcome depends only on len(payload) mod block size and on one carry; for each block size B in {BLOCKS} the lengths "
                         "0..2B+7 visit every residue class at least twice (both sides of every carry): exhaustive over the classes the code can distinguish")
    with abstain(ctx0, 's/sendPacket/compression', 'sender/ and rekey/ (bounded)'):
        ctx.need(_ok_sp, 'anchors of sendPacket (section skipped)')
        comp = call_nodes(g, lambda c: csrc(c.func, al) == "self.outgoingCompression.compress")
        need(ctx, len(comp) == 1, "sendPacket: one outgoingCompression.compress site")
        cn = comp[0]
        flushes = [c for c in ast.walk(f) if isinstance(c, ast.Call) and csrc(c.func, al) == "self.outgoingCompression.flush"]
        modes = []
        for c in flushes:
            a_ = c.args[0] if c.args else None
            modes.append(a_.value if isinstance(a_, ast.Constant) else {"zlib.Z_SYNC_FLUSH": 2, "zlib.Z_FULL_FLUSH": 3}.get(src(a_)) if a_ is not None else 4)
        ctx.check(bool(flushes) and all(m in (2, 3) for m in modes), "compression/flushed-per-packet", q + " | <compressor flush>",
                  "the compressed payload is not followed by flush(Z_SYNC_FLUSH / Z_FULL_FLUSH): the peer cannot decompress the packet until later data arrives")
        fl_nodes = [n_ for c in flushes for n_ in g.ids_of(c)]
        w = edge_path(g, [cn], [g.exit], avoid_nodes=fl_nodes) if cn not in fl_nodes else None
        ctx.check(not flushes or w is None, "compression/flushed-per-packet", q + " | <flush on every path>", "compress() without flush() on some path", witness=g.describe(w))
        ctx.check(guarded_by_edges(g, cn, truth_edges(g, lambda e: self_attr(e, "outgoingCompression"), True)), "compression/sender", q + " | compress guard",
                  "compress is not under 'if self.outgoingCompression'")
    with abstain(ctx0, 's/sendPacket/rekey-queue', 'sender/ and rekey/ (bounded)'):
        ctx.need(_ok_sp, 'anchors of sendPacket (section skipped)')
        qapp = call_nodes(g, lambda c: call_name(c) == "self._blockedByKeyExchange.append")
        ctx.check(len(qapp) == 1, "rekey/queue", q + " | append", "messages blocked by a key exchange are not queued at the tail of _blockedByKeyExchange")
        for a in qapp:
            c = calls_at(g, a, lambda c: call_name(c) == "self._blockedByKeyExchange.append")[0]
            ctx.check(src(c.args[0]) == f"({mt}, {pl})", "rekey/queue", ctx.construct(q, c), "what is queued is not (messageType, payload)")
            w = edge_path(g, [a], wr, strict=True)
            ctx.check(w is None, "rekey/queue", ctx.construct(q, c) + " | not also sent", "a queued message is also sent immediately", witness=g.describe(w))

    with abstain(ctx0, 's/_newKeys/flush', 'rekey/ (bounded)'):
        f = VT(ctx.func(TR, "SSHTransportBase._newKeys"))
        g = ctx.cfg(f)
        q = QT + "_newKeys"
        loops = [n for n in g.ids(lambda n: n.kind == "for") if isinstance(g.node(n).ast.iter, ast.Name)]
        sp_ = call_nodes(g, lambda c: call_name(c) == "self.sendPacket")
        ok = False
        if loops and sp_:
            fr = g.node(loops[0]).ast
            holder = fr.iter.id
            defs = reaching_defs(g, holder, loops[0])
            ok_src = bool(defs) and all(any(isinstance(t, ast.Name) and t.id == holder and v is not None and self_attr(v, "_blockedByKeyExchange") for t, v in assigned_pairs(g.node(d).ast)) for d in defs)
            ctx.check(ok_src, "rekey/flush-in-order", ctx.construct(q, fr), "the messages re-sent after NEWKEYS are not the queue, in queue order")
            c = calls_at(g, sp_[0], lambda c: call_name(c) == "self.sendPacket")[0]
            tg = [src(e) for e in fr.target.elts] if isinstance(fr.target, (ast.Tuple, ast.List)) else []
            ctx.check(tg == [src(a) for a in c.args], "rekey/flush-in-order", ctx.construct(q, c), "queued (type, payload) pairs are re-sent with different fields")
            resets = stmts(g, lambda st: isinstance(st, ast.Assign) and any(self_attr(t, "_blockedByKeyExchange") for t, v in assigned_pairs(st)))
            done = stmts(g, lambda st: isinstance(st, ast.Assign) and any(self_attr(t, "_keyExchangeState") and v is not None and src(v) == "self._KEY_EXCHANGE_NONE" for t, v in assigned_pairs(st)))
            for what, nodes, why in (("the queue is detached", resets, "messages sent while flushing are lost or re-queued into the list being iterated"),
                                     ("_keyExchangeState returns to _KEY_EXCHANGE_NONE", done, "the queued messages are queued again instead of being sent")):
                w = g.must_precede(nodes, loops, exc=False)
                ctx.check(bool(nodes) and w is None, "rekey/flush-in-order", q + f" | {what}", f"re-sending starts before {what}: {why}", witness=g.describe(w))
            ok = True
        ctx.check(ok, "rekey/flush-in-order", q, "the queue of messages blocked during key exchange is never flushed")
        sw = stmts(g, lambda st: isinstance(st, ast.Assign) and any(self_attr(t, "currentEncryptions") and v is not None and self_attr(v, "nextEncryptions") for t, v in assigned_pairs(st)))
        w = edge_path(g, [g.entry], loops or [g.exit], avoid_nodes=sw)
        ctx.check(bool(sw) and w is None, "rekey/flush-in-order", q + " | new keys first", "queued messages are sent before the new keys are in use", witness=g.describe(w))
        _ok_nk = True
    with abstain(ctx0, 's/_newKeys/compression-table', 'rekey/ (bounded)'):
        ctx.need(_ok_nk, 'anchors of _newKeys (section skipped)')
        ca = class_assigns(ctx.cls(TR, "SSHTransportBase"))
        comps = _bytes_consts(ca.get("supportedCompressions"))
        ctx.need(isinstance(comps, list), "supportedCompressions literal")
        handled = {"out": {}, "in": {}}
        for t in g.ids(lambda n: n.kind == "test"):
            e = g.node(t).ast
            if isinstance(e, ast.Compare) and len(e.ops) == 1 and isinstance(e.ops[0], ast.Eq) and isinstance(e.comparators[0], ast.Constant):
                for d, attr in (("out", "outgoingCompressionType"), ("in", "incomingCompressionType")):
                    if self_attr(e.left, attr):
                        handled[d][e.comparators[0].value] = t
        for name in comps:
            if name == b"none":
                continue
            for d, attr, ctor in (("out", "outgoingCompression", "compressobj"), ("in", "incomingCompression", "decompressobj")):
                t = handled[d].get(name)
                okc = False
                if t is not None:
                    for s_ in succ_on(g, t, "T"):
                        st = g.node(s_).ast
                        okc = okc or (isinstance(st, ast.Assign) and any(self_attr(tt, attr) and isinstance(v, ast.Call) and call_attr(v) == ctor for tt, v in assigned_pairs(st)))
                ctx.check(okc, "tables/compression-handled", f"{q} | {name!r} {d}",
                          f"compression {name!r} is offered in supportedCompressions but _newKeys does not install a zlib.{ctor} for the "
                          f"{'outgoing' if d == 'out' else 'incoming'} direction: one side compresses and the other does not")
    with abstain(ctx0, 's/state/per-instance', 'rekey/queue-flushed-in-order (bounded, two transports)'):
        # a mutable container created in the class body is shared by every transport of the process; it is per-connection state only
        # if every instance rebinds it before mutating it
        from sa.effects import class_accesses
        tcls_ = ctx.cls(TR, "SSHTransportBase")
        for name, val in class_assigns(tcls_).items():
            mutable = isinstance(val, (ast.List, ast.Dict, ast.Set)) or (isinstance(val, ast.Call) and dotted(val.func) in ("list", "dict", "set", "deque", "collections.deque", "bytearray"))
            if not mutable:
                continue
            acc = class_accesses(mod, tcls_, {name}, receivers={"self"})
            inplace = [a for a in acc if a.kind not in ("assign", "rebind-empty", "delete")]
            rebinds = [a for a in acc if a.kind in ("assign", "rebind-empty")]
            if not inplace:
                ctx.ok("state/per-instance", f"{QT}{name}", "class-level container never mutated through self")
                continue
            ctx.check(bool(rebinds), "state/per-instance", f"{QT}{name}",
                      f"{name} is a mutable container created once in the class body and mutated through self ({inplace[0].func}: {inplace[0].kind}) but never "
                      "re-bound per instance: all transports of the process share it - messages queued on one connection are sent on another")
        ctx.ok("state/per-instance", QT + "<class-level containers>")
    with abstain(ctx0, 's/sendPacket/kex-blocking', 'rekey/queue-flushed-in-order (bounded)'):
        ctx.need(_ok_sp, 'anchors of sendPacket (section skipped)')
        f, g, q = VT(ctx.func(TR, "SSHTransportBase.sendPacket")), None, QT + "sendPacket"
        g = ctx.cfg(f)
        wr = call_nodes(g, lambda c: call_name(c) == "self.transport.write")
        idle = []       # edges on which no key exchange is in progress
        for t in g.ids(lambda n: n.kind == "test"):
            e = g.node(t).ast
            if isinstance(e, ast.Compare) and len(e.ops) == 1 and {src(e.left), src(e.comparators[0])} == {"self._keyExchangeState", "self._KEY_EXCHANGE_NONE"}:
                if isinstance(e.ops[0], (ast.Eq, ast.Is)):
                    idle.append((t, "T"))
                elif isinstance(e.ops[0], (ast.NotEq, ast.IsNot)):
                    idle.append((t, "F"))
        allowed = [(t, "T") for t in tests(g, lambda e: isinstance(e, ast.Call) and call_name(e) == "self._allowedKeyExchangeMessageType")]
        need(ctx, bool(idle) and bool(allowed), "sendPacket: tests of _keyExchangeState and _allowedKeyExchangeMessageType as branch conditions")
        for wn in wr:
            w = edge_path(g, [g.entry], [wn], avoid_edges=idle + allowed)
            ctx.check(w is None, "kex/blocked-before-write", q + " | <transport.write>",
                      "a message can reach transport.write although a key exchange is in progress and the message type is not allowed during key exchange "
                      "(RFC 4253 7.1): it is encrypted with keys the peer is about to replace", witness=g.describe(w))
    with abstain(ctx0, 's/kex/negotiation-slots', 'kex/both-ends-agree (bounded)'):
        # the eight negotiated slots (kex, host key, cipher / MAC / compression per direction) are chosen by ONE rule: written as calls of the same
        # function with the own and the peer's list in the same argument roles.  A slot computed differently (first of OUR list regardless of role ...)
        # makes the two ends pick different algorithms for it.
        kf = ctx.func(TR, "SSHTransportBase.ssh_KEXINIT")
        slots = {}
        for st in statements(kf):
            if isinstance(st, ast.Assign) and len(st.targets) == 1 and isinstance(st.targets[0], ast.Attribute) and isinstance(st.targets[0].value, ast.Name) \
                    and st.targets[0].value.id == "self":
                nm = st.targets[0].attr
                if nm in ("kexAlg", "keyAlg", "outgoingCompressionType", "incomingCompressionType"):
                    slots[nm] = st.value
                if nm == "nextEncryptions" and isinstance(st.value, ast.Call) and len(st.value.args) == 4:
                    for i_, a_ in enumerate(st.value.args):
                        slots[f"nextEncryptions[{i_}]"] = a_
        ctx.need(len(slots) == 8 and all(isinstance(v, ast.Call) and len(v.args) == 2 and not v.keywords for v in slots.values()),
                 "ssh_KEXINIT: eight slots each negotiated by a two-argument call")

        def role(a, depth=0):
            if isinstance(a, ast.Name) and depth < 3:
                defs_ = [v for st_ in statements(kf) if isinstance(st_, ast.Assign) for t_, v in assigned_pairs(st_) if isinstance(t_, ast.Name) and t_.id == a.id and v is not None]
                if len(defs_) == 1:
                    return role(defs_[0], depth + 1)
            if any(isinstance(x, ast.Attribute) and isinstance(x.value, ast.Name) and x.value.id == "self" and x.attr.startswith("supported") for x in ast.walk(a)):
                return "own list"
            if isinstance(a, ast.Subscript) and isinstance(a.value, ast.Name):
                return f"{a.value.id}[..]"
            return "peer list"

        def shape(v):
            r = [role(a) for a in v.args]
            # indexed tuples built for the purpose (client[i], server[i]) keep their names; direct operands are own / peer
            return (src(v.func), tuple(r))
        shapes = {k: shape(v) for k, v in slots.items()}
        # lists taken from the peer's message by index (outs[0], ins[1] ...) are peer lists
        norm_ = {k: (fn_, tuple("peer list" if r_.endswith("[..]") and r_[:-4] in ("outs", "ins") else r_ for r_ in rs)) for k, (fn_, rs) in shapes.items()}
        kinds = {}
        for k, sh in norm_.items():
            kinds.setdefault(sh, []).append(k)
        major = max(kinds.values(), key=len)
        odd = sorted(k for sh, ks in kinds.items() if ks is not major for k in ks)
        ctx.check(len(kinds) == 1, "kex/slots-negotiated-alike", QT + "ssh_KEXINIT | <the eight negotiated slots>",
                  f"{odd} are negotiated as {[f'{norm_[k][0]}({', '.join(norm_[k][1])})' for k in odd][:2]} while the other slots use "
                  f"{norm_[major[0]][0]}({', '.join(norm_[major[0]][1])}): the two ends apply different rules to these name-lists and can pick different algorithms "
                  "(RFC 4253 7.1: for every list, the first algorithm of the client's list that the server supports)")
    with ctx.section('tables'):
        ca = class_assigns(ctx.cls(TR, "SSHTransportBase"))
        ccls = ctx.cls(TR, "SSHCiphers")
        cca = class_assigns(ccls)
        macmap = cca.get("macMap")
        ciphmap = cca.get("cipherMap")
        ctx.need(isinstance(macmap, ast.Dict) and isinstance(ciphmap, ast.Dict), "SSHCiphers.macMap / cipherMap")
        mkeys = {_bytes_consts(k) for k in macmap.keys}
        ckeys = {_bytes_consts(k) for k in ciphmap.keys}
        macs = _bytes_consts(ca.get("supportedMACs"))
        ctx.need(isinstance(macs, list), "supportedMACs literal")
        for m in macs:
            ctx.check(m in mkeys, "tables/mac-known", f"{QT}supportedMACs | {m!r}", f"MAC {m!r} is offered but SSHCiphers.macMap has no entry: _getMAC raises KeyError after negotiation")
        ctx.floor("tables/mac-known", len(macs), 3)
        gsc = ctx.func(TR, "_getSupportedCiphers")
        lists = [_bytes_consts(st.value) for st in statements(gsc) if isinstance(st, ast.Assign) and isinstance(st.value, ast.List) and st.value.elts]
        ctx.need(lists and isinstance(lists[0], list), "_getSupportedCiphers: candidate list")
        for c in lists[0]:
            ctx.check(c in ckeys, "tables/cipher-known", f"twisted.conch.ssh.transport._getSupportedCiphers | {c!r}", f"cipher {c!r} is a candidate but SSHCiphers.cipherMap has no entry")
        ctx.floor("tables/cipher-known", len(lists[0]), 4)
        ctx.check(b"none" in mkeys and b"none" in ckeys, "tables/none-entries", QS + "macMap/cipherMap | none",
                  "the initial (pre-key-exchange) 'none' cipher / MAC has no table entry")

    with abstain(ctx0, 's/SSHCiphers/makeMAC~verify', 'mac/peer-agreement-and-sensitivity and setkeys/ (bounded)'):
        mm = VC(ctx.func(TR, "SSHCiphers.makeMAC"))
        vf = VC(ctx.func(TR, "SSHCiphers.verify"))
        shapes = {}
        for fn, direction in ((mm, "out"), (vf, "in")):
            q = QS + fn.name
            mac_attr = f"{direction}MAC"
            wrong = "inMAC" if direction == "out" else "outMAC"
            ctx.check(not any(isinstance(n, ast.Attribute) and n.attr == wrong for n in ast.walk(fn)), "mac/direction", q,
                      f"{fn.name} uses self.{wrong}: the {'outgoing' if direction == 'out' else 'incoming'} MAC is computed with the key of the other direction")
            seqp, datap = fn.args.args[1].arg, fn.args.args[2].arg
            hm = [c for c in ast.walk(fn) if isinstance(c, ast.Call) and call_name(c) in ("hmac.HMAC", "hmac.new", "HMAC")]
            ctx.need(len(hm) == 1 and len(hm[0].args) == 3, f"{fn.name}: one hmac.HMAC(key, message, digestmod) call (directly or in a straight-line private helper)")
            msg = hm[0].args[1]
            reb = [st for st in statements(fn) if isinstance(st, ast.Assign) and any(isinstance(t, ast.Name) and t.id == datap for t in st.targets)]
            if isinstance(msg, ast.Name) and msg.id == datap and len(reb) == 1:
                authenticated = reb[0].value
            elif isinstance(msg, ast.Name) and msg.id == datap and not reb:
                authenticated = msg
            elif isinstance(msg, ast.Name):
                defs = [st for st in statements(fn) if isinstance(st, ast.Assign) and any(isinstance(t, ast.Name) and t.id == msg.id for t in st.targets)]
                ctx.need(len(defs) == 1 and not reb, f"{fn.name}: the authenticated string has one definition")
                authenticated = defs[0].value
            else:
                ctx.need(not reb, f"{fn.name}: the authenticated string has one definition")
                authenticated = msg
            okr = False
            fmt = None
            ops = flatten_add(authenticated)
            if len(ops) == 2 and isinstance(ops[0], ast.Call) and call_name(ops[0]) in ("struct.pack", "pack") and len(ops[0].args) == 2 \
                    and src(ops[0].args[1]) == seqp and src(ops[1]) == datap:
                fmt = const_eval(ops[0].args[0], {})
                okr = struct_fmt_norm(fmt) == ("big", "L")
            ctx.check(okr, "mac/covers-sequence-number", q, f"the authenticated string is not uint32(sequence number) || packet in {fn.name}: {src(authenticated)[:80]}")
            okh = src(hm[0].args[0]) == f"self.{mac_attr}.key" and src(hm[0].args[2]) == f"self.{mac_attr}[0]"
            ctx.check(okh, "mac/siblings-agree", q, f"{fn.name} does not compute HMAC(self.{mac_attr}.key, seq||packet, self.{mac_attr}[0])")
            shapes[direction] = (fmt, [src(hm[0].args[0]).replace(mac_attr, "XMAC"), src(hm[0].args[2]).replace(mac_attr, "XMAC")])
            g = ctx.cfg(fn)
            off = truth_edges(g, lambda e, a=mac_attr: src(e) == f"self.{a}[0]", False)
            ctx.check(bool(off), "mac/none-path", q, f"{fn.name} has no branch for 'no MAC configured'")
            if hm and okh:
                hn = g.ids_of(hm[0])
                on = truth_edges(g, lambda e, a=mac_attr: src(e) == f"self.{a}[0]", True)
                ctx.check(bool(hn) and guarded_by_edges(g, hn[0], on) if on else True, "mac/none-path", q + " | hmac guarded", "HMAC computed although no MAC is configured")
        ctx.check(shapes["out"] == shapes["in"], "mac/siblings-agree", QS + "makeMAC ~ verify",
                  f"makeMAC and verify authenticate different strings / digests: {shapes['out']} vs {shapes['in']}")
    with abstain(ctx0, 's/SSHCiphers/verify-compare', 'mac/peer-agreement-and-sensitivity and setkeys/ (bounded)'):
        vf = VC(ctx.func(TR, "SSHCiphers.verify"))
        g = ctx.cfg(vf)
        q = QS + "verify"
        macp = vf.args.args[3].arg
        dig = {t.id for st in statements(vf) if isinstance(st, ast.Assign) and isinstance(st.value, ast.Call) and call_attr(st.value) == "digest" for t in st.targets if isinstance(t, ast.Name)}
        rr = stmts(g, lambda st: isinstance(st, ast.Return))
        seen_cmp = False
        for r in rr:
            v = g.node(r).ast.value
            if isinstance(v, ast.Call) and call_name(v) == "hmac.compare_digest":
                ab = {src(a) for a in v.args}
            elif isinstance(v, ast.Compare) and len(v.ops) == 1 and isinstance(v.ops[0], ast.Eq):
                ab = {src(v.left), src(v.comparators[0])}
            else:
                ab = None
            if v is not None and ab is not None:
                inline_dig = {src(a) for a in ast.walk(v) if isinstance(a, ast.Call) and call_attr(a) == "digest" and src(a) in ab}
                dig = dig | inline_dig
            if ab is not None and ab & dig:
                seen_cmp = True
                ctx.check(ab == {macp} | (ab & dig) and len(ab) == 2, "mac/whole-digest-compared", ctx.construct(q, g.node(r).ast),
                          "verify() does not compare the complete received MAC with the complete computed digest")
            elif ab is not None and macp in ab:
                ctx.check(ab == {macp, "b''"}, "mac/none-path", ctx.construct(q, g.node(r).ast), "without a MAC configured verify() must accept only an empty MAC")
            else:
                ctx.check(False, "mac/whole-digest-compared", ctx.construct(q, g.node(r).ast), "verify() returns something that is not a comparison of the MAC")
        ctx.check(seen_cmp, "mac/whole-digest-compared", q, "verify() never compares the computed digest with the received MAC")
    with abstain(ctx0, 's/SSHCiphers/setKeys', 'mac/peer-agreement-and-sensitivity and setkeys/ (bounded)'):
        sk = VC(ctx.func(TR, "SSHCiphers.setKeys"))
        q = QS + "setKeys"

        def direction(name):
            for p, d in (("out", "out"), ("enc", "out"), ("in", "in"), ("dec", "in"), ("verify", "in")):
                if name.startswith(p) and (len(name) == len(p) or name[len(p)].isupper() or name[len(p):] in ("ryptor",)):
                    return d
            return None
        lenv = {}
        n_dir = 0
        for st in sk.body:
            for sub in ([st] if not isinstance(st, ast.If) else [st] + st.body):
                if not isinstance(sub, (ast.Assign, ast.If)):
                    continue
                node = sub.test if isinstance(sub, ast.If) else sub
                ds = set()
                for n in ast.walk(node):
                    nm = n.attr if isinstance(n, ast.Attribute) else n.id if isinstance(n, ast.Name) else None
                    if nm is None:
                        continue
                    d = lenv.get(nm) if isinstance(n, ast.Name) and nm in lenv and isinstance(n.ctx, ast.Load) else direction(nm)
                    if d:
                        ds.add(d)
                if isinstance(sub, ast.Assign):
                    n_dir += 1
                    ctx.check(len(ds) <= 1, "setkeys/direction-consistent", ctx.construct(q, sub),
                              "an outgoing field is computed from incoming material or vice versa (keys / block size / digest size of the wrong direction)")
                    for t in sub.targets:
                        if isinstance(t, ast.Name) and len(ds) == 1:
                            lenv[t.id] = next(iter(ds))
        ctx.floor("setkeys/direction-consistent", n_dir, 8, "assignments")

    with abstain(ctx0, 's/dataReceived/anchors', 'version/ (bounded)'):
        f = VT(ctx.func(TR, "SSHTransportBase.dataReceived"))
        g = ctx.cfg(f)
        q = QT + "dataReceived"
        al = {}
        gp = call_nodes(g, lambda c: call_name(c) == "self.getPacket")
        ctx.need(gp, "dataReceived: self.getPacket()")
        gv_true = truth_edges(g, lambda e: self_attr(e, "gotVersion"), True)
        gv_set = stmts(g, lambda st: isinstance(st, ast.Assign) and any(self_attr(t, "gotVersion") and const_is(v, True) for t, v in assigned_pairs(st)))
        ctx.need(gv_set, "dataReceived: self.gotVersion = True")
        _ok_dr = True
    with abstain(ctx0, 's/dataReceived/version-escapes', 'version/ (bounded)'):
        ctx.need(_ok_dr, 'anchors of dataReceived (section skipped)')
        # nodes reachable while the version is still unknown; each edge from there into a getPacket() call is one escape
        gvt = set(gv_true)
        unknown = g.reach([g.entry], avoid=set(gv_set) | set(gp), edge_ok=lambda a, b, l: l != "exc" and (a, l) not in gvt)
        escapes = sorted({(p_, lab) for n in gp for p_, lab in g.pred[n] if p_ in unknown and lab != "exc" and (p_, lab) not in gvt and p_ not in gp})
        scan_loops = [n for n in g.ids(lambda n: n.kind == "for") if any(edge_path(g, [n], [s_], strict=True) for s_ in gv_set)]
        seen_labels = set()
        for p_, lab in escapes:
            w = edge_path(g, [g.entry], [p_], avoid_nodes=gv_set, avoid_edges=gv_true)
            # semantic label of the escape: does every version-less way to it run through the end of the version scan?
            via_scan = (p_ in scan_loops and lab == "done") or bool(scan_loops) and edge_path(
                g, [g.entry], [p_], avoid_nodes=gv_set, avoid_edges=list(gv_true) + [(l, "done") for l in scan_loops]) is None
            label = "<version scan ended without a version line>" if via_scan else f"{g.node(p_).text()} -> self.getPacket()"
            if label in seen_labels:
                continue
            seen_labels.add(label)
            ctx.violation("version/packets-only-after-version", f"{q} | {label}",
                          "getPacket() is reached while the peer's version line has not been seen: identification (banner) text delivered on its own is parsed "
                          "as a binary packet and the connection is dropped with 'bad packet length'", witness=g.describe((w or []) + [gp[0]]))
        if not escapes:
            ctx.ok("version/packets-only-after-version", q)
    with abstain(ctx0, 's/dataReceived/version-loop', 'version/ (bounded)'):
        ctx.need(_ok_dr, 'anchors of dataReceived (section skipped)')
        loops = [n for n in g.ids(lambda n: n.kind == "for") if any(edge_path(g, [n], [s], strict=True) for s in gv_set)]
        ctx.need(loops, "dataReceived: for p in lines")
        loop = loops[0]
        fr = g.node(loop).ast
        for s in gv_set:
            w = edge_path(g, [s], [loop], strict=True)
            ctx.check(w is None, "version/first-version-line-only", q + " | <version line accepted, scan continues>",
                      "after the version line was accepted the remaining 'lines' - which are binary packet data - are still scanned for 'SSH-': a payload "
                      "containing '\\nSSH-...\\n' that arrives in the same segment is taken for a second version line and the packet stream is cut",
                      witness=g.describe(w))
        lvs = {x.id for x in ast.walk(fr.target) if isinstance(x, ast.Name)}
        sw_t = tests(g, lambda e: isinstance(e, ast.Call) and isinstance(e.func, ast.Attribute) and e.func.attr == "startswith" and isinstance(e.func.value, ast.Name)
                     and e.func.value.id in lvs and len(e.args) == 1 and _bytes_consts(e.args[0]) == b"SSH-")
        ctx.need(sw_t, "dataReceived: <loop variable>.startswith(b'SSH-') test in the scan loop")
        for s in gv_set:
            ctx.check(bool(sw_t) and guarded_by_edges(g, s, [(t, "T") for t in sw_t]), "version/banner-lines-skipped", ctx.construct(q, g.node(s).ast) + " | guard",
                      "a line that does not start with 'SSH-' is accepted as the version line")
    with abstain(ctx0, 's/dataReceived/length-limit', 'version/ (bounded)'):
        ctx.need(_ok_dr, 'anchors of dataReceived (section skipped)')
        lim = []
        for t in g.ids(lambda n: n.kind == "test"):
            for lab, neg in (("T", False), ("F", True)):
                nf = lincmp_c(g.node(t).ast, al, negate=neg)
                if nf is not None and nf[0] == frozenset({(BUFLEN, 1)}):
                    lim.append((t, lab, nf[1]))
        disc = call_nodes(g, lambda c: call_name(c) == "self.sendDisconnect")
        okl = False
        for t, lab, c in lim:
            w = edge_path(g, succ_on(g, t, lab), [g.exit], avoid_nodes=disc)
            w2 = edge_path(g, succ_on(g, t, lab), gp)
            if w is None and w2 is None and 255 <= c - 1 <= 65536:
                okl = True
        ctx.check(okl, "version/length-limit", q, "an endless banner is buffered without limit (no 'len(self.buf) > N: disconnect; return' before the version is known)")
    with abstain(ctx0, 's/dataReceived/rest-preserved', 'version/ (bounded)'):
        ctx.need(_ok_dr, 'anchors of dataReceived (section skipped)')
        lv, fr = None, None
        for n_ in g.ids(lambda n: n.kind == "for"):
            if any(edge_path(g, [n_], [s], strict=True) for s in gv_set) and isinstance(g.node(n_).ast.target, ast.Name):
                fr = g.node(n_).ast
                lv = fr.target.id
        ctx.need(fr is not None, "dataReceived: for p in lines")
        splits = [st for st in statements(f) if isinstance(st, ast.Assign) and isinstance(st.value, ast.Call) and call_name(st.value) == "self.buf.split"]
        joins = [st for st in statements(f) if isinstance(st, ast.Assign) and any(self_attr(t, "buf") for t in st.targets) and isinstance(st.value, ast.Call) and call_attr(st.value) == "join"]
        okj = False
        if splits and joins:
            sep1 = _bytes_consts(splits[0].value.args[0]) if splits[0].value.args else None
            sep2 = _bytes_consts(joins[0].value.func.value)
            lines_v = splits[0].targets[0].id if isinstance(splits[0].targets[0], ast.Name) else None
            sp = _slice_parts(joins[0].value.args[0]) if joins[0].value.args else None
            idx = [t.id for st in statements(f) if isinstance(st, ast.Assign) and isinstance(st.value, ast.Call) and call_name(st.value) == f"{lines_v}.index"
                   and [src(a) for a in st.value.args] == [lv] for t in st.targets if isinstance(t, ast.Name)]
            okj = sep1 is not None and sep1 == sep2 and sp is not None and src(sp[0]) == lines_v and sp[2] is None and sp[1] is not None and bool(idx) \
                and lin(sp[1]) == (frozenset({(idx[0], 1)}), 1) and src(fr.iter) == lines_v
            ctx.check(okj, "version/rest-preserved", ctx.construct(q, joins[0]),
                      "the bytes following the version line are not restored exactly (split/join separators differ or the slice does not start right after the version line): "
                      "the first packets are corrupted when they arrive in the same segment as the version line")
        else:
            ctx.check(False, "version/rest-preserved", q, "split/join of the version buffer not found")
    with abstain(ctx0, 's/dataReceived/dispatch-loop', 'version/ (bounded)'):
        ctx.need(_ok_dr, 'anchors of dataReceived (section skipped)')
        disp = call_nodes(g, lambda c: call_name(c) == "self.dispatchMessage")
        ctx.need(disp, "dataReceived: dispatchMessage")
        for d in disp:
            c = calls_at(g, d, lambda c: call_name(c) == "self.dispatchMessage")[0]
            w = edge_path(g, [d], disp + [g.exit], avoid_nodes=gp, strict=True)
            ctx.check(w is None, "dispatch/every-packet", ctx.construct(q, c), "after dispatching a packet the next one is not fetched: buffered packets are left undelivered",
                      witness=g.describe(w))
            pv = [a for a in c.args if _slice_parts(a)]
            ctx.check(len(c.args) == 2 and len(pv) == 1 and src(_slice_parts(pv[0])[1]) == "1" and _slice_parts(pv[0])[2] is None, "dispatch/every-packet", ctx.construct(q, c) + " | payload",
                      "the dispatched payload is not the packet without its message-type byte")



class _AttrConst(ast.NodeTransformer):
    def __init__(self, vals):
        self.vals = vals

    def visit_Attribute(self, node):
        k = src(node)
        if k in self.vals:
            return ast.copy_location(ast.Constant(self.vals[k]), node)
        return self.generic_visit(node)


def _ce(expr, env, attr_vals):
    e = ast.parse(src(expr), mode="eval").body
    return const_eval(ast.fix_missing_locations(_AttrConst(attr_vals).visit(e)), env)


def _run_straight(body, env, stop_at, attr_vals, al):
    """Evaluate the straight-line arithmetic of sendPacket up to (excluding) ``stop_at`` with const_eval.
    Assignments whose value is not evaluable make their target unknown; a branch whose test is not
    evaluable (an opaque configuration flag) is evaluated for the configuration where it is false."""
    for st in body:
        if st is stop_at:
            return True
        if isinstance(st, ast.Assign) and len(st.targets) == 1 and isinstance(st.targets[0], ast.Name):
            name = st.targets[0].id
            try:
                env[name] = _ce(st.value, env, attr_vals)
            except NotConst:
                env.pop(name, None)
        elif isinstance(st, ast.AugAssign) and isinstance(st.target, ast.Name):
            try:
                env[st.target.id] = _ce(ast.BinOp(left=ast.Name(id=st.target.id, ctx=ast.Load()), op=st.op, right=st.value), env, attr_vals)
            except NotConst:
                env.pop(st.target.id, None)
        elif isinstance(st, ast.If):
            try:
                t = _ce(st.test, env, attr_vals)
            except NotConst:
                # opaque configuration test (key exchange in progress / compression on): evaluate the configuration
                # in which it is false; the framing arithmetic does not depend on the payload's content
                if _run_straight(st.orelse, env, stop_at, attr_vals, al):
                    return True
                continue
            if _run_straight(st.body if t else st.orelse, env, stop_at, attr_vals, al):
                return True
    return False


