"""C11 - Cooperator advances only runnable tasks, completes each once, starves none."""
from __future__ import annotations

import ast

from sa.astx import body_walk, call_attr, call_name, dotted, src
from sa.effects import class_accesses
from sa.selftest import Mutant, Silent
from sa.source import methods
from sa.props._lib_c import (reviewed_helpers, norm_class, resolve_name_test, anchor_methods, section, all_funcs_of_class, assign_pairs, enclosing, eq_test, gfind, guarded_eq, guarded_ne, guarded_none, guarded_not_none,
                             is_const, is_none_test, may_mutate, must_pass, nested_defs, no_exc, parents, self_attr)

PROPERTY = "C11"
TASK = "internet/task.py"
QT = "twisted.internet.task.CooperativeTask"
QC = "twisted.internet.task.Cooperator"
TECHNIQUE = "CFG dominance/must-pass, who-may-call/write closed over inlined helpers, take-then-fire"
EXPLANATION = (
    "Every clause is decided STRUCTURALLY on normalised copies of CooperativeTask / Cooperator (private helpers inlined, naming temporaries substituted; "
    "named boolean tests resolved at their definition). "
    "Never advanced unless runnable - who-may-call + CFG dominance: _oneWorkUnit is only called on elements drawn from the round-robin iterator over _tasks "
    "(generator or inlined walk); membership in _tasks follows `not paused and not complete`: pause/stop dominated by _checkFinish (must-raise on the "
    "finished branch, raises the stored state), _pauseCount 0<->1 transitions coupled with _removeTask/_addTask (guard dominance, either spelling), resume "
    "skips finished tasks, a yielded Deferred pauses the task before callbacks are registered (must-precede) and those callbacks resume / fail it; next() is "
    "covered by a BaseException handler (exception-escape), StopIteration first. "
    "Completed once with the right result - take-then-fire / once-guard per _completeWith call site (finding F11 at the yielded Deferred's errback, repaired by fix 5382e1f; a snapshot of _tasks does not count as proof), "
    "state/result table agreement, state stored and task removed before the waiters fire (must-precede), whenDone registers only while incomplete (late "
    "registration guard), no loop iterates the live list its body mutates through the call graph (finding F11b in Cooperator.stop, repaired by fix 418f287), Cooperator.stop completes every runnable task, coiterate chains. "
    "No starvation - must-pass / who-may-write: iterator renewed only on exhaustion, a task advanced before the predicate is consulted, _tick clears "
    "_delayedCall before rescheduling and always reschedules, _reschedule schedules one remembered tick when idle with work, _addTask wakes the scheduler, "
    "cancelled ticks are forgotten and only cancelled when idle. "
    "Not decided (no decider of any kind): the numeric starvation bound, behaviour of user iterators / callbacks."
)
RULE_KINDS = {"*": "structural"}
ASSUMPTIONS = [
    "rules read a normalised copy of the class: a private non-generator method that is not an anchor, is only ever called as self._h(...) "
    "inside its class and is mentioned in no other module is inlined at its call sites; single-assignment naming temporaries are substituted "
    "only where nothing they read is written (and no call runs) in between",
    "a list iterator over _tasks yields only elements currently in the list (CPython list semantics)",
    "the scheduler callable eventually calls the function it is given once",
]

STATES = ("TaskDone", "TaskStopped", "TaskFailed", "SchedulerStopped")
SNAPSHOT_FUNCS = ("list", "tuple", "sorted")


def _is_call(x, name):
    return isinstance(x, ast.Call) and call_name(x) == name


def _snapshot_of(e, what):
    """e evaluates to a copy of ``what`` (list(x), tuple(x), x[:], x.copy())."""
    if isinstance(e, ast.Call) and dotted(e.func) in SNAPSHOT_FUNCS and len(e.args) == 1 and src(e.args[0]) == what:
        return True
    if isinstance(e, ast.Subscript) and src(e.value) == what and isinstance(e.slice, ast.Slice) and e.slice.lower is None and e.slice.upper is None:
        return True
    if isinstance(e, ast.Call) and isinstance(e.func, ast.Attribute) and e.func.attr == "copy" and src(e.func.value) == what:
        return True
    return False


def _draws(fn):
    """Sites of ``fn`` that take the next task from the persistent round-robin iterator: [(kind, node, element variable, iterator spelling)]
    for ``for x in self._metarator`` ("for", the For node) and ``x = next(it)`` ("next", the assignment) with ``it`` = self._metarator or a
    local bound to it (also when co-assigned with it on renewal)."""
    if isinstance(fn, ast.Lambda) or not hasattr(fn, "body"):
        return []
    aliases = {"self._metarator"}
    for st in body_walk(fn):
        pairs = assign_pairs(st)
        for t, v in pairs:
            if isinstance(t, ast.Name) and (src(v) == "self._metarator" or any(self_attr(t2, "_metarator") and v2 is v for t2, v2 in pairs)):
                aliases.add(t.id)
    out = []
    for n in body_walk(fn):
        if isinstance(n, ast.For) and src(n.iter) in aliases and isinstance(n.target, ast.Name):
            out.append(("for", n, n.target.id, src(n.iter)))
        elif isinstance(n, (ast.Assign, ast.AnnAssign)):
            for t, v in assign_pairs(n):
                if isinstance(t, ast.Name) and isinstance(v, ast.Call) and dotted(v.func) == "next" and len(v.args) == 1 and src(v.args[0]) in aliases:
                    out.append(("next", n, t.id, src(v.args[0])))
    return out


def _state_none_guard(g, n, recv):
    return guarded_none(g, n, f"{recv}._completionState")


def check(ctx):
    mod = ctx.mod(TASK)
    TK = ("pause", "resume", "stop", "_completeWith", "_checkFinish", "_oneWorkUnit", "whenDone", "__init__")
    CK = ("_addTask", "_removeTask", "_tick", "_reschedule", "stop", "coiterate", "start", "cooperate", "__init__")
    # normalised view: private helpers that are not anchors are inlined, naming temporaries substituted (see _lib_c.norm_class)
    task = norm_class(ctx, TASK, "CooperativeTask", TK)
    coop = norm_class(ctx, TASK, "Cooperator", CK + ("_tasksWhileNotStopped",))
    tm = anchor_methods(ctx, TASK, task, TK)
    cm = anchor_methods(ctx, TASK, coop, CK[:7])
    # a private walk helper of the Cooperator (the method that draws from the round-robin iterator) is followed by the rules themselves
    # (summary: where it advances the drawn task, which answer it returns on exhaustion), so calling it does not make its caller opaque
    reviewed_helpers(ctx, *[nm for nm, fx in methods(coop).items() if _draws(fx)])
    funcs = [("CooperativeTask", q, f) for q, f in all_funcs_of_class(task)] + [("Cooperator", q, f) for q, f in all_funcs_of_class(coop)]

    # ---- _checkFinish raises the stored state; pause/stop start with it -------------------------------------------
    with section(ctx, '_checkFinish raises the stored state; pause/stop start with it'):
        f = tm["_checkFinish"]
        ctx.functions.add(f"{TASK}:CooperativeTask._checkFinish")
        g = ctx.cfg(f)
        q = f"{QT}._checkFinish"
        tests = [t for t in g.ids(lambda n: n.kind == "test") if is_none_test(g.node(t).ast, "self._completionState") is not None]
        ctx.check(bool(tests), "finished/check-raises", q, "_checkFinish no longer tests the completion state")
        for t in tests:
            lab = "F" if is_none_test(g.node(t).ast, "self._completionState") else "T"
            s = [d for d, l in g.succ[t] if l == lab]
            w = g.path(s, [g.exit], edge_ok=no_exc)
            ctx.check(w is None, "finished/check-raises", ctx.construct(q, g.node(t).ast),
                      "_checkFinish returns normally for a finished task: pause()/stop() operate on it instead of raising TaskFinished", witness=g.describe(w))
        raises = g.ids(lambda n: n.kind == "stmt" and isinstance(n.ast, ast.Raise))
        ctx.check(bool(raises) and all(src(g.node(r).ast.exc) == "self._completionState" for r in raises), "finished/raises-matching-state", q,
                  "the exception raised for a finished task is not the stored completion state (wrong TaskFinished subtype)")
        for name, effects in (("pause", lambda x: _is_call(x, "self._cooperator._removeTask") or isinstance(x, ast.AugAssign)),
                              ("stop", lambda x: _is_call(x, "self._completeWith"))):
            f = tm[name]
            ctx.functions.add(f"{TASK}:CooperativeTask.{name}")
            g = ctx.cfg(f)
            checks = gfind(g, lambda x: _is_call(x, "self._checkFinish"))
            eff = gfind(g, effects)
            ctx.check(bool(eff), "finished/check-first", f"{QT}.{name} | <effects>", f"{name}() has lost its effect")
            w = g.must_precede(checks, eff) if checks else [g.entry]
            ctx.check(bool(checks) and w is None, "finished/check-first", f"{QT}.{name}",
                      f"{name}() acts on the task before (or without) _checkFinish(): a finished task is paused/stopped again instead of raising",
                      witness=g.describe(w))

    # ---- pause / resume: _pauseCount transitions coupled with membership --------------------------------------------
    with section(ctx, 'pause / resume: _pauseCount transitions coupled with membership'):
        f = tm["pause"]
        g = ctx.cfg(f)
        q = f"{QT}.pause"
        incs = g.ids(lambda n: n.kind == "stmt" and isinstance(n.ast, ast.AugAssign) and self_attr(n.ast.target, "_pauseCount"))
        ctx.check(len(incs) == 1 and isinstance(g.node(incs[0]).ast.op, ast.Add) and is_const_num(g.node(incs[0]).ast.value, 1), "pause/count", q,
                  "pause() does not increment _pauseCount by exactly one")
        rem = gfind(g, lambda x: _is_call(x, "self._cooperator._removeTask"))
        ctx.check(bool(rem), "pause/leaves-runnable-set", q, "pause() never removes the task from the cooperator: a paused task keeps being advanced")
        def transition_tests():
            """[(test node, label of the edge meaning 'this pause is the 0->1 transition')]: `count == 1` evaluated after the
            increment, or `count == 0` evaluated before it; the test may be a named temporary (evaluated where it is assigned)."""
            out = []
            for t in g.ids(lambda n: n.kind == "test"):
                expr, defst = resolve_name_test(f, g.node(t).ast)
                evalnodes = g.ids_of(defst) if defst is not None else [t]
                if not evalnodes or not incs:
                    continue
                after_inc = g.must_precede(incs, evalnodes) is None
                before_inc = g.path(incs, evalnodes) is None and g.path(evalnodes, incs, edge_ok=no_exc) is not None
                k1, k0 = eq_test(expr, "self._pauseCount", 1), eq_test(expr, "self._pauseCount", 0)
                if k1 is not None and after_inc:
                    out.append((t, "T" if k1 else "F"))
                elif k0 is not None and before_inc:
                    out.append((t, "T" if k0 else "F"))
            return out
        trans = transition_tests()
        for n in rem:
            key = ctx.construct(q, "<remove from the runnable set>")
            eg = g.edge_guards(n)
            ok = any((t, lab) in eg for t, lab in trans)
            ctx.check(ok, "pause/leaves-runnable-set", key, "_removeTask is not tied to the 0->1 transition of _pauseCount (nested pause removes twice: ValueError, "
                      "or the first pause does not remove)")
            call = next(x for x in ast.walk(g.node(n).ast) if _is_call(x, "self._cooperator._removeTask"))
            ctx.check(len(call.args) == 1 and src(call.args[0]) == "self", "pause/leaves-runnable-set", key, "_removeTask not applied to this task")
        ctx.check(bool(trans), "pause/leaves-runnable-set", q + " | <transition test>", "pause() does not distinguish the first pause (0->1) from nested ones")
        for t, lab in trans:
            w = must_pass(g, [d for d, l in g.succ[t] if l == lab], rem, exc=False)
            ctx.check(w is None, "pause/leaves-runnable-set", q + " | <first pause>", "the first pause() can return with the task still runnable", witness=g.describe(w))
        w = must_pass(g, incs, rem + [t for t, _ in trans], exc=False) if incs else None
        w2 = must_pass(g, [g.entry], rem + [t for t, _ in trans], exc=False)
        ctx.check(w is None or w2 is None, "pause/leaves-runnable-set", q + " | <every pause decides>", "pause() can return without deciding about removal",
                  witness=g.describe(w))

    # ---- resume --------------------
    with section(ctx, 'resume'):
        f = tm["resume"]
        ctx.functions.add(f"{TASK}:CooperativeTask.resume")
        g = ctx.cfg(f)
        q = f"{QT}.resume"
        decs = g.ids(lambda n: n.kind == "stmt" and isinstance(n.ast, ast.AugAssign) and self_attr(n.ast.target, "_pauseCount"))
        ctx.check(len(decs) == 1 and isinstance(g.node(decs[0]).ast.op, ast.Sub) and is_const_num(g.node(decs[0]).ast.value, 1), "resume/count", q,
                  "resume() does not decrement _pauseCount by exactly one")
        for d in decs:
            ctx.check(guarded_ne(g, d, "self._pauseCount", 0), "resume/not-paused-raises", ctx.construct(q, g.node(d).ast),
                      "resume() decrements an unpaused task's count (goes negative; the task is advanced while a later pause believes it is paused)")
        adds = gfind(g, lambda x: _is_call(x, "self._cooperator._addTask"))
        ctx.check(bool(adds), "resume/rejoins-runnable-set", q, "resume() never re-adds the task: a resumed task is starved forever")
        for n in adds:
            key = ctx.construct(q, g.node(n).ast)
            ctx.check(guarded_eq(g, n, "self._pauseCount", 0) and bool(decs) and g.must_precede(decs, [n]) is None, "resume/rejoins-runnable-set", key,
                      "_addTask is not tied to the 1->0 transition (a still-paused task becomes runnable, or is added twice)")
            ctx.check(_state_none_guard(g, n, "self"), "resume/finished-stays-out", key,
                      "resume() re-adds a task that completed while paused (it would be advanced after stop/failure)")
        for t in g.ids(lambda n: n.kind == "test" and is_none_test(n.ast, "self._completionState") is not None):
            lab = "T" if is_none_test(g.node(t).ast, "self._completionState") else "F"
            s2 = [x for x, l in g.succ[t] if l == lab]
            w = must_pass(g, s2, adds, exc=False)
            ctx.check(w is None, "resume/rejoins-runnable-set", q + " | <count reaches 0>", "a fully resumed, unfinished task can be left out of the runnable set",
                      witness=g.describe(w))

    # ---- completion: once, ordered, table of (state, result) ---------------------------------------------------------
    with section(ctx, 'completion: once, ordered, table of (state, result)'):
        f = tm["_completeWith"]
        ctx.functions.add(f"{TASK}:CooperativeTask._completeWith")
        g = ctx.cfg(f)
        q = f"{QT}._completeWith"
        params = [a.arg for a in f.args.args]
        ctx.need(len(params) == 3, "_completeWith(self, state, result)")
        st_assign = g.ids(lambda n: n.kind == "stmt" and any(self_attr(t, "_completionState") and isinstance(v, ast.Name) and v.id == params[1] for t, v in assign_pairs(n.ast)))
        rs_assign = g.ids(lambda n: n.kind == "stmt" and any(self_attr(t, "_completionResult") and isinstance(v, ast.Name) and v.id == params[2] for t, v in assign_pairs(n.ast)))
        loops = g.ids(lambda n: n.kind == "for" and (src(n.ast.iter) == "self._deferreds" or _snapshot_of(n.ast.iter, "self._deferreds")))
        fires = gfind(g, lambda x: isinstance(x, ast.Call) and call_attr(x) == "callback")
        ctx.check(bool(loops) and bool(fires), "complete/fires-every-waiter", q, "_completeWith no longer fires every whenDone Deferred")
        for n in fires:
            call = next(x for x in ast.walk(g.node(n).ast) if isinstance(x, ast.Call) and call_attr(x) == "callback")
            loop = enclosing(call, (ast.For,))
            ok = (loop is not None and isinstance(loop.target, ast.Name) and src(call.func.value) == loop.target.id
                  and len(call.args) == 1 and isinstance(call.args[0], ast.Name) and call.args[0].id == params[2])
            ctx.check(ok, "complete/fires-every-waiter", ctx.construct(q, g.node(n).ast), "a waiter is not fired with the completion result")
        for what, nodes in (("_completionState", st_assign), ("_completionResult", rs_assign)):
            w = g.must_precede(nodes, fires) if nodes else [g.entry]
            ctx.check(bool(nodes) and w is None, "complete/state-before-fire", f"{q} | self.{what}",
                      f"self.{what} is not stored before the whenDone Deferreds fire: a callback calling whenDone()/pause()/stop() sees an unfinished task "
                      "(its new Deferred is appended to the list being fired, or the task is completed re-entrantly)", witness=g.describe(w))
        rem = gfind(g, lambda x: _is_call(x, "self._cooperator._removeTask"))
        ctx.check(bool(rem), "complete/leaves-runnable-set", q, "a completed task is never removed from the cooperator (it keeps being advanced)")
        for n in rem:
            key = ctx.construct(q, g.node(n).ast)
            ctx.check(guarded_eq(g, n, "self._pauseCount", 0), "complete/leaves-runnable-set", key,
                      "_removeTask on completion is not restricted to unpaused tasks (a paused task is not in the list: ValueError)")
            w = g.path(loops, [n], edge_ok=no_exc) if loops else None
            ctx.check(w is None, "complete/removed-before-fire", key,
                      "the task is still in the cooperator while its whenDone Deferreds fire (a callback stopping the cooperator completes it re-entrantly)",
                      witness=g.describe(w))
        t0 = [t for t in g.ids(lambda n: n.kind == "test") if src(g.node(t).ast) in ("self._pauseCount", "self._pauseCount == 0", "self._pauseCount != 0")]
        for t in t0:
            zero_lab = "T" if src(g.node(t).ast).endswith("== 0") else "F"
            s = [d for d, l in g.succ[t] if l == zero_lab]
            w = must_pass(g, s, rem, exc=False)
            ctx.check(w is None, "complete/leaves-runnable-set", ctx.construct(q, g.node(t).ast), "an unpaused task can complete without leaving the runnable set", witness=g.describe(w))
        once_guarded = bool(st_assign) and all(_state_none_guard(g, n, "self") for n in st_assign + fires)

    # ---- every call site of _completeWith --------------------
    with section(ctx, 'every call site of _completeWith'):
        # every call site of _completeWith
        nsites = 0
        for cname, qn, fn in funcs:
            body = ast.walk(fn.body) if isinstance(fn, ast.Lambda) else body_walk(fn)
            sites = [c for c in body if isinstance(c, ast.Call) and call_attr(c) == "_completeWith"]
            if not sites:
                continue
            fq = f"twisted.internet.task.{qn}"
            gf = ctx.cfg(fn)
            nest_depth = qn.count(".") - 1
            for c in sites:
                nsites += 1
                key = ctx.construct(fq, c)
                if qn.startswith("CooperativeTask._oneWorkUnit.") and len(c.args) == 2 and src(c.args[0]) == "TaskFailed()" and isinstance(c.args[1], ast.Name):
                    key = f"{QT}._oneWorkUnit | <errback of the yielded Deferred completes the task as failed>"
                recv = src(c.func.value)
                ns = gf.ids_of(c) if not isinstance(fn, ast.Lambda) else [n.id for n in gf.nodes if n.kind == "stmt"]
                ok = once_guarded
                why = ""
                if not ok and ns and all(_state_none_guard(gf, n, recv) for n in ns):
                    ok = True
                if not ok and cname == "CooperativeTask" and nest_depth == 0 and recv == "self":
                    checks = gfind(gf, lambda x: _is_call(x, "self._checkFinish"))
                    if checks and gf.must_precede(checks, ns) is None:
                        ok = True
                    elif qn == "CooperativeTask._oneWorkUnit":
                        ok = True  # only invoked by Cooperator._tick on a task drawn from _tasks (rule advance/only-runnable)
                if not ok and cname == "Cooperator" and nest_depth == 0 and isinstance(c.func.value, ast.Name):
                    loop = None
                    for p in parents(c):
                        if isinstance(p, ast.For) and isinstance(p.target, ast.Name) and p.target.id == recv:
                            loop = p
                            break
                    if loop is not None and src(loop.iter) == "self._tasks":
                        ok = True  # the element a live list iterator delivers is in _tasks  =>  not complete
                        # (an element of a *snapshot* may have been completed meanwhile by a whenDone callback of an earlier one: needs a guard)
                    else:
                        apps = gfind(gf, lambda x: isinstance(x, ast.Call) and call_name(x) == "self._tasks.append" and len(x.args) == 1 and src(x.args[0]) == recv)
                        if apps and gf.must_precede(apps, ns) is None and qn == "Cooperator._addTask":
                            ok = True  # _addTask is only applied to unfinished tasks (rule add/only-unfinished)
                if not ok and cname == "Cooperator" and nest_depth == 0 and isinstance(c.func.value, ast.Subscript) and src(c.func.value.value) == "self._tasks" \
                        and ns and all(gf.guarded(n, lambda e: src(e) == "self._tasks", True) for n in ns):
                    ok = True  # an element of the non-empty runnable list: in _tasks  =>  not complete
                ctx.check(ok, "complete/once", key,
                          "_completeWith can run on a task that is already complete: every whenDone Deferred is fired a second time "
                          "(AlreadyCalledError) and the completion state is overwritten")
                # table: state <-> result
                if len(c.args) == 2 and isinstance(c.args[0], ast.Call) and dotted(c.args[0].func) in STATES and not c.args[0].args:
                    s = dotted(c.args[0].func)
                    r = c.args[1]
                    handler = enclosing(c, (ast.ExceptHandler,))
                    if s == "TaskDone":
                        okr = src(r) == f"{recv}._iterator" and handler is not None and handler.type is not None and dotted(handler.type) == "StopIteration"
                    elif s == "TaskFailed":
                        in_handler = handler is not None and not (handler.type is not None and dotted(handler.type) == "StopIteration")
                        fparams = [] if isinstance(fn, ast.Lambda) else [a.arg for a in fn.args.args if a.arg != "self"]
                        # the failure handed to an errback: a nested closure's first parameter, or a bound method's first parameter after self
                        okr = (in_handler and src(r) == "Failure()") or (isinstance(r, ast.Name) and bool(fparams) and r.id == fparams[0])
                    else:
                        okr = src(r) == f"Failure({s}())"
                    ctx.check(okr, "complete/state-result-table", key, f"completion state {s} is paired with the wrong result {src(r)} "
                              "(whenDone must fire with the iterator on exhaustion, with the failure / stop reason otherwise)")
                else:
                    ctx.violation("complete/state-result-table", key, "completion state is not one of the TaskFinished/SchedulerStopped classes instantiated in place")
        ctx.floor("complete/once", nsites, 3)

    # ---- who may write the task fields --------------------
    with section(ctx, 'who may write the task fields'):
        # who may write the completion fields / the waiter list / the counters
        acc = class_accesses(mod, task, {"_completionState", "_completionResult", "_deferreds", "_pauseCount"}, receivers=None)
        acc += [a for a in class_accesses(mod, coop, {"_completionState", "_completionResult", "_deferreds", "_pauseCount"}, receivers=None)]
        for a in acc:
            key = ctx.construct(f"twisted.internet.task.{a.func}", a.node)
            if a.attr in ("_completionState", "_completionResult"):
                ok = (a.func == "CooperativeTask._completeWith" and a.kind == "assign") or \
                     (a.func == "CooperativeTask.__init__" and a.kind == "assign" and any(is_const(v, None) for t, v in assign_pairs(a.node)))
                ctx.check(ok, "who-may-write/completion", key, "completion state/result written outside __init__ (None) and _completeWith")
            elif a.attr == "_deferreds":
                ok = (a.func == "CooperativeTask.__init__" and a.kind == "rebind-empty") or (a.func == "CooperativeTask.whenDone" and a.kind == "append") or \
                     (a.func == "CooperativeTask._completeWith" and a.kind in ("rebind-empty", "clear"))
                ctx.check(ok, "who-may-write/waiters", key, f"unexpected {a.kind} of the whenDone waiter list (a waiter is lost or fired out of protocol)")
            else:
                ok = (a.func == "CooperativeTask.__init__" and a.kind == "assign") or (a.func in ("CooperativeTask.pause", "CooperativeTask.resume") and a.kind == "augassign")
                ctx.check(ok, "who-may-write/pauseCount", key, "_pauseCount changed outside pause()/resume()")
        ctx.floor("who-may-write", len(acc), 5)

    # ---- whenDone: register only while incomplete, else fire at once --------------------------------------------------
    with section(ctx, 'whenDone: register only while incomplete, else fire at once'):
        f = tm["whenDone"]
        ctx.functions.add(f"{TASK}:CooperativeTask.whenDone")
        g = ctx.cfg(f)
        q = f"{QT}.whenDone"
        fresh = {t.id for st in body_walk(f) for t, v in assign_pairs(st) if isinstance(t, ast.Name) and isinstance(v, ast.Call) and dotted(v.func) == "Deferred"}
        apps = gfind(g, lambda x: _is_call(x, "self._deferreds.append"))
        fire = gfind(g, lambda x: isinstance(x, ast.Call) and call_attr(x) == "callback")
        ctx.check(bool(apps) and bool(fire), "whenDone/register-or-fire", q, "whenDone() lost its register / fire-at-once branch")
        for n in apps:
            call = next(x for x in ast.walk(g.node(n).ast) if _is_call(x, "self._deferreds.append"))
            ctx.check(_state_none_guard(g, n, "self") and isinstance(call.args[0], ast.Name) and call.args[0].id in fresh, "whenDone/late-registration", ctx.construct(q, g.node(n).ast),
                      "a Deferred is registered on an already completed task (it never fires), or is not the fresh Deferred")
        for n in fire:
            call = next(x for x in ast.walk(g.node(n).ast) if isinstance(x, ast.Call) and call_attr(x) == "callback")
            ok = guarded_not_none(g, n, "self._completionState") and src(call.args[0]) == "self._completionResult" and isinstance(call.func.value, ast.Name) and call.func.value.id in fresh
            ctx.check(ok, "whenDone/late-registration", ctx.construct(q, g.node(n).ast), "whenDone() on a finished task does not fire the fresh Deferred with the stored result")
        w = must_pass(g, [g.entry], apps + fire, exc=False)
        ctx.check(w is None, "whenDone/register-or-fire", q, "whenDone() can return a Deferred that is neither registered nor fired", witness=g.describe(w))
        rets = g.ids(lambda n: n.kind == "stmt" and isinstance(n.ast, ast.Return))
        ctx.check(bool(rets) and all(isinstance(g.node(r).ast.value, ast.Name) and g.node(r).ast.value.id in fresh for r in rets), "whenDone/register-or-fire", q + " | <return>",
                  "whenDone() does not return the fresh Deferred")

    # ---- _oneWorkUnit -----------------------------------------------------------------------------------------------------
    with section(ctx, '_oneWorkUnit'):
        f = tm["_oneWorkUnit"]
        ctx.functions.add(f"{TASK}:CooperativeTask._oneWorkUnit")
        q = f"{QT}._oneWorkUnit"
        g = ctx.cfg(f, exception_is_all=False)
        nx = gfind(g, lambda x: isinstance(x, ast.Call) and dotted(x.func) == "next" and x.args and src(x.args[0]) == "self._iterator")
        ctx.check(len(nx) == 1, "advance/one-next", q, f"_oneWorkUnit advances the iterator at {len(nx)} sites (exactly one expected per work unit)")
        for n in nx:
            key = ctx.construct(q, g.node(n).ast)
            esc = [d for d, l in g.succ[n] if l == "exc" and d == g.raise_exit]
            ctx.check(not esc, "advance/every-exception-completes", key,
                      "an exception raised by the iterator that is not an Exception subclass (e.g. KeyboardInterrupt, GeneratorExit, SystemExit) "
                      "escapes _oneWorkUnit: the tick aborts, the task is never completed and its whenDone never fires")
            hs = [d for d, l in g.succ[n] if l == "exc" and g.node(d).kind == "handler"]
            for h in hs:
                comp = gfind(g, lambda x: _is_call(x, "self._completeWith"))
                w = must_pass(g, [h], comp, exc=False)
                ctx.check(w is None, "advance/every-exception-completes", ctx.construct(q, "except " + src(g.node(h).ast.type) if g.node(h).ast.type is not None else "except"),
                          "a handler around next() can finish without completing the task", witness=g.describe(w))
            tr = enclosing(next(x for x in ast.walk(g.node(n).ast) if isinstance(x, ast.Call) and dotted(x.func) == "next"), (ast.Try,))
            if tr is not None:
                names = [dotted(h.type) if h.type is not None else "BaseException" for h in tr.handlers]
                ok = "StopIteration" in names and all(nm in ("StopIteration",) or i > names.index("StopIteration") for i, nm in enumerate(names))
                ctx.check(ok, "advance/exhaustion-is-not-failure", key, "StopIteration is not handled before the catch-all: exhaustion would be reported as TaskFailed")
            else:
                ctx.violation("advance/every-exception-completes", key, "next() is not inside try/except")
        results = {t.id for st in body_walk(f) for t, v in assign_pairs(st) if isinstance(t, ast.Name) and isinstance(v, ast.Call) and dotted(v.func) == "next"}
        g = ctx.cfg(f)
        dtests = g.ids(lambda n: n.kind == "test" and isinstance(n.ast, ast.Call) and dotted(n.ast.func) == "isinstance" and len(n.ast.args) == 2
                       and isinstance(n.ast.args[0], ast.Name) and n.ast.args[0].id in results and src(n.ast.args[1]) == "Deferred")
        ctx.check(bool(dtests), "advance/waits-for-deferred", q, "_oneWorkUnit no longer recognises a yielded Deferred")
        pauses = gfind(g, lambda x: _is_call(x, "self.pause"))
        regs = gfind(g, lambda x: isinstance(x, ast.Call) and isinstance(x.func, ast.Attribute) and x.func.attr in ("addCallbacks", "addCallback", "addErrback", "addBoth")
                     and isinstance(x.func.value, ast.Name) and x.func.value.id in results)
        for t in dtests:
            s = [d for d, l in g.succ[t] if l == "T"]
            w = must_pass(g, s, pauses, exc=False)
            ctx.check(bool(pauses) and w is None, "advance/waits-for-deferred", q + " | <yielded Deferred>",
                      "a task that yielded a Deferred stays runnable: it is advanced again while that Deferred is unfired", witness=g.describe(w))
            w = must_pass(g, s, regs, exc=False)
            ctx.check(bool(regs) and w is None, "advance/resumes-after-deferred", q + " | <yielded Deferred>",
                      "no callback is registered on the yielded Deferred: the task is never resumed (starved) nor failed", witness=g.describe(w))
        for n in regs:
            w = g.must_precede(pauses, [n]) if pauses else [g.entry]
            ctx.check(w is None, "advance/pause-before-callbacks", ctx.construct(q, g.node(n).ast),
                      "the resume callback is registered before the task is paused: an already fired Deferred resumes an unpaused task (NotPaused), "
                      "and the following pause() is never undone", witness=g.describe(w))
        # what the registered callbacks do
        nd = nested_defs(f)
        succ_ok = fail_ok = False
        for n in regs:
            for call in [x for x in ast.walk(g.node(n).ast) if isinstance(x, ast.Call) and isinstance(x.func, ast.Attribute) and x.func.attr in ("addCallbacks", "addCallback", "addErrback", "addBoth")]:
                a = call.func.attr
                cbs = call.args[:1] if a in ("addCallback", "addCallbacks", "addBoth") else []
                ebs = call.args[1:2] if a == "addCallbacks" else (call.args[:1] if a in ("addErrback", "addBoth") else [])
                for kwd in call.keywords:
                    if kwd.arg == "callback":
                        cbs = [kwd.value]
                    if kwd.arg == "errback":
                        ebs = [kwd.value]

                def body_of(e):
                    if isinstance(e, ast.Lambda):
                        return list(ast.walk(e.body))
                    if isinstance(e, ast.Name) and e.id in nd:
                        return list(body_walk(nd[e.id]))
                    if self_attr(e) and e.attr in methods(task) and e.attr not in ("resume",):
                        return list(body_walk(methods(task)[e.attr]))      # a bound method registered as the callback
                    if self_attr(e):
                        return [e]
                    return []
                for e in cbs:
                    if any(_is_call(x, "self.resume") for x in body_of(e)) or src(e) == "self.resume":
                        succ_ok = True
                for e in ebs:
                    if any(_is_call(x, "self._completeWith") for x in body_of(e)):
                        fail_ok = True
        ctx.check(succ_ok, "advance/resumes-after-deferred", q + " | <success callback>", "the yielded Deferred's success does not resume the task")
        ctx.check(fail_ok, "advance/deferred-failure-fails-task", q + " | <failure callback>", "the yielded Deferred's failure does not complete the task as failed")

    # ---- _oneWorkUnit / _addTask callers --------------------
    with section(ctx, '_oneWorkUnit / _addTask callers'):
        # _oneWorkUnit / _addTask callers
        for cname, qn, fn in funcs:
            body = list(ast.walk(fn.body)) if isinstance(fn, ast.Lambda) else list(body_walk(fn))
            for c in body:
                if not isinstance(c, ast.Call):
                    continue
                if call_attr(c) == "_oneWorkUnit":
                    key = ctx.construct(f"twisted.internet.task.{qn}", c)
                    loop = None
                    for p in parents(c):
                        if isinstance(p, ast.For) and isinstance(p.target, ast.Name) and p.target.id == src(c.func.value):
                            loop = p
                            break
                    walkers_ = [nm for nm, fx in methods(coop).items() if _draws(fx)]
                    gens_ = [nm for nm in walkers_ if any(isinstance(x, ast.Yield) for x in body_walk(methods(coop)[nm]))]
                    drawn_here = {d[2] for d in _draws(fn)} if cname == "Cooperator" and qn.count(".") == 1 else set()
                    me = qn.split(".", 1)[1] if "." in qn else qn
                    # who drives the method that draws: the tick itself, or a private walk helper that only _tick calls
                    drivers = {q2 for _, q2, f2 in funcs for x in (ast.walk(f2.body) if isinstance(f2, ast.Lambda) else body_walk(f2))
                               if isinstance(x, ast.Attribute) and x.attr == me and isinstance(x.value, ast.Name) and x.value.id == "self"} if me != "_tick" else set()
                    driven_by_tick = me == "_tick" or (bool(drivers) and drivers <= {"Cooperator._tick"})
                    ok_site = (src(c.func.value) in drawn_here and driven_by_tick) or \
                        (qn == "Cooperator._tick" and loop is not None and any(src(loop.iter) == f"self.{nm}()" for nm in gens_))
                    ctx.check(ok_site, "advance/only-runnable", key,
                              "a task is advanced outside the tick's walk over the runnable set (it may be paused, finished or waiting)")
                if call_attr(c) == "_addTask":
                    key = ctx.construct(f"twisted.internet.task.{qn}", c)
                    gf = ctx.cfg(fn)
                    ns = gf.ids_of(c)
                    if qn == "CooperativeTask.__init__":
                        init = gf.ids(lambda n: n.kind == "stmt" and any(self_attr(t, "_completionState") and is_const(v, None) for t, v in assign_pairs(n.ast)))
                        zero = gf.ids(lambda n: n.kind == "stmt" and any(self_attr(t, "_pauseCount") and is_const_num(v, 0) for t, v in assign_pairs(n.ast)))
                        ok = bool(init) and bool(zero) and gf.must_precede(init, ns) is None and gf.must_precede(zero, ns) is None
                        ctx.check(ok, "add/only-unfinished", key, "a new task joins the cooperator before its state is initialised (a synchronous completion is then overwritten)")
                    elif qn == "CooperativeTask.resume":
                        pass  # checked above (resume/finished-stays-out)
                    else:
                        ctx.violation("add/only-unfinished", key, "_addTask applied outside task creation / resume (the task may be complete or already present)")

    # ---- Cooperator: runnable set and scheduling --------------------------------------------------------------------------
    with section(ctx, 'Cooperator: runnable set and scheduling'):
        acc = class_accesses(mod, coop, {"_tasks", "_metarator", "_delayedCall"}, receivers={"self"})
        allowed_tasks = {("Cooperator.__init__", "rebind-empty"), ("Cooperator._addTask", "append"), ("Cooperator._removeTask", "remove"), ("Cooperator.stop", "rebind-empty")}
        for a in acc:
            key = ctx.construct(f"twisted.internet.task.{a.func}", a.node)
            if a.attr == "_tasks":
                ctx.check((a.func, a.kind) in allowed_tasks, "who-may-write/tasks", key,
                          f"the runnable set is changed by {a.kind} in {a.func}: membership no longer follows pause/resume/complete, or round-robin order is disturbed")
        for n in ast.walk(mod.tree):
            if isinstance(n, ast.Attribute) and n.attr == "_tasks" and not (isinstance(n.value, ast.Name) and n.value.id == "self"):
                ctx.violation("who-may-write/tasks", f"twisted.internet.task | {src(n)}", "the runnable set is reached through another object")
        ctx.floor("who-may-write/tasks", len([a for a in acc if a.attr == "_tasks"]), 3)

    # ---- Cooperator._addTask --------------------
    with section(ctx, 'Cooperator._addTask'):
        f = cm["_addTask"]
        ctx.functions.add(f"{TASK}:Cooperator._addTask")
        g = ctx.cfg(f)
        q = f"{QC}._addTask"
        p = f.args.args[1].arg
        apps = gfind(g, lambda x: _is_call(x, "self._tasks.append") and len(x.args) == 1 and src(x.args[0]) == p)
        res = gfind(g, lambda x: _is_call(x, "self._reschedule"))
        comps = gfind(g, lambda x: isinstance(x, ast.Call) and call_attr(x) == "_completeWith")
        w = must_pass(g, [g.entry], apps, exc=False)
        ctx.check(bool(apps) and w is None, "add/joins-runnable-set", q, "_addTask can return without the task in the runnable set", witness=g.describe(w))
        st_tests = g.ids(lambda n: n.kind == "test" and src(n.ast) == "self._stopped")
        ctx.check(bool(st_tests) and bool(res), "add/wakes-scheduler", q, "_addTask no longer distinguishes a stopped cooperator / never reschedules")
        for t in st_tests:
            w = must_pass(g, [d for d, l in g.succ[t] if l == "F"], res, exc=False)
            ctx.check(w is None, "add/wakes-scheduler", ctx.construct(q, g.node(t).ast),
                      "a task added to an idle cooperator does not schedule a tick: it (and every resumed task) is starved until something else reschedules",
                      witness=g.describe(w))
        for n in res:
            w = g.must_precede(apps, [n]) if apps else [g.entry]
            ctx.check(w is None, "add/wakes-scheduler", ctx.construct(q, g.node(n).ast), "_reschedule() runs before the task is in the runnable set (it sees no work and schedules nothing)",
                      witness=g.describe(w))
        for n in comps:
            w = g.must_precede(apps, [n]) if apps else [g.entry]
            ctx.check(w is None, "add/joins-runnable-set", ctx.construct(q, g.node(n).ast), "the task is completed before it was put in the list _completeWith removes it from (ValueError)",
                      witness=g.describe(w))
        for n in comps:
            ctx.check(g.guarded(n, lambda e: src(e) == "self._stopped", True), "add/stopped-rejects", ctx.construct(q, g.node(n).ast),
                      "a task is completed with SchedulerStopped although the cooperator is not stopped")
        st_t = g.ids(lambda n: n.kind == "test" and src(n.ast) == "self._stopped")
        for t in st_t:
            s = [d for d, l in g.succ[t] if l == "T"]
            w = must_pass(g, s, comps, exc=False)
            ctx.check(bool(comps) and w is None, "add/stopped-rejects", q + " | <stopped>", "a task added to a stopped cooperator is left pending forever (whenDone never fires)",
                      witness=g.describe(w))

    # ---- Cooperator._removeTask --------------------
    with section(ctx, 'Cooperator._removeTask'):
        f = cm["_removeTask"]
        ctx.functions.add(f"{TASK}:Cooperator._removeTask")
        g = ctx.cfg(f)
        q = f"{QC}._removeTask"
        p = f.args.args[1].arg
        rm = gfind(g, lambda x: _is_call(x, "self._tasks.remove") and len(x.args) == 1 and src(x.args[0]) == p)
        w = must_pass(g, [g.entry], rm, exc=False)
        ctx.check(bool(rm) and w is None, "remove/leaves-runnable-set", q, "_removeTask can return with the task still runnable", witness=g.describe(w))

    # ---- cancelled ticks --------------------
    with section(ctx, 'cancelled ticks'):
        for mname in ("_removeTask", "stop"):
            fx = cm[mname]
            gx = ctx.cfg(fx)
            qx = f"{QC}.{mname}"
            canc = gfind(gx, lambda x: _is_call(x, "self._delayedCall.cancel"))
            clr = gx.ids(lambda n: n.kind == "stmt" and any(self_attr(t, "_delayedCall") and is_const(v, None) for t, v in assign_pairs(n.ast)))
            for n in canc:
                key = ctx.construct(qx, gx.node(n).ast)
                if mname == "_removeTask":
                    ctx.check(gx.guarded(n, lambda e: src(e) == "self._tasks", False), "remove/cancel-only-when-idle", key,
                              "removing one task cancels the pending tick although runnable tasks remain: they are starved until another task is added")
                w = must_pass(gx, [n], clr, exc=False)
                ctx.check(bool(clr) and w is None, "tick/cancelled-call-forgotten", key,
                          "the cancelled tick stays in _delayedCall: _reschedule() believes a tick is pending and never schedules again (every later task starves)",
                          witness=gx.describe(w))

    # ---- round robin --------------------
    with section(ctx, 'round robin'):
        # The walk over the runnable set lives in whichever Cooperator method draws tasks from the persistent iterator self._metarator: by
        # `for t in self._metarator` or by explicit `t = next(it)` / `except StopIteration` where `it` aliases self._metarator.  It is the
        # generator _tasksWhileNotStopped (consumed by _tick) or _tick itself; "advancing" a task is `yield t` there, or t._oneWorkUnit().
        walkers = [(nm, fx) for nm, fx in methods(coop).items() if _draws(fx)]
        ctx.check(len(walkers) == 1, "fair/round-robin-iterator", f"{QC} | <walk over the runnable set>",
                  "the walk over the runnable set no longer consumes the persistent iterator self._metarator "
                  "(restarting from the head each tick starves the tasks at the tail whenever the predicate ends the tick early)")
        for walk_name, f in walkers[:1]:
            ctx.functions.add(f"{TASK}:Cooperator.{walk_name}")
            g = ctx.cfg(f)
            q = f"{QC}.{walk_name}"
            draws = _draws(f)
            ctx.check(len(draws) == 1, "fair/round-robin-iterator", q, "several sites consume the round-robin iterator")
            kind, dnode, loopvar, alias = draws[0]
            if kind == "for":
                heads = g.ids(lambda n: n.kind == "for" and n.ast is dnode)
                drawn = [d for h in heads for d, l in g.succ[h] if l == "iter"]            # first node that has the element
                exhausted = [(h, "done") for h in heads]
            else:
                heads = g.ids_of(dnode)
                drawn = [d for h in heads for d, l in g.succ[h] if l not in ("exc", "raise")]
                exhausted = [(d, None) for h in heads for d, l in g.succ[h] if l == "exc" and g.node(d).kind == "handler"
                             and g.node(d).ast.type is not None and dotted(g.node(d).ast.type) == "StopIteration"]
                ctx.check(bool(exhausted), "fair/round-robin-iterator", q + " | <exhaustion>", "next() on the round-robin iterator is not covered by `except StopIteration`")
            renew = g.ids(lambda n: n.kind == "stmt" and any(self_attr(t, "_metarator") for t, v in assign_pairs(n.ast)))
            for n in renew:
                key = ctx.construct(q, "<renew the round-robin iterator>")
                pairs = assign_pairs(g.node(n).ast)
                v = next(v for t, v in pairs if self_attr(t, "_metarator"))
                ctx.check(isinstance(v, ast.Call) and dotted(v.func) == "iter" and len(v.args) == 1 and src(v.args[0]) == "self._tasks", "fair/round-robin-iterator", key,
                          "the round-robin iterator is not built over the live runnable list (paused/finished tasks would be advanced, new ones missed)")
                if kind == "for":
                    preds = [(s_, l) for s_, l in g.pred[n] if l != "exc"]
                    ok = bool(heads) and bool(preds) and all((s_, l) in exhausted for s_, l in preds)
                else:
                    hn = [d for d, _ in exhausted]
                    ok = bool(hn) and g.must_precede(hn, [n]) is None and g.path(drawn, [n], avoid=set(hn)) is None
                    # the local the draws go through must follow the renewed iterator
                    ok = ok and (alias == "self._metarator" or any(isinstance(t, ast.Name) and t.id == alias and v2 is v for t, v2 in pairs))
                ctx.check(ok, "fair/renew-only-when-exhausted", key,
                          "the round-robin iterator is renewed before the previous round is exhausted (or the walk keeps drawing from the old one): tasks late in the "
                          "list are starved when ticks end early")
            # a walk helper may report exhaustion through its return value and leave the renewal to its driver:
            #     while self._tasks and not self._walk(...): self._metarator = iter(self._tasks)
            # then the renewal must be guarded by that answer, and in the helper that answer must only be produced on the exhaustion edge
            renewed_elsewhere = 0
            for other in [a for a in class_accesses(mod, coop, {"_metarator"}, receivers={"self"}) if a.func not in ("Cooperator.__init__", f"Cooperator.{walk_name}")]:
                okey = ctx.construct(f"twisted.internet.task.{other.func}", "<renew the round-robin iterator>")
                fo = methods(coop).get(other.func.split(".", 1)[1]) if other.func.count(".") == 1 else None
                verdict = None
                if fo is not None and kind == "for":
                    go = ctx.cfg(fo)
                    v = next((v for t, v in assign_pairs(other.node) if self_attr(t, "_metarator")), None)
                    for n in go.ids_of(other.node):
                        for t, lab in go.edge_guards(n):
                            te = go.node(t).ast
                            if isinstance(te, ast.Call) and call_name(te) == f"self.{walk_name}":
                                want = (lab == "T")       # truthiness of the helper's answer under which the iterator is renewed
                                rets = g.ids(lambda nd: nd.kind == "stmt" and isinstance(nd.ast, ast.Return))
                                consts = all(g.node(r).ast.value is None or isinstance(g.node(r).ast.value, ast.Constant) for r in rets)
                                if not consts:
                                    ctx.note(f"fair/renew-only-when-exhausted: {walk_name}() returns a computed answer; renewal in {other.func} not decided structurally")
                                    verdict = "abstain"
                                    continue
                                signal = [r for r in rets if bool(g.node(r).ast.value.value if g.node(r).ast.value is not None else None) == want]
                                if not want:    # falling off the end answers None (falsy)
                                    signal += [p_ for p_, l in g.pred[g.exit] if l != "exc" and p_ not in rets]
                                not_via_done = lambda a_, b_, l_: not (a_ in heads and l_ == "done")
                                w = next((g.path([g.entry], [r], edge_ok=not_via_done) for r in signal if g.path([g.entry], [r], edge_ok=not_via_done)), None)
                                good = bool(signal) and w is None and isinstance(v, ast.Call) and dotted(v.func) == "iter" and len(v.args) == 1 and src(v.args[0]) == "self._tasks"
                                verdict = "ok" if good else "bad"
                                ctx.check(good, "fair/renew-only-when-exhausted", okey,
                                          f"the iterator is renewed when {walk_name}() answers {'true' if want else 'false'}, but that answer is also given before the round "
                                          "is exhausted (or the new iterator is not over the live list): tasks late in the list are starved", witness=g.describe(w))
                if verdict is None:
                    ctx.violation("fair/renew-only-when-exhausted", ctx.construct(f"twisted.internet.task.{other.func}", other.node), "the round-robin iterator is reset outside the walk")
                elif verdict in ("ok", "abstain"):
                    renewed_elsewhere += 1
            ctx.check(bool(renew) or renewed_elsewhere > 0, "fair/renew-only-when-exhausted", q + " | <renew>", "the round-robin iterator is never renewed: after one round no task is advanced")
            preds_ = {t.id for st in body_walk(f) for t, v in assign_pairs(st) if isinstance(t, ast.Name) and isinstance(v, ast.Call) and "_terminationPredicateFactory" in src(v.func)}
            tterm = [t for t in g.ids(lambda n: n.kind == "test" and isinstance(n.ast, ast.Call) and (isinstance(n.ast.func, ast.Name) and (n.ast.func.id in preds_ or not preds_)))]
            adv = gfind(g, lambda x: (isinstance(x, ast.Yield) and x.value is not None and src(x.value) == loopvar) or
                        (isinstance(x, ast.Call) and call_attr(x) == "_oneWorkUnit" and src(x.func.value) == loopvar))
            bad_y = gfind(g, lambda x: isinstance(x, ast.Yield) and (x.value is None or src(x.value) != loopvar))
            ctx.check(bool(adv) and not bad_y, "fair/yields-runnable", q, "the walk does not advance / yield the task taken from the round-robin iterator")
            it0 = [n for n in drawn if n not in adv]
            w = g.path(it0, tterm, avoid=set(adv) | set(heads)) if tterm and it0 else None
            ctx.check(w is None, "fair/progress-before-predicate", q + " | <termination predicate>",
                      "the termination predicate is consulted before a task has been advanced in this round: with a predicate that is already true "
                      "(a tick started late) no task ever makes progress", witness=g.describe(w))
            w = must_pass(g, drawn, adv, to=list(heads) + [g.exit], exc=False)
            ctx.check(w is None, "fair/yields-runnable", q + " | <every element>", "a task taken from the iterator can be skipped without being advanced", witness=g.describe(w))
            wl = g.ids(lambda n: n.kind == "test" and src(n.ast) == "self._tasks")
            if not wl and walk_name != "_tick" and "_tick" in methods(coop):
                gt = ctx.cfg(methods(coop)["_tick"])
                wl = gt.ids(lambda n: n.kind == "test" and src(n.ast) == "self._tasks")
            ctx.check(bool(wl), "fair/stops-when-empty", q, "the walk does not terminate when the runnable set is empty (busy loop) or never starts")

    # ---- Cooperator._tick --------------------
    with section(ctx, 'Cooperator._tick'):
        f = cm["_tick"]
        ctx.functions.add(f"{TASK}:Cooperator._tick")
        g = ctx.cfg(f)
        q = f"{QC}._tick"
        clr = g.ids(lambda n: n.kind == "stmt" and any(self_attr(t, "_delayedCall") and is_const(v, None) for t, v in assign_pairs(n.ast)))
        res = gfind(g, lambda x: _is_call(x, "self._reschedule"))
        w = must_pass(g, [g.entry], res, exc=False)
        ctx.check(bool(res) and w is None, "tick/reschedules", q, "a tick can end without rescheduling: remaining runnable tasks are starved", witness=g.describe(w))
        w = g.must_precede(clr, res) if clr else [g.entry]
        ctx.check(bool(clr) and w is None, "tick/forgets-spent-call", q,
                  "_delayedCall still refers to the spent call when _reschedule() runs: it believes a tick is pending and schedules nothing (all tasks starve)",
                  witness=g.describe(w))
        work = gfind(g, lambda x: isinstance(x, ast.Call) and call_attr(x) == "_oneWorkUnit")
        w = g.must_precede(clr, work) if clr and work else None
        ctx.check(w is None, "tick/forgets-spent-call", q + " | <before work>",
                  "_delayedCall is cleared after the work units: a task removed during the tick cancels the spent call (AlreadyCalled) / a pause-resume inside the tick "
                  "cannot schedule", witness=g.describe(w))

    # ---- Cooperator._reschedule and start --------------------
    with section(ctx, 'Cooperator._reschedule and start'):
        f = cm["_reschedule"]
        ctx.functions.add(f"{TASK}:Cooperator._reschedule")
        g = ctx.cfg(f)
        q = f"{QC}._reschedule"
        sch = gfind(g, lambda x: _is_call(x, "self._scheduler"))
        ctx.check(len(sch) == 1, "reschedule/schedules-tick", q, f"{len(sch)} scheduler call sites in _reschedule (one expected)")
        for n in sch:
            key = ctx.construct(q, g.node(n).ast)
            call = next(x for x in ast.walk(g.node(n).ast) if _is_call(x, "self._scheduler"))
            ctx.check(len(call.args) == 1 and src(call.args[0]) == "self._tick", "reschedule/schedules-tick", key, "the scheduler is not given self._tick")
            ctx.check(any(self_attr(t, "_delayedCall") and v is call for t, v in assign_pairs(g.node(n).ast)), "reschedule/remembers-call", key,
                      "the scheduled call is not remembered in _delayedCall: a second tick is scheduled for every added task and stop() cannot cancel")
            ctx.check(guarded_none(g, n, "self._delayedCall"), "reschedule/single-pending-tick", key, "a tick is scheduled although one is already pending (ticks multiply)")
            ctx.check(g.guarded(n, lambda e: src(e) == "self._tasks", True), "reschedule/only-with-work", key, "a tick is scheduled with no runnable task (busy loop)")
        # every condition that blocks scheduling is one of: not started (remembered), tick pending, no tasks
        started = g.ids(lambda n: n.kind == "test" and src(n.ast) == "self._started")
        for t in started:
            s = [d for d, l in g.succ[t] if l == "F"]
            rem = g.ids(lambda n: n.kind == "stmt" and any(self_attr(tt, "_mustScheduleOnStart") and is_const(v, True) for tt, v in assign_pairs(n.ast)))
            w = must_pass(g, s, rem, exc=False)
            ctx.check(bool(rem) and w is None, "reschedule/deferred-until-start", q, "a reschedule requested before start() is forgotten (tasks added before start() never run)",
                      witness=g.describe(w))
        extra = [t for t in g.ids(lambda n: n.kind == "test") if src(g.node(t).ast) not in ("self._started", "self._tasks") and is_none_test(g.node(t).ast, "self._delayedCall") is None]
        ctx.check(not extra, "reschedule/no-extra-condition", q, "scheduling a tick depends on an additional condition: " + ", ".join(src(g.node(t).ast) for t in extra))
        f = cm["start"]
        g = ctx.cfg(f)
        q = f"{QC}.start"
        res = gfind(g, lambda x: _is_call(x, "self._reschedule"))
        ms = g.ids(lambda n: n.kind == "test" and src(n.ast) == "self._mustScheduleOnStart")
        for t in ms:
            s = [d for d, l in g.succ[t] if l == "T"]
            w = must_pass(g, s, res, exc=False)
            ctx.check(bool(res) and w is None, "reschedule/deferred-until-start", q, "start() does not perform the reschedule that was postponed", witness=g.describe(w))
        stt = g.ids(lambda n: n.kind == "stmt" and any(self_attr(t, "_started") and is_const(v, True) for t, v in assign_pairs(n.ast)))
        w = g.must_precede(stt, res) if res else None
        ctx.check(bool(stt) and w is None, "reschedule/deferred-until-start", q + " | self._started", "start() reschedules before marking the cooperator started (nothing is scheduled)",
                  witness=g.describe(w))

    # ---- loops that must visit every element must not iterate the list their body mutates ----------------------------------
    with section(ctx, 'loops that must visit every element must not iterate the list their body mutates'):
        nloops = 0
        for cname, qn, fn in funcs:
            if isinstance(fn, ast.Lambda):
                continue
            for loop in [n for n in body_walk(fn) if isinstance(n, ast.For)]:
                if _snapshot_of(loop.iter, "self._tasks"):
                    nloops += 1
                    ctx.ok("iterate/not-while-mutating", ctx.construct(f"twisted.internet.task.{qn}", f"for {src(loop.target)} in {src(loop.iter)}"), "snapshot")
                    continue
                if src(loop.iter) != "self._tasks":
                    continue
                nloops += 1
                calls = [c for st in loop.body for c in ast.walk(st) if isinstance(c, ast.Call)]
                chain = may_mutate([task, coop], calls, "_tasks", kinds={"remove", "append", "pop_first", "pop_last", "pop_key", "insert", "insert0", "clear", "del-prefix", "delitem", "extend"})
                lkey = ctx.construct(f"twisted.internet.task.{qn}", "<loop over the live runnable list completing every task>" if chain and "_completeWith" in chain
                                     else f"for {src(loop.target)} in {src(loop.iter)}")
                ctx.check(chain is None, "iterate/not-while-mutating", lkey,
                          "the loop iterates the live runnable list while its body removes from it (" + " -> ".join(chain or []) + "): every other task is skipped; "
                          "the skipped tasks are never completed, their whenDone/coiterate Deferreds never fire")

    # ---- Cooperator.stop --------------------
    with section(ctx, 'Cooperator.stop'):
        f = cm["stop"]
        ctx.functions.add(f"{TASK}:Cooperator.stop")
        g = ctx.cfg(f)
        q = f"{QC}.stop"
        comps = gfind(g, lambda x: isinstance(x, ast.Call) and call_attr(x) == "_completeWith")
        flag = g.ids(lambda n: n.kind == "stmt" and any(self_attr(t, "_stopped") and is_const(v, True) for t, v in assign_pairs(n.ast)))
        w = g.must_precede(flag, comps) if comps else None
        ctx.check(bool(flag) and bool(comps) and w is None, "stop/flag-before-completions", q,
                  "tasks are completed before the cooperator is marked stopped: a whenDone callback adding a task gets it scheduled on a stopped cooperator",
                  witness=g.describe(w))
        # every runnable task is completed: a loop over (a snapshot of) the list completing its loop variable, or a loop that keeps
        # completing an element of the live list until the list is empty (each completion removes the element: complete/leaves-runnable-set)
        every = False
        shape = ""
        for lp in [n for n in body_walk(f) if isinstance(n, ast.For) and isinstance(n.target, ast.Name)
                   and (src(n.iter) == "self._tasks" or _snapshot_of(n.iter, "self._tasks"))]:
            if any(isinstance(x, ast.Call) and call_attr(x) == "_completeWith" and src(x.func.value) == lp.target.id for st in lp.body for x in ast.walk(st)):
                every, shape = True, "for-loop over the runnable list"
        for t in g.ids(lambda n: n.kind == "test" and src(n.ast) == "self._tasks" and isinstance(getattr(n.ast, "_parent", None), ast.While)):
            heads = [n for n in comps if isinstance(next(x for x in ast.walk(g.node(n).ast) if isinstance(x, ast.Call) and call_attr(x) == "_completeWith").func.value, ast.Subscript)]
            ts = [d for d, l in g.succ[t] if l == "T"]
            if heads and must_pass(g, ts, heads, to=[t, g.exit], exc=False) is None and g.path(ts, [g.exit], avoid={t}, edge_ok=no_exc) is None:
                every, shape = True, "while the list is non-empty, complete one of its elements"
        ctx.check(every, "stop/completes-every-task", q, "Cooperator.stop() does not complete every runnable task with SchedulerStopped (their whenDone / coiterate "
                  "Deferreds never fire)", detail=shape)
        canc = gfind(g, lambda x: _is_call(x, "self._delayedCall.cancel"))
        ctx.check(bool(canc) and all(guarded_not_none(g, n, "self._delayedCall") for n in canc), "stop/cancels-tick", q, "stop() does not cancel the pending tick (only when one is pending)")

    # ---- coiterate ----------------------------------------------------------------------------------------------------------
    with section(ctx, 'coiterate'):
        f = cm["coiterate"]
        ctx.functions.add(f"{TASK}:Cooperator.coiterate")
        q = f"{QC}.coiterate"
        chains = [c for c in body_walk(f) if isinstance(c, ast.Call) and call_attr(c) == "chainDeferred"]
        wd_names = {t.id for st in body_walk(f) for t, v in assign_pairs(st) if isinstance(t, ast.Name) and isinstance(v, ast.Call) and call_attr(v) == "whenDone"}
        rets = [r for r in body_walk(f) if isinstance(r, ast.Return)]
        ok = bool(chains) and bool(rets)
        for r in rets:
            ok = ok and any(len(c.args) == 1 and src(c.args[0]) == src(r.value) and
                            ((isinstance(c.func.value, ast.Name) and c.func.value.id in wd_names) or (isinstance(c.func.value, ast.Call) and call_attr(c.func.value) == "whenDone"))
                            for c in chains)
        ctx.check(ok, "coiterate/chained-to-whenDone", q, "the Deferred returned by coiterate() is not the one chained to the task's whenDone(): it never fires")
        g = ctx.cfg(f)
        cn = gfind(g, lambda x: isinstance(x, ast.Call) and call_attr(x) == "chainDeferred")
        w = must_pass(g, [g.entry], cn, exc=False)
        ctx.check(w is None, "coiterate/chained-to-whenDone", q + " | <all paths>", "coiterate() can return without chaining", witness=g.describe(w))


def is_const_num(node, value):
    return isinstance(node, ast.Constant) and type(node.value) is int and node.value == value


_STOPLOOP = ("        while self._tasks:\n            self._tasks[0]._completeWith(\n                SchedulerStopped(), Failure(SchedulerStopped())\n            )\n"
             "        self._tasks = []\n")
_FAILLATER = ("                def failLater(failure: Failure) -> Optional[Failure]:\n                    if self._completionState is not None:\n"
              "                        # This task was stopped (or otherwise finished) while\n                        # it was waiting: whenDone() has already fired, so\n"
              "                        # leave the failure to the Deferred's own chain.\n                        return failure\n"
              "                    self._completeWith(TaskFailed(), failure)\n                    return None\n")
_REGISTER = "                result.addCallbacks(lambda result: self.resume(), failLater)\n"

MUTANTS = [
    Mutant("stop-completes-finished-task", TASK, "        self._checkFinish()\n        self._completeWith(TaskStopped(), Failure(TaskStopped()))\n",
           "        self._completeWith(TaskStopped(), Failure(TaskStopped()))\n", expect_rule="complete/once"),
    Mutant("pause-without-check", TASK, "        self._checkFinish()\n        self._pauseCount += 1\n", "        self._pauseCount += 1\n", expect_rule="finished/check-first"),
    Mutant("resume-readds-finished", TASK, "        if self._pauseCount == 0 and self._completionState is None:\n", "        if self._pauseCount == 0:\n",
           expect_rule="resume/finished-stays-out"),
    Mutant("narrow-handler-to-Exception", TASK, "        except BaseException:\n            self._completeWith(TaskFailed(), Failure())",
           "        except Exception:\n            self._completeWith(TaskFailed(), Failure())", expect_rule="advance/every-exception-completes"),
    Mutant("register-before-pause", TASK, "                self.pause()\n\n" + _FAILLATER + "\n" + _REGISTER,
           _FAILLATER + "\n" + _REGISTER + "                self.pause()\n", expect_rule="advance/pause-before-callbacks"),
    Mutant("state-stored-after-fire", TASK, "        self._completionState = completionState\n        self._completionResult = deferredResult\n        if not self._pauseCount:",
           "        self._completionResult = deferredResult\n        if not self._pauseCount:",
           more=[(TASK, "        for d in self._deferreds:\n            d.callback(deferredResult)\n", "        for d in self._deferreds:\n            d.callback(deferredResult)\n        self._completionState = completionState\n")],
           expect_rule="complete/state-before-fire"),
    Mutant("whenDone-registers-late", TASK, "        if self._completionState is None:\n            self._deferreds.append(d)\n        else:\n            assert self._completionResult is not None\n            d.callback(self._completionResult)\n",
           "        self._deferreds.append(d)\n        if self._completionState is not None:\n            assert self._completionResult is not None\n            d.callback(self._completionResult)\n",
           expect_rule="whenDone/late-registration"),
    Mutant("tick-keeps-spent-call", TASK, "        self._delayedCall = None\n        for taskObj in self._tasksWhileNotStopped():\n            taskObj._oneWorkUnit()\n        self._reschedule()\n",
           "        for taskObj in self._tasksWhileNotStopped():\n            taskObj._oneWorkUnit()\n        self._reschedule()\n        self._delayedCall = None\n", expect_rule="tick/forgets-spent-call"),
    Mutant("add-does-not-wake", TASK, "        else:\n            self._tasks.append(task)\n            self._reschedule()\n", "        else:\n            self._tasks.append(task)\n",
           expect_rule="add/wakes-scheduler"),
    Mutant("round-robin-restarts-each-tick", TASK, "        terminator = self._terminationPredicateFactory()\n        while self._tasks:\n",
           "        terminator = self._terminationPredicateFactory()\n        self._metarator = iter(self._tasks)\n        while self._tasks:\n", expect_rule="fair/renew-only-when-exhausted"),
    Mutant("predicate-before-progress", TASK, "                yield t\n                if terminator():\n                    return\n",
           "                if terminator():\n                    return\n                yield t\n", expect_rule="fair/progress-before-predicate"),
    Mutant("exhaustion-result-is-failure", TASK, "            self._completeWith(TaskDone(), self._iterator)\n", "            self._completeWith(TaskDone(), Failure(TaskDone()))\n",
           expect_rule="complete/state-result-table"),
    Mutant("tasks-prepended", TASK, "        else:\n            self._tasks.append(task)\n            self._reschedule()\n", "        else:\n            self._tasks.insert(0, task)\n            self._reschedule()\n",
           expect_rule="who-may-write/tasks"),
    Mutant("complete-removes-after-fire", TASK, "        if not self._pauseCount:\n            self._cooperator._removeTask(self)\n\n        # The Deferreds need",
           "        # The Deferreds need",
           more=[(TASK, "        for d in self._deferreds:\n            d.callback(deferredResult)\n", "        for d in self._deferreds:\n            d.callback(deferredResult)\n        if not self._pauseCount:\n            self._cooperator._removeTask(self)\n")],
           expect_rule="complete/removed-before-fire"),
    Mutant("remove-cancels-tick-with-work-left", TASK, "        if not self._tasks and self._delayedCall:\n", "        if self._delayedCall:\n", expect_rule="remove/cancel-only-when-idle"),
    Mutant("cancelled-tick-remembered", TASK, "        if not self._tasks and self._delayedCall:\n            self._delayedCall.cancel()\n            self._delayedCall = None\n",
           "        if not self._tasks and self._delayedCall:\n            self._delayedCall.cancel()\n", expect_rule="tick/cancelled-call-forgotten"),
    # the two repaired findings: reverting either fix: commit must be reported on the finding's construct
    Mutant("F11-fix-reverted-errback-completes-unconditionally", TASK, _FAILLATER,
           "                def failLater(failure: Failure) -> None:\n                    self._completeWith(TaskFailed(), failure)\n", expect_rule="complete/once"),
    Mutant("F11b-fix-reverted-stop-iterates-the-live-list", TASK, _STOPLOOP,
           "        for taskObj in self._tasks:\n            taskObj._completeWith(SchedulerStopped(), Failure(SchedulerStopped()))\n        self._tasks = []\n",
           expect_rule="iterate/not-while-mutating"),
    Mutant("stop-completes-an-unguarded-snapshot", TASK, _STOPLOOP,
           "        for taskObj in list(self._tasks):\n            taskObj._completeWith(SchedulerStopped(), Failure(SchedulerStopped()))\n        self._tasks = []\n",
           expect_rule="complete/once"),
    Mutant("stop-forgets-tasks-without-completing", TASK, _STOPLOOP, "        self._tasks = []\n", expect_rule="stop/"),
    Mutant("round-renewed-when-the-helper-reports-an-early-stop", TASK, "        self._delayedCall = None\n        for taskObj in self._tasksWhileNotStopped():\n            taskObj._oneWorkUnit()\n        self._reschedule()\n", "        self._delayedCall = None\n        enough = self._terminationPredicateFactory()\n        while self._tasks:\n            if self._serveRound(enough):\n                break\n            self._metarator = iter(self._tasks)\n        self._reschedule()\n",
           more=[(TASK, "        terminator = self._terminationPredicateFactory()\n        while self._tasks:\n            for t in self._metarator:\n                yield t\n                if terminator():\n                    return\n            self._metarator = iter(self._tasks)\n", "        return iter(())\n"), (TASK, "    def _tick(self) -> None:\n", "    def _serveRound(self, enough) -> bool:\n        for current in self._metarator:\n            current._oneWorkUnit()\n            if enough():\n                return False\n        return True\n\n    def _tick(self) -> None:\n")],
           expect_rule="fair/renew-only-when-exhausted"),
    Mutant("round-helper-advances-a-task-it-did-not-draw", TASK, "        self._delayedCall = None\n        for taskObj in self._tasksWhileNotStopped():\n            taskObj._oneWorkUnit()\n        self._reschedule()\n", "        self._delayedCall = None\n        enough = self._terminationPredicateFactory()\n        while self._tasks:\n            if not self._serveRound(enough):\n                break\n            self._metarator = iter(self._tasks)\n        self._reschedule()\n",
           more=[(TASK, "        terminator = self._terminationPredicateFactory()\n        while self._tasks:\n            for t in self._metarator:\n                yield t\n                if terminator():\n                    return\n            self._metarator = iter(self._tasks)\n", "        return iter(())\n"),
                 (TASK, "    def _tick(self) -> None:\n", "    def _serveRound(self, enough) -> bool:\n        for current in self._metarator:\n            current._oneWorkUnit()\n            self._tasks[0]._oneWorkUnit()\n            if enough():\n                return False\n        return True\n\n    def _tick(self) -> None:\n")],
           expect_rule="advance/only-runnable"),
    Mutant("coiterate-unchained", TASK, "        whenDone.chainDeferred(doneDeferred)\n        return doneDeferred\n", "        whenDone.addErrback(doneDeferred.errback)\n        return doneDeferred\n",
           expect_rule="coiterate/chained-to-whenDone"),
    Mutant("second-live-loop-over-tasks", TASK, "        self._stopped = False\n        self._started = True\n",
           "        self._stopped = False\n        self._started = True\n        for t in self._tasks:\n            t.pause()\n", expect_rule="iterate/not-while-mutating"),
]

SILENT = [
    Silent("F11-guard-spelled-positively", TASK, _FAILLATER,
           "                def failLater(failure: Failure) -> Optional[Failure]:\n                    if self._completionState is None:\n"
           "                        self._completeWith(TaskFailed(), failure)\n                        return None\n                    return failure\n"),
    Silent("F11b-snapshot-with-completion-guard", TASK, _STOPLOOP,
           "        for taskObj in list(self._tasks):\n            if taskObj._completionState is None:\n"
           "                taskObj._completeWith(SchedulerStopped(), Failure(SchedulerStopped()))\n        self._tasks = []\n"),
    Silent("F11b-head-named-before-completing", TASK, _STOPLOOP,
           "        while self._tasks:\n            head = self._tasks[0]\n            head._completeWith(SchedulerStopped(), Failure(SchedulerStopped()))\n        self._tasks = []\n"),
    Silent("pause-count-compared-flipped", TASK, "        if self._pauseCount == 1:\n            self._cooperator._removeTask(self)\n",
           "        if 1 == self._pauseCount:\n            self._cooperator._removeTask(self)\n"),
    Silent("complete-tests-count-explicitly", TASK, "        if not self._pauseCount:\n            self._cooperator._removeTask(self)\n", "        if self._pauseCount == 0:\n            self._cooperator._removeTask(self)\n"),
    Silent("separate-callback-registration", TASK, "                result.addCallbacks(lambda result: self.resume(), failLater)\n",
           "                def resumeLater(value: object) -> None:\n                    self.resume()\n\n                result.addCallbacks(resumeLater, failLater)\n"),
    Silent("whenDone-branches-inverted", TASK, "        if self._completionState is None:\n            self._deferreds.append(d)\n        else:\n            assert self._completionResult is not None\n            d.callback(self._completionResult)\n",
           "        if self._completionState is not None:\n            assert self._completionResult is not None\n            d.callback(self._completionResult)\n        else:\n            self._deferreds.append(d)\n"),

    # --- shapes of the independent refactor set
    Silent("deferred-branch-in-private-helper", TASK, "                self.pause()\n\n" + _FAILLATER + "\n" + _REGISTER,
           "                self._suspendUntil(result)\n",
           more=[(TASK, "    def _oneWorkUnit(self) -> None:\n", "    def _suspendUntil(self, pending) -> None:\n        self.pause()\n\n        def wake(value: object) -> None:\n            self.resume()\n\n"
                  "        def fail(reason: Failure) -> Optional[Failure]:\n            if self._completionState is not None:\n                return reason\n"
                  "            self._completeWith(TaskFailed(), reason)\n            return None\n\n        pending.addCallbacks(wake, fail)\n\n    def _oneWorkUnit(self) -> None:\n")]),
    Silent("generator-inlined-into-tick", TASK,
           "        self._delayedCall = None\n        for taskObj in self._tasksWhileNotStopped():\n            taskObj._oneWorkUnit()\n        self._reschedule()\n",
           "        self._delayedCall = None\n        enough = self._terminationPredicateFactory()\n        finished = False\n        while self._tasks and not finished:\n            for current in self._metarator:\n"
           "                current._oneWorkUnit()\n                if enough():\n                    finished = True\n                    break\n            else:\n                self._metarator = iter(self._tasks)\n        self._reschedule()\n",
           more=[(TASK, "        terminator = self._terminationPredicateFactory()\n        while self._tasks:\n            for t in self._metarator:\n                yield t\n                if terminator():\n                    return\n            self._metarator = iter(self._tasks)\n",
                  "        return iter(())\n")]),
    Silent("named-temporaries-and-guard-clauses", TASK, "        if self._completionState is not None:\n            raise self._completionState\n",
           "        state = self._completionState\n        if state is None:\n            return\n        raise state\n",
           more=[(TASK, "        self._pauseCount += 1\n        if self._pauseCount == 1:\n            self._cooperator._removeTask(self)\n",
                  "        firstPause = self._pauseCount == 0\n        self._pauseCount += 1\n        if firstPause:\n            self._cooperator._removeTask(self)\n"),
                 (TASK, "        if not self._pauseCount:\n            self._cooperator._removeTask(self)\n", "        running = self._pauseCount == 0\n        if running:\n            self._cooperator._removeTask(self)\n")]),
    Silent("scheduler-stopped-helper-and-split-conditions", TASK, _STOPLOOP,
           "        while self._tasks:\n            self._rejectStopped(self._tasks[0])\n        self._tasks = []\n",
           more=[(TASK, "            task._completeWith(SchedulerStopped(), Failure(SchedulerStopped()))\n        else:\n", "            self._rejectStopped(task)\n        else:\n"),
                 (TASK, "    def _removeTask(self, task: CooperativeTask) -> None:\n", "    def _rejectStopped(self, task: CooperativeTask) -> None:\n        reason = SchedulerStopped()\n        task._completeWith(reason, Failure(SchedulerStopped()))\n\n    def _removeTask(self, task: CooperativeTask) -> None:\n"),
                 (TASK, "        if not self._tasks and self._delayedCall:\n            self._delayedCall.cancel()\n            self._delayedCall = None\n",
                  "        if self._tasks:\n            return\n        pending = self._delayedCall\n        if pending:\n            pending.cancel()\n            self._delayedCall = None\n")]),

    # --- second round of independent refactors: a private property standing for a test, callbacks as bound methods, explicit next() driving
    Silent("finished-property-and-bound-method-callbacks", TASK, "                self.pause()\n\n" + _FAILLATER + "\n" + _REGISTER,
           "                self.pause()\n                result.addCallbacks(self._resumeAfterWait, self._failAfterWait)\n",
           more=[(TASK, "    def _oneWorkUnit(self) -> None:\n",
                  "    @property\n    def _isOver(self) -> bool:\n        return self._completionState is not None\n\n    def _resumeAfterWait(self, value: object) -> None:\n        self.resume()\n\n"
                  "    def _failAfterWait(self, reason: Failure) -> Optional[Failure]:\n        if self._isOver:\n            return reason\n        self._completeWith(TaskFailed(), reason)\n        return None\n\n"
                  "    def _oneWorkUnit(self) -> None:\n"),
                 (TASK, "        if self._pauseCount == 0 and self._completionState is None:\n", "        if self._pauseCount == 0 and not self._isOver:\n"),
                 (TASK, "        if self._completionState is not None:\n            raise self._completionState\n", "        if self._isOver:\n            raise self._completionState\n")]),
    Silent("walk-driven-by-explicit-next", TASK,
           "        while self._tasks:\n            for t in self._metarator:\n                yield t\n                if terminator():\n                    return\n            self._metarator = iter(self._tasks)\n",
           "        turn = self._metarator\n        while self._tasks:\n            try:\n                candidate = next(turn)\n            except StopIteration:\n"
           "                self._metarator = turn = iter(self._tasks)\n                continue\n            yield candidate\n            if terminator():\n                return\n"),
    # --- third round: the pull-style generator replaced by a push-style round helper that reports exhaustion to the tick
    Silent("round-helper-reports-exhaustion-to-the-tick", TASK, "        self._delayedCall = None\n        for taskObj in self._tasksWhileNotStopped():\n            taskObj._oneWorkUnit()\n        self._reschedule()\n", "        self._delayedCall = None\n        enough = self._terminationPredicateFactory()\n        while self._tasks:\n            if not self._serveRound(enough):\n                break\n            self._metarator = iter(self._tasks)\n        self._reschedule()\n",
           more=[(TASK, "        terminator = self._terminationPredicateFactory()\n        while self._tasks:\n            for t in self._metarator:\n                yield t\n                if terminator():\n                    return\n            self._metarator = iter(self._tasks)\n", "        return iter(())\n"), (TASK, "    def _tick(self) -> None:\n", "    def _serveRound(self, enough) -> bool:\n        for current in self._metarator:\n            current._oneWorkUnit()\n            if enough():\n                return False\n        return True\n\n    def _tick(self) -> None:\n")]),
]
