"""C38 - Telnet carries application bytes transparently."""
from __future__ import annotations

import ast
import itertools

from sa.astx import NotConst, call_name, const_eval, src, statements
from sa.selftest import Mutant, Silent
from sa.source import AnalysisError, class_assigns, methods, mro_lookup
from sa.props._lib_h import MiniInterp, ModelError, edge_path, self_attr

PROPERTY = "C38"
TELNET = "conch/telnet.py"
M = "twisted.conch.telnet."
TECHNIQUE = ("finite-exhaustive: the receive automaton evaluated on every (state, byte) pair, the writers on every byte value, each after a domain argument checked on "
             "the code; structural: who writes the parse state, state/branch table agreement, state kept on the instance, writeSequence routed through write and "
             "iterated once, RFC 854 constants; second layer (bounded): corpus of wires under segmentations against an RFC 854 reference decoder, writer probes")
RULE_KINDS = {
    "constants/": "structural",
    "writer/single-bytes": "finite-exhaustive",
    "writer/iac-doubled-on-every-path": "structural",
    "writer/": "bounded",
    "writeSequence/through-write": "structural",
    "writeSequence/iterable-consumed-once": "structural",
    "writeSequence/same-escaping-as-write": "bounded",
    "subnegotiation/single-bytes": "finite-exhaustive",
    "subnegotiation/": "bounded",
    "reader/who-writes-state": "structural",
    "reader/state-has-branch": "structural",
    "reader/state-on-instance": "structural",
    "reader/transition-table": "finite-exhaustive",
    "reader-samples/": "bounded",
    "reader/": "bounded",
}
EXPLANATION = (
    "Per clause, with the kind of its decider. "
    "[application bytes are escaped on the way out] writer/single-bytes (FINITE-EXHAUSTIVE): it is first checked on the code that TelnetTransport.write and the methods "
    "it delegates to (MRO, explicit base-class calls) pass the data to transport.write only through .replace(<one-byte constant>, <constant>) and concatenation with "
    "data-independent values - each such step maps the string byte by byte - so the empty string and every single byte value decide all inputs; they are evaluated "
    "(whitelisted interpreter, no twisted code is run) against IAC doubling + LF -> CR LF. If the check on the code fails (e.g. a conditional on the data) the rule "
    "abstains with a note and only the BOUNDED probes remain: writer/iac-doubled, lf-to-crlf, other-bytes-untouched, matches-ideal-escaper (all single bytes, pairs "
    "over a critical alphabet, 0xFF / LF at first / middle / last position). "
    "[writeSequence escapes like write - F38, fixed] writeSequence/through-write (STRUCTURAL): the writeSequence resolved on TelnetTransport sends only through "
    "self.write, never directly to the transport or a base-class writer; writeSequence/iterable-consumed-once (STRUCTURAL, CFG): the iterable parameter is iterated "
    "at most once on every path unless materialised first; writeSequence/same-escaping-as-write (BOUNDED): lists, tuples, one-shot iterators and generators. "
    "[sub-negotiation payload] subnegotiation/single-bytes (FINITE-EXHAUSTIVE, same byte-wise domain argument, every payload byte value); subnegotiation/iac-doubled, "
    "framing (BOUNDED probes). "
    "[receiver decodes what the sender encodes, under every segmentation] reader/transition-table (FINITE-EXHAUSTIVE): checked on the code that dataReceived is one loop "
    "over the bytes of the chunk, that the chunk is read nowhere else (no look at the chunk as a whole - a bulk / fast path makes behaviour depend on where the chunk "
    "boundaries fall; then the rule says so in a note and reports the same runs as reader-samples/transition-table, BOUNDED, and the segmentation corpus decides), that "
    "its only memory between bytes is on the instance (state, command, commands) and that no local carries state (reader/state-on-instance, "
    "STRUCTURAL: every local read in a state's branch is bound earlier in the same branch) - so behaviour on every stream and every segmentation is the composition of "
    "(state, byte) steps; every one of the 6 x 256 pairs that RFC 854 specifies is evaluated from prefixes that set every register value, with a closing sequence that "
    "makes the registers observable, against the reference decoder. reader/who-writes-state (only dataReceived and the private helpers only it calls write the state), "
    "reader/state-has-branch (every state assigned has a branch; table agreement) - STRUCTURAL. BOUNDED witnesses: reader/round-trip and reader/flush-at-chunk-end "
    "(exhaustive finite corpus of CR-free strings rich in IAC / LF / command bytes, interleaved commands and sub-negotiations, whole / byte-wise / every two-way "
    "split, including doubled-IAC runs of 4 and 6 bytes cut at every offset), reader/delivery-unchanged, reader/unknown-state-raises. Module-level regular expressions "
    "compiled from constant patterns are evaluated by delegating the matching to CPython's re. "
    "[constants] constants/rfc854 - STRUCTURAL. "
    "Bounded evidence only: none of the claimed clauses when the domain arguments hold; the sub-negotiation buffer is assumed to be treated uniformly in its content "
    "(sampled with 0 / 1 / 3 bytes). Not decided: application data containing CR (excluded by the statement)."
)
ASSUMPTIONS = [
    "the receive automaton's only cross-chunk state is self.state / self.command / self.commands (checked: chunk-local buffer is flushed)",
    "application data contains no CR (precondition of the property)",
]

IACB, LFB, CRB, NULB = b"\xff", b"\n", b"\r", b"\0"


# ---- constants -----------------------------------------------------------------------------

def telnet_consts(mod):
    env = {}
    for st in mod.tree.body:
        if isinstance(st, ast.Assign) and len(st.targets) == 1 and isinstance(st.targets[0], ast.Name):
            v = st.value
            if isinstance(v, ast.Call) and call_name(v) == "_chr" and len(v.args) == 1:
                try:
                    env[st.targets[0].id] = bytes((const_eval(v.args[0], env),))
                except (NotConst, ValueError, TypeError):
                    pass
            else:
                try:
                    env[st.targets[0].id] = const_eval(v, env)
                except NotConst:
                    pass
    from sa.props._lib_h import module_regexes
    env.update(module_regexes(mod, env))       # module-level patterns compiled from constants (matching is delegated to CPython's re)
    return env


# ---- writer pipeline -----------------------------------------------------------------------

class _WInterp(MiniInterp):
    """MiniInterp whose calls are resolved inside the telnet module: transport sinks, explicit base-class delegation,
    self.<method>() through the MRO of the dynamic class, module-level helper functions."""

    def __init__(self, func, mod, dyn_cls, consts, sinks, used):
        MiniInterp.__init__(self, func, {}, {}, consts)
        self.mod, self.dyn_cls, self.sinks, self.used = mod, dyn_cls, sinks, used

    def class_attr(self, name):
        # the writer model keeps no instance state: a condition on it is outside the model (explored both ways when it guards a branch)
        raise AnalysisError(f"model: instance attribute self.{name} is outside the writer model")

    def ev(self, n):
        if isinstance(n, ast.Call) and not n.keywords:
            d = call_name(n)
            if d in ("self.transport.write", "self._write") and len(n.args) == 1:
                v = self.ev(n.args[0])
                if not isinstance(v, (bytes, bytearray)):
                    raise ModelError(f"TypeError: transport.write({type(v).__name__})")
                self.sinks.append(bytes(v))
                return None
            if d == "self.protocol.dataReceived" and len(n.args) == 1:
                self.sinks.append(self.ev(n.args[0]))
                return None
            if d == "self.transport.writeSequence" and len(n.args) == 1:
                self.sinks.append(b"".join(self.ev(n.args[0])))
                return None
            if isinstance(n.func, ast.Attribute) and isinstance(n.func.value, ast.Name):
                recv = n.func.value.id
                if recv == "self" and isinstance((mro_lookup(self.mod, self.dyn_cls, n.func.attr) or (None, None))[1], ast.FunctionDef):
                    return eval_method(self.mod, self.dyn_cls, self.dyn_cls, n.func.attr, [self.ev(a) for a in n.args], self.consts, self.sinks, self.used)
                base = self.mod.find(recv) if recv not in self.loc else None
                if isinstance(base, ast.ClassDef) and n.args and src(n.args[0]) == "self":
                    return eval_method(self.mod, base, self.dyn_cls, n.func.attr, [self.ev(a) for a in n.args[1:]], self.consts, self.sinks, self.used)
            if isinstance(n.func, ast.Name) and n.func.id not in self.loc:
                h = self.mod.find(n.func.id)
                if isinstance(h, ast.FunctionDef) and getattr(h, "_parent", None) is self.mod.tree:
                    self.used.add(h.name)
                    sub = _WInterp(_noself(h), self.mod, self.dyn_cls, self.consts, self.sinks, self.used)
                    return sub.call(*[self.ev(a) for a in n.args])
        return MiniInterp.ev(self, n)


def _noself(fn):
    """module-level helper: MiniInterp.call() skips the first parameter (self); give helpers a dummy one"""
    f2 = ast.parse(ast.unparse(fn)).body[0]
    f2.args.args.insert(0, ast.arg(arg="__self__"))
    return f2


def eval_method(mod, lookup_cls, dyn_cls, name, args, consts, sinks, used, depth=0):
    r = mro_lookup(mod, lookup_cls, name)
    if r is None or not isinstance(r[1], ast.FunctionDef):
        raise AnalysisError(f"C38: no method {name} resolvable on {lookup_cls.name}")
    owner, f = r
    if len(used) > 40:
        raise AnalysisError("C38: method evaluation too deep")
    used.add(f"{owner.name}.{name}")
    return _WInterp(f, mod, dyn_cls, consts, sinks, used).call(*args)


def iac_bypass(ctx, mod, cls, mname, C, escaped_params=False, seen=None):
    """None when every call in method ``mname`` (resolved on ``cls``) that hands its data parameter on - to the underlying transport or to another
    writer of the class hierarchy - passes data that went through ``.replace(IAC, IAC IAC)`` on every path (or hands it to a writer that does so on
    every one of its paths).  Otherwise a description of the first bypass.  Unrecognisable forwarding raises AnalysisError (the caller abstains)."""
    from sa.props._lib_h import reaching_defs, assigned_pairs
    seen = seen if seen is not None else set()
    r = mro_lookup(mod, cls, mname)
    if r is None or not isinstance(r[1], ast.FunctionDef) or len(r[1].args.args) < 2:
        raise AnalysisError(f"C38: writer {mname} not resolvable")
    owner, f = r
    if (id(f), escaped_params) in seen:
        return None
    seen.add((id(f), escaped_params))
    dparam = f.args.args[-1].arg
    g = ctx.cfg(f)
    iac = C.get("IAC")

    def const(e):
        try:
            return const_eval(e, dict(C))
        except NotConst:
            return None

    def escaped(e, node, depth=0):
        """the value of e at CFG node `node` has had every IAC doubled"""
        if depth > 6:
            return False
        if isinstance(e, ast.Call) and isinstance(e.func, ast.Attribute) and e.func.attr == "replace" and len(e.args) == 2:
            if const(e.args[0]) == iac and const(e.args[1]) == iac * 2:
                return True
            pat, rep = const(e.args[0]), const(e.args[1])
            if isinstance(pat, bytes) and isinstance(rep, bytes) and iac not in pat and iac not in rep:
                return escaped(e.func.value, node, depth + 1)      # a rewrite that neither removes nor introduces IACs
            return False
        if isinstance(e, ast.Call) and isinstance(e.func, ast.Attribute) and e.func.attr == "join" and len(e.args) == 1:
            return escaped(e.args[0], node, depth + 1)
        if isinstance(e, ast.Name):
            if e.id == dparam and not any(isinstance(x, ast.Name) and x.id == dparam and isinstance(x.ctx, ast.Store) for x in ast.walk(f)):
                return escaped_params
            rds = reaching_defs(g, e.id, node)
            if not rds:
                return escaped_params if e.id == dparam else False
            ok = True
            for d_ in rds:
                st = g.node(d_).ast
                vals = [v for t, v in assigned_pairs(st) if isinstance(t, ast.Name) and t.id == e.id] if isinstance(st, ast.Assign) else []
                ok = ok and len(vals) == 1 and vals[0] is not None and escaped(vals[0], d_, depth + 1)
            if e.id == dparam and edge_path(g, [g.entry], [node], avoid_nodes=rds) is not None:
                # the unmodified parameter also reaches this point.  When the branch tests look at the data itself ("escape only if an IAC is present")
                # the unescaped path may be the one without IACs: that is a question about values, left to the evaluated layer
                if not escaped_params and any(isinstance(x, ast.Name) and x.id == dparam for t_ in g.ids(lambda n_: n_.kind == "test") for x in ast.walk(g.node(t_).ast)):
                    raise AnalysisError(f"C38: {owner.name}.{mname}: whether the data is escaped depends on a test of the data itself")
                ok = ok and escaped_params
            return ok
        return False

    def carries(e):
        names = {dparam} | {t.id for st in ast.walk(f) if isinstance(st, ast.Assign) for t in st.targets if isinstance(t, ast.Name)
                            and any(isinstance(x, ast.Name) and x.id == dparam for x in ast.walk(st.value))}
        return any(isinstance(x, ast.Name) and x.id in names for x in ast.walk(e))
    for n in g.ids(lambda n: n.ast is not None and n.kind in ("stmt", "test")):
        for c in [x for x in ast.walk(g.node(n).ast) if isinstance(x, ast.Call)]:
            fn = src(c.func)
            args = [a for a in c.args if carries(a)]
            if not args:
                continue
            if isinstance(c.func, ast.Attribute) and c.func.attr in ("replace", "join", "encode", "startswith", "find", "count") or fn in ("len", "bytes", "isinstance", "iter", "list", "tuple"):
                continue        # reads / rewrites, not forwarding
            where = f"{owner.name}.{mname}: `{src(c)[:70]}`"
            if fn in ("self.transport.write", "self.transport.writeSequence"):
                if not all(escaped(a, n) for a in args):
                    return where
            elif fn.startswith("self.") and fn.count(".") == 1 and len(c.args) == 1:
                if not escaped(c.args[0], n):
                    b_ = iac_bypass(ctx, mod, cls, fn[5:], C, False, seen)
                    if b_ is not None:
                        return b_ if b_.startswith(fn[5:]) else f"{where} -> {b_}"
                else:
                    b_ = iac_bypass(ctx, mod, cls, fn[5:], C, True, seen)
                    if b_ is not None:
                        return b_
            elif isinstance(c.func, ast.Attribute) and isinstance(c.func.value, ast.Name) and len(c.args) == 2 and src(c.args[0]) == "self" \
                    and any(k.name == c.func.value.id for k in mod.classes()):
                base = next(k for k in mod.classes() if k.name == c.func.value.id)
                b_ = iac_bypass(ctx, mod, base, c.func.attr, C, escaped(c.args[1], n), seen)
                if b_ is not None:
                    return b_
            else:
                raise AnalysisError(f"C38: {where}: the data is handed to something that is not a known writer")
    return None


def bytewise_chain(mod, cls, mname, C, seen=None):
    """None when method ``mname`` (resolved on ``cls``) hands its data parameter to the transport only through
    ``.replace(<1-byte constant>, <constant>)``, concatenation with values that do not depend on it, single-assignment locals and
    delegation to methods of the same kind - then the bytes written are  prefix + concat(h(byte) for byte in data) + suffix  and the
    single bytes decide every input.  Otherwise the text of the construct that breaks the argument."""
    seen = seen if seen is not None else set()
    r = mro_lookup(mod, cls, mname)
    if r is None or not isinstance(r[1], ast.FunctionDef):
        return f"{mname} not resolvable"
    f = r[1]
    if id(f) in seen:
        return f"{mname} is recursive"
    seen.add(id(f))
    if not f.args.args:
        return f"{mname} has no parameters"
    carrying = {f.args.args[-1].arg}

    def const1(e):
        try:
            v = const_eval(e, dict(C))
        except NotConst:
            return None
        return v if isinstance(v, bytes) else None

    def carries(e):
        return any(isinstance(x, ast.Name) and x.id in carrying for x in ast.walk(e))

    def dexpr(e):
        if isinstance(e, ast.Name):
            return None if e.id in carrying else f"`{e.id}`"
        if isinstance(e, ast.Call) and isinstance(e.func, ast.Attribute) and e.func.attr == "replace" and len(e.args) == 2 and not e.keywords:
            pat = const1(e.args[0])
            if pat is None or len(pat) != 1 or const1(e.args[1]) is None:
                return f"`{src(e)[:50]}` (pattern is not a one-byte constant)"
            return dexpr(e.func.value)
        if isinstance(e, ast.BinOp) and isinstance(e.op, ast.Add):
            parts = [x for x in (e.left, e.right) if carries(x)]
            if len(parts) != 1:
                return f"`{src(e)[:50]}`"
            return dexpr(parts[0])
        return f"`{src(e)[:50]}`"
    for st in f.body:
        if isinstance(st, ast.Expr) and isinstance(st.value, ast.Constant):
            continue
        if isinstance(st, ast.Assign) and len(st.targets) == 1 and isinstance(st.targets[0], ast.Name):
            if carries(st.value):
                bad = dexpr(st.value)
                if bad:
                    return bad
                carrying.add(st.targets[0].id)
            elif st.targets[0].id in carrying:
                return f"`{src(st)[:50]}`"
            continue
        if isinstance(st, ast.Expr) and isinstance(st.value, ast.Call) and not st.value.keywords:
            c = st.value
            fn = src(c.func)
            args = list(c.args)
            if fn == "self.transport.write" and len(args) == 1:
                bad = dexpr(args[0])
            elif fn.startswith("self.") and fn.count(".") == 1 and len(args) == 1:
                bad = dexpr(args[0]) or bytewise_chain(mod, cls, fn[5:], C, seen)
            elif isinstance(c.func, ast.Attribute) and isinstance(c.func.value, ast.Name) and len(args) == 2 and src(args[0]) == "self" \
                    and any(k.name == c.func.value.id for k in mod.classes()):
                bad = dexpr(args[1]) or bytewise_chain(mod, next(k for k in mod.classes() if k.name == c.func.value.id), c.func.attr, C, seen)
            else:
                bad = f"`{src(st)[:50]}`"
            if bad:
                return bad
            continue
        return f"`{src(st)[:50]}` ({type(st).__name__})"
    return None



def ideal(data: bytes) -> bytes:
    return data.replace(IACB, IACB * 2).replace(LFB, CRB + LFB)


# ---- receive automaton: evaluation by the whitelisted interpreter -----------------------------------

class ModelRaise(Exception):
    pass


class _RInterp(MiniInterp):
    """One activation of a Telnet method inside the reader model: the three delivery call-outs are events, other
    self.<private method>() calls of the class are interpreted in place (they share the instance attributes)."""

    def __init__(self, func, reader):
        MiniInterp.__init__(self, func, reader.attrs, {}, reader.consts)
        self.reader = reader

    def ev(self, n):
        if isinstance(n, ast.Call) and not n.keywords:
            if isinstance(n.func, ast.Name) and n.func.id == "iterbytes" and len(n.args) == 1 and "iterbytes" not in self.loc:
                data = self.ev(n.args[0])
                rd = self.reader

                def gen():
                    for c in data:
                        b = bytes((c,))
                        rd.trace.append((rd.attrs.get("state"), b))
                        yield b
                return gen()
            if isinstance(n.func, ast.Attribute) and isinstance(n.func.value, ast.Name) and n.func.value.id == "self":
                return self.invoke_self(n.func.attr, self._args(n))
            if isinstance(n.func, ast.Name) and n.func.id not in self.loc and n.func.id not in self.consts:
                # a module-level helper function of the telnet module (no instance state): interpreted in place
                h = self.reader.mod.find(n.func.id)
                if isinstance(h, ast.FunctionDef) and getattr(h, "_parent", None) is self.reader.mod.tree:
                    self.reader.depth += 1
                    if self.reader.depth > 30:
                        raise AnalysisError("C38: helper recursion in the reader model")
                    try:
                        return _RInterp(_noself(h), self.reader).call(*self._args(n))
                    finally:
                        self.reader.depth -= 1
        return MiniInterp.ev(self, n)

    def invoke_self(self, name, args):
        if name in Reader.CALLBACKS:
            self.reader.passed |= {id(a) for a in args if isinstance(a, list)}
            self.reader.events.append((Reader.CALLBACKS[name],) + tuple(tuple(a) if isinstance(a, list) else a for a in args))
            return None
        r = mro_lookup(self.reader.mod, self.reader.cls, name)
        if r is not None and isinstance(r[1], ast.FunctionDef):
            self.reader.depth += 1
            if self.reader.depth > 30:
                raise AnalysisError("C38: helper recursion in the reader model")
            try:
                return _RInterp(r[1], self.reader).call(*args)
            finally:
                self.reader.depth -= 1
        raise AnalysisError(f"C38: dataReceived calls self.{name}() which is not defined in {self.reader.cls.name}")

    def invoke_value(self, fv, args):
        from sa.props._lib_h import SELF, BoundRef, FuncRef
        if isinstance(fv, BoundRef):
            return self.invoke_self(fv.name, args)
        if isinstance(fv, FuncRef):
            if not args or args[0] is not SELF:
                raise AnalysisError("C38: class function called without self")
            self.reader.depth += 1
            if self.reader.depth > 30:
                raise AnalysisError("C38: helper recursion in the reader model")
            try:
                return _RInterp(fv.func, self.reader).call(*args[1:])
            finally:
                self.reader.depth -= 1
        return MiniInterp.invoke_value(self, fv, args)

    def class_attr(self, name):
        """a method taken as a value, or a class-level table (its entries may name functions of the class)"""
        from sa.props._lib_h import BoundRef, FuncRef
        if name in Reader.CALLBACKS:
            return BoundRef(name)
        r = mro_lookup(self.reader.mod, self.reader.cls, name)
        if r is not None and isinstance(r[1], ast.FunctionDef):
            return BoundRef(name)
        if r is not None and isinstance(r[1], ast.expr):
            fns = {k: FuncRef(v) for k, v in methods(r[0]).items()}
            sub = MiniInterp(self.func, {}, {}, {**self.consts, **fns})
            sub.loc = {}
            return sub.ev(r[1])
        raise ModelError(f"AttributeError: {name}")


class Reader:
    """Evaluates Telnet.dataReceived (and the private helpers it calls) over concrete chunks; instance attributes persist
    between chunks, locals do not.  Unknown statement / expression forms are an AnalysisError (never a verdict)."""

    CALLBACKS = {"applicationDataReceived": "app", "commandReceived": "cmd", "negotiate": "neg"}

    def __init__(self, mod, cls, func, consts, initial_state):
        self.mod, self.cls, self.func, self.consts, self.initial_state = mod, cls, func, dict(consts), initial_state
        self.reset()

    @property
    def state(self):
        return self.attrs.get("state")

    def reset(self):
        self.attrs = {"state": self.initial_state}
        self.events = []
        self.trace = []      # (state before, byte) per consumed byte
        self.unflushed = b""
        self.depth = 0
        self.passed = set()

    def decode(self, chunks, agrees):
        """feed the chunks after a reset -> error text or None.  Conditions outside the model (a negotiated option ...) are fixed per run by an oracle; when
        the first run does not satisfy ``agrees(self, err)`` the other assignments are tried and the reader is left in the state of the first run that does
        (the code has a mode in which it decodes as RFC 854 prescribes), else of the first run."""
        from sa.props._lib_h import Oracle

        def one(asg):
            self.reset()
            o = Oracle(asg)
            self.consts["__oracle__"] = o
            err = None
            try:
                for ch in chunks:
                    self.feed(ch)
            except ModelRaise as e:
                err = str(e)
            return o, err
        o, err = one({})
        if agrees(self, err) or not o.opened:
            return err
        pending = []
        for i, k in enumerate(o.opened):
            pending.append({**{k2: True for k2 in o.opened[:i]}, k: False})
        tried = 0
        while pending and tried < 6:
            a = pending.pop()
            tried += 1
            o2, err2 = one(a)
            if agrees(self, err2):
                self.modes = getattr(self, "modes", set()) | {tuple(sorted(o2.assignment.items()))}
                return err2
            for i, k in enumerate(o2.opened):
                pending.append({**a, **{k2: True for k2 in o2.opened[:i]}, k: False})
        o, err = one({})
        return err

    def feed(self, chunk: bytes):
        it = _RInterp(self.func, self)
        n0 = len(self.events)
        try:
            it.call(chunk)
        except ModelError as e:
            raise ModelRaise(str(e))
        # chunk-local byte buffers whose content was not handed to applicationDataReceived before the call returned
        delivered = b"".join(e[1] for e in self.events[n0:] if e[0] == "app")
        for k, v in it.loc.items():
            if isinstance(v, bytearray) and v:
                v = [bytes(v)]
            if isinstance(v, list) and v and all(isinstance(x, bytes) for x in v):
                pending = b"".join(v)
                if pending and not delivered.endswith(pending) and id(v) not in self.passed:
                    self.unflushed += pending


def reference(wire: bytes, C):
    """RFC 854 reference decoder -> (events, final state); events coalesce adjacent application data."""
    st, ev, app, cmd, sub = "data", [], b"", None, None
    simple = {C[k] for k in ("EOR", "NOP", "DM", "BRK", "IP", "AO", "AYT", "EC", "EL", "GA")}
    opt = {C[k] for k in ("WILL", "WONT", "DO", "DONT")}

    def flush():
        nonlocal app
        if app:
            ev.append(("app", app))
            app = b""
    for v in wire:
        b = bytes((v,))
        if st == "data":
            if b == IACB:
                st = "escaped"
            elif b == CRB:
                st = "newline"
            else:
                app += b
        elif st == "escaped":
            if b == IACB:
                app += b
                st = "data"
            elif b == C["SB"]:
                st, sub = "subnegotiation", []
            elif b in simple:
                st = "data"
                flush()
                ev.append(("cmd", b, None))
            elif b in opt:
                st, cmd = "command", b
            else:
                return None
        elif st == "command":
            st = "data"
            flush()
            ev.append(("cmd", cmd, b))
        elif st == "newline":
            st = "data"
            if b == LFB:
                app += LFB
            elif b == NULB:
                app += CRB
            else:
                return None
        elif st == "subnegotiation":
            if b == IACB:
                st = "subnegotiation-escaped"
            else:
                sub.append(b)
        elif st == "subnegotiation-escaped":
            if b == C["SE"]:
                st = "data"
                flush()
                ev.append(("neg", tuple(sub)))
            else:
                st = "subnegotiation"
                sub.append(b)
    flush()
    return ev, st


def coalesce(events):
    out = []
    for e in events:
        if e[0] == "app" and out and out[-1][0] == "app":
            out[-1] = ("app", out[-1][1] + e[1])
        else:
            out.append(e)
    return out


def byte_name(b, C):
    for k in ("IAC", "SB", "SE", "WILL", "WONT", "DO", "DONT", "NOP", "GA", "LF", "CR", "NULL"):
        if C.get(k) == b:
            return k
    return "other"


def corpus(C):
    """(label, wire) pairs.  Application strings are CR-free; wires are built with the *ideal* writer."""
    alpha = [IACB, LFB, b"a", NULB, C["SE"], C["SB"], C["WILL"], C["DONT"], C["NOP"]]
    apps = [b""]
    for n in (1, 2):
        apps += [b"".join(t) for t in itertools.product(alpha, repeat=n)]
    apps += [b"".join(t) for t in itertools.product(alpha[:6], repeat=3)]
    for v in range(256):
        if v != 13:
            b = bytes((v,))
            apps += [b, IACB + b, b + LFB]
    seen = set()
    for a in apps:
        if a not in seen:
            seen.add(a)
            yield "app", ideal(a)
    cmds = [IACB + C["NOP"], IACB + C["GA"], IACB + C["WILL"] + b"\x01", IACB + C["DONT"] + IACB, IACB + C["DO"] + LFB,
            IACB + C["SB"] + b"\x1f" + b"ab" + IACB + C["SE"], IACB + C["SB"] + b"\x22" + IACB + IACB + b"x" + IACB + IACB + IACB + C["SE"],
            IACB + C["SB"] + b"\x01" + C["SE"] + CRB + LFB + IACB + C["SE"]]
    small = [b"", b"a", IACB, LFB, b"a" + LFB, IACB + b"a"]
    for c in cmds:
        for s1 in small:
            for s2 in small:
                yield "cmd", ideal(s1) + c + ideal(s2)
    yield "cmd", ideal(b"x") + cmds[0] + cmds[2] + ideal(b"y" + LFB) + cmds[5] + ideal(IACB)


def segmentations(wire: bytes):
    yield "whole", [wire]
    if len(wire) > 1:
        yield "bytewise", [wire[i:i + 1] for i in range(len(wire))]
        if len(wire) <= 12:
            for i in range(1, len(wire)):
                yield f"split@{i}", [wire[:i], wire[i:]]


def check(ctx):
    _ok_rd = False
    mod = ctx.mod(TELNET)
    C = telnet_consts(mod)
    for k, v in (("IAC", 255), ("SB", 250), ("SE", 240), ("WILL", 251), ("WONT", 252), ("DO", 253), ("DONT", 254), ("NOP", 241), ("GA", 249)):
        ctx.check(C.get(k) == bytes((v,)), "constants/rfc854", f"{M}{k}", f"{k} is {C.get(k)!r}, RFC 854 says {v}")
    tt = ctx.cls(TELNET, "TelnetTransport")
    tel = ctx.cls(TELNET, "Telnet")

    alpha = [IACB, LFB, b"a", NULB, C.get("SE", b"\xf0"), C.get("WILL", b"\xfb")]
    with ctx.section('writer/pipeline'):
        # the whole write() method (MRO, explicit base delegation, helpers, conditionals) is evaluated on a finite set of inputs
        qw = M + "TelnetTransport.write"
        used = set()

        def wire(data):
            sinks = []
            eval_method(mod, tt, tt, "write", [data], C, sinks, used)
            return b"".join(sinks)
        singles = [bytes((v,)) for v in range(256) if v != 13]
        probes = [b""] + singles + [x + y for x in alpha for y in alpha]
        for x in (IACB, LFB):
            probes += [x + b"ab", b"a" + x + b"b", b"ab" + x, x + x + b"a", b"a" + x + x, x + b"a" + x, x * 3]
        probes += [IACB + LFB + b"a", LFB + IACB, b"a" + LFB + IACB + b"b"]
        from sa.props._lib_h import explore_unknowns

        def wire_o(data, oracle):
            sinks = []
            eval_method(mod, tt, tt, "write", [data], {**C, "__oracle__": oracle}, sinks, used)
            return b"".join(sinks)
        # conditions the model cannot evaluate (a negotiated option, configuration ...) are explored both ways, one consistent assignment per run
        runs = explore_unknowns(lambda o: {d: wire_o(d, o) for d in probes})
        out = runs[0][1]
        for nm in sorted(used):
            ctx.functions.add(f"{TELNET}:{nm}")
        ctx.note(f"write() evaluated on {len(probes)} inputs through {sorted(used)}" +
                 (f"; {len(runs)} assignments of conditions outside the model: {sorted(runs[-1][0])}" if len(runs) > 1 else ""))

        def under(asg):
            return (" (when " + ", ".join(f"`{k[:60]}` is {v}" for k, v in sorted(asg.items())) + ")") if asg else ""
        # IAC doubling and leaving the other bytes alone are required under every assignment; the end-of-line translation may depend on a mode, but must
        # be all-or-nothing within a mode and present in at least one
        bad_iac = [(d, o_[d], asg) for asg, o_ in runs for d in probes if IACB in d and o_[d].count(IACB) != 2 * d.count(IACB)]
        ctx.check(not bad_iac, "writer/iac-doubled", qw + " | IAC",
                  f"application byte 0xFF is not always sent as IAC IAC: write({bad_iac[0][0] if bad_iac else b''!r}) puts {bad_iac[0][1] if bad_iac else b''!r} on the wire"
                  f"{under(bad_iac[0][2]) if bad_iac else ''} and the peer reads a telnet command")
        lf_modes = []
        for asg, o_ in runs:
            full = [d for d in probes if LFB in d and o_[d].replace(IACB * 2, IACB) == d.replace(LFB, CRB + LFB)]
            none = [d for d in probes if LFB in d and o_[d].replace(IACB * 2, IACB) == d]
            n_lf = sum(1 for d in probes if LFB in d)
            lf_modes.append((asg, len(full) == n_lf, len(none) == n_lf and len(runs) > 1))
        bad_lf = [(asg, next(d for d in probes if LFB in d and o_[d].replace(IACB * 2, IACB) != d.replace(LFB, CRB + LFB))) for (asg, o_), (_, f_, n_) in zip(runs, lf_modes) if not f_ and not n_]
        ctx.check(not bad_lf and any(f_ for _, f_, _ in lf_modes), "writer/lf-to-crlf", qw + " | LF",
                  f"LF is not always sent as CR LF: write({bad_lf[0][1] if bad_lf else LFB!r}) -> {next(o_ for a_, o_ in runs if a_ == bad_lf[0][0])[bad_lf[0][1]] if bad_lf else out[LFB]!r}"
                  f"{under(bad_lf[0][0]) if bad_lf else ''}")
        others = [(d, asg) for asg, o_ in runs for d in singles if d not in (IACB, LFB) and o_[d] != d]
        ctx.check(not others, "writer/other-bytes-untouched", qw + " | other bytes",
                  f"write() rewrites bytes that need no escaping: {[d for d, _ in others[:3]]!r}{under(others[0][1]) if others else ''}")

        def ideal_for(i):
            return ideal if lf_modes[i][1] or not lf_modes[i][2] else (lambda d: d.replace(IACB, IACB * 2))
        mism = [(d, o_[d], ideal_for(i)(d), asg) for i, (asg, o_) in enumerate(runs) for d in probes if o_[d] != ideal_for(i)(d)]
        ctx.check(not mism, "writer/matches-ideal-escaper", qw + " | all probes",
                  f"write({mism[0][0] if mism else b''!r}) -> {mism[0][1] if mism else b''!r} differs from IAC-doubling + LF->CRLF ({mism[0][2] if mism else b''!r})"
                  f"{under(mism[0][3]) if mism else ''}", detail=f"{len(probes)} inputs x {len(runs)} assignment(s)")
        # structural: on EVERY path from the entry of write() to a write on the underlying transport the data has passed the IAC-doubling rewrite,
        # whatever the branch conditions are; only the end-of-line translation may be conditional
        from sa.props._lib_h import abstain as _abstain
        with _abstain(ctx, "writer/iac-doubled-on-every-path", "writer/iac-doubled (bounded, unknown conditions explored both ways)"):
            bypass = iac_bypass(ctx, mod, tt, "write", C)
            ctx.check(bypass is None, "writer/iac-doubled-on-every-path", qw + " | <every path to the transport>",
                      f"{bypass} hands the data to the transport without the IAC-doubling rewrite on that path: whatever its guard (binary mode, fast path ...), an "
                      "application byte 0xFF then reaches the peer as the start of a telnet command (RFC 854; RFC 856 keeps IAC doubling in binary mode)")
        ctx.floor("writer/matches-ideal-escaper", len(probes), 300, "probe inputs")
        why = bytewise_chain(mod, tt, "write", C)
        if why is None:
            worst = [d for d in [b""] + singles if out[d] != ideal(d)]
            ctx.check(not worst, "writer/single-bytes", qw + " | <every byte value>",
                      f"write({worst[0] if worst else b''!r}) -> {out[worst[0]] if worst else b''!r}, expected {ideal(worst[0]) if worst else b''!r}",
                      detail="Domain argument (checked on the code): write() and the methods it delegates to pass the data to transport.write only through "
                             ".replace(<one-byte constant>, <constant>), concatenation with data-independent values and plain locals; each such step maps the string "
                             "byte by byte, so the wire is prefix + concat(h(b) for b in data) + suffix and the empty string plus all 255 single bytes (CR is excluded by "
                             "the property statement) decide every input")
        else:
            ctx.note(f"writer/single-bytes: domain argument not established ({why} is not a byte-wise step); clause left to writer/matches-ideal-escaper (bounded)")
    with ctx.section('writer/writeSequence'):
        r = mro_lookup(mod, tt, "writeSequence")
        ctx.need(r is not None and isinstance(r[1], ast.FunctionDef), "writeSequence resolvable on TelnetTransport")
        owner = r[0]
        ctx.functions.add(f"{TELNET}:{owner.name}.writeSequence")
        qs = M + f"TelnetTransport.writeSequence (resolved: {owner.name}.writeSequence)"
        seqs = [[b"a\xffb\n"], [IACB, LFB], [], [b"", b"x"], [b"ab", b"cd"], [IACB], [b"a", IACB + IACB, LFB + b"z"]]
        bad = None
        forms = (("list", list), ("tuple", tuple), ("one-shot iterator", lambda x: iter(list(x))), ("generator", lambda x: (e for e in list(x))))
        n_ws = 0
        for sq in seqs:
            for fname_, mk in forms:
                n_ws += 1

                def ws_run(o, sq=sq, mk=mk):
                    sinks = []
                    try:
                        eval_method(mod, tt, tt, "writeSequence", [mk(sq)], {**C, "__oracle__": o}, sinks, set())
                        return b"".join(sinks)
                    except ModelError as e:
                        return f"<raises {e}>".encode()
                ws_runs = explore_unknowns(ws_run)
                joined = b"".join(sq)
                for asg_, got in ws_runs:
                    # IAC doubling under every assignment of conditions outside the model; the end-of-line translation may depend on a mode
                    if got != ideal(joined) and not (len(ws_runs) > 1 and got == joined.replace(IACB, IACB * 2)) and bad is None:
                        bad = (sq, got, fname_ + under(asg_))
        ctx.check(bad is None, "writeSequence/same-escaping-as-write", qs,
                  f"writeSequence({bad[0] if bad else []!r}) given as a {bad[2] if bad else ''} puts {bad[1] if bad else b''!r} on the wire; write() of the concatenation would send "
                  f"{ideal(b''.join(bad[0])) if bad else b''!r} (IAC doubled, LF -> CR LF): the sequence bypasses the escaping or gains/loses bytes",
                  detail=f"{n_ws} evaluations over lists, tuples, one-shot iterators and generators")
        # structurally: everything the resolved writeSequence sends goes through self.write (the escaping method); a direct call of the
        # underlying transport or of a base-class writer bypasses the escaping
        from sa.props._lib_h import abstain
        with abstain(ctx, "writeSequence/through-write", "writeSequence/same-escaping-as-write (bounded)"):
            calls_ = [c for c in ast.walk(r[1]) if isinstance(c, ast.Call) and isinstance(c.func, ast.Attribute)
                      and not (isinstance(c.func.value, (ast.Constant,)) or c.func.attr in ("join", "append", "extend"))]
            sends = [c for c in calls_ if src(c.func).startswith("self.transport.") or (isinstance(c.func.value, ast.Name) and any(k.name == c.func.value.id for k in mod.classes()))]
            via = [c for c in calls_ if src(c.func) == "self.write"]
            other = [c for c in calls_ if c not in sends and c not in via]
            ctx.need(not other and (sends or via), f"writeSequence: only self.write / transport calls ({[src(c.func) for c in other][:3]})")
            gws = ctx.cfg(r[1])
            ctx.need(not any(gws.edge_guards(n_) for c in sends for n_ in gws.ids_of(c)), "writeSequence: a direct transport call under a condition (fast path) is not decided here")
            ctx.check(not sends, "writeSequence/through-write", qs, f"writeSequence hands the sequence to {src(sends[0].func) if sends else ''} without passing through "
                      "TelnetTransport.write: IAC bytes are not doubled and LF is not translated (the peer reads application bytes as telnet commands)")
        # structurally: the iterable parameter is consumed at most once on any path unless it was materialised first
        wsf = r[1]
        g = ctx.cfg(wsf)
        sp_ = wsf.args.args[1].arg

        def uses_param(x):
            return isinstance(x, ast.Name) and x.id == sp_ and isinstance(x.ctx, ast.Load)

        def consumes(node):
            """AST sub-nodes of a CFG node that iterate the raw parameter"""
            out = []
            roots = [node.ast.iter] if node.kind == "for" else [node.ast]
            if node.kind == "for" and uses_param(node.ast.iter):
                out.append("for")
            for r_ in roots:
                for x in ast.walk(r_):
                    if isinstance(x, (ast.ListComp, ast.GeneratorExp, ast.SetComp, ast.DictComp)) and any(uses_param(gc.iter) for gc in x.generators):
                        out.append("comprehension")
                    if isinstance(x, ast.Call) and any(uses_param(a) for a in x.args) and call_name(x) not in ("len", "isinstance", "type", "bool", "id"):
                        out.append(src(x.func)[:30] + "()")
                    if isinstance(x, ast.Starred) and uses_param(x.value):
                        out.append("*unpack")
            return out
        sites = [n.id for n in g.nodes if n.ast is not None and n.kind in ("stmt", "test", "for", "with") and g.reachable(n.id) and consumes(n)]
        mat = [n for n in sites if g.node(n).kind == "stmt" and isinstance(g.node(n).ast, ast.Assign)
               and any(isinstance(t, ast.Name) and t.id == sp_ for t in g.node(n).ast.targets)
               and isinstance(g.node(n).ast.value, ast.Call) and call_name(g.node(n).ast.value) in ("list", "tuple") and len(consumes(g.node(n))) == 1]
        ctx.need(sites, "writeSequence: the sequence parameter is used")
        twice = None
        # only sites that can see the raw parameter count: after `seq = list(seq)` the name denotes a re-iterable list
        raw = [n for n in sites if edge_path(g, [g.entry], [n], avoid_nodes=[m for m in mat if m != n]) is not None]
        for a_ in raw:
            if a_ in mat:
                continue        # from here on the name denotes a list / tuple
            if len(consumes(g.node(a_))) > 1:
                twice = twice or (a_, a_)
            targets = [x for x in raw if not (x == a_ and g.node(a_).kind == "for")]     # re-entering a for head is the same iteration
            w = edge_path(g, [a_], targets, avoid_nodes=[m for m in mat if m not in targets], strict=True)
            if w is not None:
                twice = twice or (a_, w[-1])
        ctx.check(twice is None, "writeSequence/iterable-consumed-once", M + f"TelnetTransport.writeSequence (resolved: {owner.name}.writeSequence) | <iterable parameter>",
                  f"the iterable passed to writeSequence is iterated twice ({g.node(twice[0]).text() if twice else ''} ... then {g.node(twice[1]).text() if twice else ''}): a generator / "
                  "one-shot iterator is exhausted by the first pass, so elements are silently dropped")
    with ctx.section('writer/requestNegotiation'):
        qn = M + "Telnet.requestNegotiation"
        ctx.func(TELNET, "Telnet.requestNegotiation")
        badn = None
        for about in (b"\x1f", b"\x22"):
            for payload in (b"", b"a", IACB, IACB * 2, b"a" + IACB + C["SE"], C["SE"], IACB + b"a", b"ab" + IACB):
                sinks = []
                eval_method(mod, tt, tt, "requestNegotiation", [about, payload], C, sinks, set())
                got = b"".join(sinks)
                want = IACB + C["SB"] + about + payload.replace(IACB, IACB * 2) + IACB + C["SE"]
                if got != want and badn is None:
                    badn = (payload, got, want)
        why = bytewise_chain(mod, tt, "requestNegotiation", C)
        if why is None:
            worst = None
            for v in [b""] + [bytes((x,)) for x in range(256)]:
                sinks = []
                eval_method(mod, tt, tt, "requestNegotiation", [b"\x1f", v], C, sinks, set())
                want = IACB + C["SB"] + b"\x1f" + v.replace(IACB, IACB * 2) + IACB + C["SE"]
                if b"".join(sinks) != want and worst is None:
                    worst = (v, b"".join(sinks), want)
            ctx.check(worst is None, "subnegotiation/single-bytes", qn + " | <every payload byte value>",
                      f"payload {worst[0] if worst else b''!r} is sent as {worst[1] if worst else b''!r}, expected {worst[2] if worst else b''!r}",
                      detail="Domain argument (checked on the code): the payload reaches the transport only through .replace(<one-byte constant>, <constant>) and "
                             "concatenation with payload-independent values, so the wire is prefix + concat(h(b)) + suffix; the empty payload and all 256 single bytes decide")
        else:
            ctx.note(f"subnegotiation/single-bytes: domain argument not established ({why} is not a byte-wise step); clause left to subnegotiation/iac-doubled (bounded)")
        framed = badn is None or (badn[1].startswith(IACB + C["SB"]) and badn[1].endswith(IACB + C["SE"]))
        ctx.check(badn is None or not framed, "subnegotiation/iac-doubled", qn,
                  f"sub-negotiation payload {badn[0] if badn else b''!r} is sent as {badn[1] if badn else b''!r}, expected {badn[2] if badn else b''!r}: an unescaped 0xFF 0xF0 "
                  "inside it ends the sub-negotiation early and the rest is read as application data")
        ctx.check(framed, "subnegotiation/framing", qn, f"the sub-negotiation is not framed as IAC SB <about> <data> IAC SE: {badn[1] if badn else b''!r}")
    with ctx.section('reader/anchors'):
        dr = ctx.func(TELNET, "Telnet.dataReceived")
        qd = M + "Telnet.dataReceived"
        default = class_assigns(tel).get("state")
        ctx.need(isinstance(default, ast.Constant), "Telnet.state class default")
        _ok_rd = True
    with ctx.section('reader/states'):
        ctx.need(_ok_rd, 'anchors of reader (section skipped)')
        # dataReceived, the private helpers only it (transitively) calls, and the functions it reaches through class-level tables form the parser
        allm = {}
        for cls in (tel, tt):
            for name, f in methods(cls).items():
                allm.setdefault(name, []).append((cls, f))
        callers = {}
        for name, defs in allm.items():
            for cls, f in defs:
                for c in ast.walk(f):
                    if isinstance(c, ast.Call) and isinstance(c.func, ast.Attribute) and isinstance(c.func.value, ast.Name) and c.func.value.id == "self":
                        callers.setdefault(c.func.attr, set()).add(name)
        tables = {}        # class-level table name -> {key: function name}
        for nm, e in class_assigns(tel).items():
            if isinstance(e, ast.Dict) and e.keys and all(isinstance(k, ast.Constant) for k in e.keys) and all(isinstance(v, ast.Name) and v.id in methods(tel) for v in e.values):
                tables[nm] = {k.value: v.id for k, v in zip(e.keys, e.values)}
        table_users = {}
        for name, defs in allm.items():
            for cls, f in defs:
                for x in ast.walk(f):
                    if isinstance(x, ast.Attribute) and isinstance(x.value, ast.Name) and x.value.id == "self" and x.attr in tables:
                        table_users.setdefault(x.attr, set()).add(name)
        via_table = {fn_: tn for tn, tb in tables.items() for fn_ in tb.values()}
        parser = {"dataReceived"}
        changed = True
        while changed:
            changed = False
            for name in allm:
                if name in parser or not name.startswith("_"):
                    continue
                called = callers.get(name, set())
                tabled = table_users.get(via_table[name], set()) if name in via_table else set()
                if (called or tabled) and called <= parser and tabled <= parser:
                    parser.add(name)
                    changed = True
        handled = set()

        def state_reader(f):
            """predicate: the expression is the parse state - self.state or a local whose every definition in f is `<local> = self.state`"""
            defs = {}
            for x in ast.walk(f):
                if isinstance(x, ast.Name) and isinstance(x.ctx, (ast.Store, ast.Del)):
                    par = getattr(x, "_parent", None)
                    ok = isinstance(par, ast.Assign) and len(par.targets) == 1 and par.targets[0] is x and self_attr(par.value, "state")
                    defs[x.id] = defs.get(x.id, True) and ok
            aliases = {k for k, v in defs.items() if v}
            return lambda e: self_attr(e, "state") or (isinstance(e, ast.Name) and e.id in aliases)
        for name in parser:
            for cls, f in allm.get(name, []):
                is_state = state_reader(f)
                for n in ast.walk(f):
                    if isinstance(n, ast.Compare) and len(n.ops) == 1 and isinstance(n.ops[0], (ast.Eq, ast.NotEq)) and is_state(n.left) \
                            and isinstance(n.comparators[0], ast.Constant):
                        handled.add(n.comparators[0].value)
                    # dispatch through a table indexed by the state: its keys are the states that have a handler
                    if isinstance(n, ast.Call) and isinstance(n.func, ast.Attribute) and n.func.attr == "get" and n.args and self_attr(n.args[0], "state") \
                            and isinstance(n.func.value, ast.Attribute) and self_attr(n.func.value, n.func.value.attr) and n.func.value.attr in tables:
                        handled |= set(tables[n.func.value.attr])
                    if isinstance(n, ast.Subscript) and self_attr(n.slice, "state") and isinstance(n.value, ast.Attribute) and self_attr(n.value, n.value.attr) and n.value.attr in tables:
                        handled |= set(tables[n.value.attr])
        assigned = {}
        assigned[default.value] = "class default"
        n_sw = 0
        for cls in (tel, tt):
            for name, f in methods(cls).items():
                for st in statements(f):
                    if isinstance(st, ast.Assign) and any(self_attr(t, "state") for t in st.targets):
                        n_sw += 1
                        ctx.check(cls is tel and name in parser, "reader/who-writes-state", ctx.construct(f"{M}{cls.name}.{name}", st),
                                  "the parse state is written outside dataReceived (and the private helpers / table-dispatched handlers only it reaches)")
                        if isinstance(st.value, ast.Constant):
                            assigned.setdefault(st.value.value, f"{cls.name}.{name}")
                        else:
                            ctx.check(False, "reader/state-has-branch", ctx.construct(f"{M}{cls.name}.{name}", st), "parse state assigned from a non-constant")
        ctx.floor("reader/who-writes-state", n_sw, 8, "state writes")
        ctx.need(handled, "the parser's dispatch on self.state (comparisons or a table indexed by the state)")
        for s in sorted(assigned):
            ctx.check(s in handled, "reader/state-has-branch", f"{qd} | state {s!r}",
                      f"state {s!r} (assigned in {assigned[s]}) has no branch in dataReceived: the next byte raises and the connection's parser is stuck")

    from sa.props._lib_h import abstain as _abst
    with _abst(ctx, 'reader/state-on-instance', 'reader-samples/transition-table and reader/round-trip (bounded)'):
        # the function that walks the bytes: dataReceived itself or the private helper (possibly a generator) it hands the chunk to
        byte_loops = [(name, f, lp) for name in sorted(parser) for cls_, f in allm.get(name, []) for lp in ast.walk(f)
                      if isinstance(lp, ast.For) and isinstance(lp.iter, ast.Call) and src(lp.iter.func) == "iterbytes"]
        # when the bytes are not walked one by one by a for-loop (an index cursor consuming runs, ...) which locals live across bytes cannot be read off
        # the loop structure: the group abstains and the clause is left to the evaluated (state, byte) table and the segmentation corpus
        ctx.need(len(byte_loops) == 1, "the parser's loop `for b in iterbytes(<chunk>)`")
        pname, pfn, loop_ = byte_loops[0]
        stored_in_loop = {x.id for x in ast.walk(loop_) if isinstance(x, ast.Name) and isinstance(x.ctx, ast.Store)}
        # the chunk-local accumulator of decoded bytes is not parser state: a local set to an empty container before the loop which the loop only
        # extends (`+=`) or empties again (whether it is flushed is the business of reader/flush-at-chunk-end)

        def empty_container(e):
            return (isinstance(e, (ast.List, ast.Tuple)) and not e.elts) or (isinstance(e, ast.Constant) and e.value in (b"", "")) \
                or (isinstance(e, ast.Call) and isinstance(e.func, ast.Name) and e.func.id in ("bytearray", "list", "bytes") and not e.args and not e.keywords)
        pre_init = {t.id for st in pfn.body if isinstance(st, ast.Assign) and st.lineno < loop_.lineno and empty_container(st.value) for t in st.targets if isinstance(t, ast.Name)}
        for nm in sorted(pre_init & stored_in_loop):
            stores_ = [x for x in ast.walk(loop_) if isinstance(x, ast.Name) and x.id == nm and isinstance(x.ctx, ast.Store)]
            if all((isinstance(x._parent, ast.AugAssign) and isinstance(x._parent.op, ast.Add)) or (isinstance(x._parent, ast.Assign) and empty_container(x._parent.value)) for x in stores_):
                stored_in_loop.discard(nm)
        loop_vars = {x.id for x in ast.walk(loop_.target) if isinstance(x, ast.Name)}
        is_state_p = state_reader(pfn)
        chain_ = [st for st in loop_.body if isinstance(st, ast.If) and any(is_state_p(x) for x in ast.walk(st.test))]
        branches = []       # (label, statements, names bound on entry)
        for node_ in chain_:
            while True:
                t_ = node_.test
                label = t_.comparators[0].value if isinstance(t_, ast.Compare) and is_state_p(t_.left) and isinstance(t_.comparators[0], ast.Constant) else src(t_)[:30]
                branches.append((label, node_.body, set()))
                if len(node_.orelse) == 1 and isinstance(node_.orelse[0], ast.If):
                    node_ = node_.orelse[0]
                else:
                    break
        by_table = not chain_
        if by_table:
            used_tables = [tn for tn in tables if pname in table_users.get(tn, set())]
            ctx.need(len(used_tables) == 1, "dataReceived: if self.state == ... chain, or one table of per-state handlers")
            for key, fn_name in sorted(tables[used_tables[0]].items()):
                hf = methods(tel)[fn_name]
                branches.append((key, hf.body, {a.arg for a in hf.args.args}))
            branches.append(("<dispatch>", loop_.body, set()))
        n_reads = 0
        for label, body_, bound in branches:
            wrap = ast.Module(body=list(body_), type_ignores=[])
            stores = sorted((x.lineno, x.col_offset, x.id) for x in ast.walk(wrap) if isinstance(x, ast.Name) and isinstance(x.ctx, (ast.Store, ast.Del)))
            local_names = stored_in_loop if not by_table or label == "<dispatch>" else {nm for _, _, nm in stores}
            for x in ast.walk(wrap):
                if isinstance(x, ast.Name) and isinstance(x.ctx, ast.Load) and x.id in local_names and x.id not in loop_vars and x.id not in bound:
                    n_reads += 1
                    earlier = any(nm == x.id and (ln, col) < (x.lineno, x.col_offset) for ln, col, nm in stores)
                    ctx.check(earlier, "reader/state-on-instance", f"{qd} | state {label!r} reads local {x.id}",
                              f"in state {label!r} the local `{x.id}` is read but it is bound only while handling an earlier byte (another state): when the chunk ends "
                              "between the two bytes the next dataReceived() call starts with fresh locals -> UnboundLocalError / the pending command is lost. "
                              "State that outlives one byte must live on the instance")
        if by_table:
            ctx.ok("reader/state-on-instance", f"{qd} | <per-state handler functions>", f"{len(branches) - 1} handlers: each handles one byte in its own activation, no local can outlive it")
        else:
            ctx.floor("reader/state-on-instance", n_reads, 2, "reads of per-iteration locals")
    with ctx.section('reader/automaton'):
        ctx.need(_ok_rd, 'anchors of reader (section skipped)')
        rd = Reader(mod, tel, dr, C, default.value)
        rd2 = Reader(mod, tel, dr, C, default.value)
        n_runs = 0
        reported = set()

        def report(rule, construct, fails, witness=""):
            if (rule, construct) in reported:
                return
            reported.add((rule, construct))
            ctx.violation(rule, construct, fails, witness)

        n_wires = 0
        for label, wire in corpus(C):
            if len(reported) >= 3:
                break       # enough distinct diagnoses; the corpus is only a witness generator from here on
            ref = reference(wire, C)
            if ref is None:
                raise AnalysisError("C38: corpus wire outside the reference decoder")
            want_ev, want_state = ref
            n_wires += 1
            for sname, chunks in segmentations(wire):
                n_runs += 1
                err = rd.decode(chunks, lambda r_, e_: e_ is None and coalesce(r_.events) == want_ev and r_.state == want_state and not r_.unflushed)
                got = coalesce(rd.events)
                if err is None and got == want_ev and rd.state == want_state and not rd.unflushed:
                    continue
                if rd.unflushed and err is None and coalesce(rd.events + [("app", rd.unflushed)]) != got:
                    report("reader/flush-at-chunk-end", qd + " | <end of chunk>",
                           f"application bytes buffered during a chunk are dropped when the chunk ends: wire {wire!r} delivered as {chunks!r} loses {rd.unflushed!r}")
                    continue
                cls_ = classify(got, want_ev, err, rd.state, want_state)
                last = rd.trace[-1] if rd.trace else ("data", b"")
                key = find_divergence(rd2, C, wire, chunks) or last
                report("reader/round-trip", f"{qd} | state {key[0]!r} x {byte_name(key[1], C)}",
                       f"{cls_}: wire {wire!r} ({sname}) is decoded as {got!r} / state {rd.state!r}"
                       f"{' / raises ' + err if err else ''}; RFC 854 reference: {want_ev!r} / {want_state!r}")
        ctx.extra["automaton_runs"] = n_runs
        ctx.extra["wires"] = n_wires
        if not any(r == "reader/round-trip" for r, _ in reported):
            ctx.ok("reader/round-trip", qd, f"{n_wires} wires x segmentations = {n_runs} runs agree with the RFC 854 reference decoder")
        if not any(r == "reader/flush-at-chunk-end" for r, _ in reported):
            ctx.ok("reader/flush-at-chunk-end", qd + " | <end of chunk>")
        if not reported:      # the corpus walk stops early once three distinct diagnoses were made
            ctx.floor("reader/round-trip", n_wires, 900, "wires")

    with ctx.section('reader/transition-table'):
        ctx.need(_ok_rd, 'anchors of reader (section skipped)')
        # domain argument: a per-byte automaton whose memory is self.state plus a few registers on the instance
        # the function that walks the bytes (dataReceived, or the helper / generator it hands the whole chunk to and whose calls it merely relays)
        bl_ = [(name, f, lp) for name in sorted(parser) for cls_, f in allm.get(name, []) for lp in ast.walk(f)
               if isinstance(lp, ast.For) and isinstance(lp.iter, ast.Call) and src(lp.iter.func) == "iterbytes"]
        pfn_t = bl_[0][1] if len(bl_) == 1 else dr
        loops_t = [st for st in pfn_t.body if isinstance(st, ast.For)]
        per_byte = len(bl_) == 1 and len(loops_t) == 1 and loops_t[0] is bl_[0][2] and not any(
            isinstance(x, (ast.While,)) or (isinstance(x, ast.For) and x is not loops_t[0]) for x in ast.walk(pfn_t))
        if per_byte and pfn_t is not dr:
            # dataReceived passes its chunk on unchanged, exactly once, and does nothing else with it
            dchunk = dr.args.args[1].arg
            dreads = [x for x in ast.walk(dr) if isinstance(x, ast.Name) and x.id == dchunk and isinstance(x.ctx, ast.Load)]
            hand = [c for c in ast.walk(dr) if isinstance(c, ast.Call) and src(c.func) == f"self.{bl_[0][0]}" and len(c.args) == 1 and not c.keywords and dreads and c.args[0] is dreads[0]]
            per_byte = len(dreads) == 1 and len(hand) == 1
        regs = set()
        for name in parser:
            for cls_k, f_k in allm.get(name, []):
                regs |= {t.attr for st in ast.walk(f_k) if isinstance(st, (ast.Assign, ast.AugAssign)) for t in (st.targets if isinstance(st, ast.Assign) else [st.target])
                         if isinstance(t, ast.Attribute) and isinstance(t.value, ast.Name) and t.value.id == "self"}
        carried = [f_.construct for f_ in ctx.findings if f_.rule == "reader/state-on-instance"]
        chunk = pfn_t.args.args[1].arg if len(pfn_t.args.args) > 1 else None
        reads = [x for x in ast.walk(pfn_t) if isinstance(x, ast.Name) and x.id == chunk and isinstance(x.ctx, ast.Load)]
        only_iter = per_byte and len(reads) == 1 and any(x is reads[0] for x in ast.walk(loops_t[0].iter))
        why_t = None if per_byte else "dataReceived is not a single loop over iterbytes(data)"
        why_t = why_t or (None if only_iter else f"the chunk is also looked at as a whole ({len(reads) - 1} reads of `{chunk}` outside the loop header): behaviour depends on "
                          "where the chunk boundaries fall, not only on (state, byte)")
        why_t = why_t or (None if regs <= {"state", "command", "commands"} else f"unexpected parser registers {sorted(regs - {'state', 'command', 'commands'})}")
        why_t = why_t or (None if not carried else "a local carries parser state from one byte to the next")
        opt_ = [C[k] for k in ("WILL", "WONT", "DO", "DONT")]
        prefixes = {"data": [b"", b"x"], "escaped": [IACB, b"x" + IACB], "command": [IACB + o for o in opt_] + [b"x" + IACB + opt_[0]],
                    "newline": [CRB, b"x" + CRB], "subnegotiation": [IACB + C["SB"], IACB + C["SB"] + b"\x1f", b"x" + IACB + C["SB"] + b"\x1fab"],
                    "subnegotiation-escaped": [IACB + C["SB"] + IACB, IACB + C["SB"] + b"\x1fa" + IACB]}
        closing = {"data": b"z", "escaped": IACB + b"z", "command": b"\x01z", "newline": LFB + b"z", "subnegotiation": IACB + C["SE"] + b"z", "subnegotiation-escaped": C["SE"] + b"z"}
        rdt = Reader(mod, tel, dr, C, default.value)
        n_pairs = n_skip = n_eval = 0
        bad_t = None
        for st_name, pres in prefixes.items():
            for v in range(256):
                b_ = bytes((v,))
                nxt = reference_step(st_name, b_, C)
                if nxt == "?" or reference(pres[0] + b_, C) is None:
                    n_skip += 1         # RFC 854 leaves this pair unspecified (unknown command byte, CR followed by something else)
                    continue
                n_pairs += 1
                for pre in (pres if ctx.tier == "thorough" else [x for x in pres if not x.startswith(b"x")][:4]):
                    wire = pre + b_ + closing[nxt]
                    want = reference(wire, C)
                    if want is None:
                        continue
                    cuts = [[wire], [wire[:len(pre)], wire[len(pre):]], [wire[:len(pre) + 1], wire[len(pre) + 1:]], [wire[i:i + 1] for i in range(len(wire))]]
                    for chunks in (cuts if ctx.tier == "thorough" else cuts[:2]):
                        chunks = [c_ for c_ in chunks if c_]
                        n_eval += 1
                        err = rdt.decode(chunks, lambda r_, e_: e_ is None and r_.state == want[1]
                                         and coalesce(r_.events + ([("app", r_.unflushed)] if r_.unflushed else [])) == want[0])
                        got = coalesce(rdt.events + ([("app", rdt.unflushed)] if rdt.unflushed and err is None else []))
                        if (err is not None or got != want[0] or rdt.state != want[1]) and bad_t is None:
                            bad_t = (st_name, b_, wire, chunks, got, rdt.state, err, want)
        rule_t = "reader/transition-table" if why_t is None else "reader-samples/transition-table"
        if why_t is not None:
            ctx.note(f"reader/transition-table: domain argument not established ({why_t}); the same (state, byte) runs are reported as bounded samples")
        ctx.check(bad_t is None, rule_t, qd + (f" | state {bad_t[0]!r} x {byte_name(bad_t[1], C)}" if bad_t else " | <every state x every byte>"),
                  (f"in state {bad_t[0]!r} the byte {bad_t[1]!r} is mis-handled: wire {bad_t[2]!r} delivered as {bad_t[3]!r} decodes to {bad_t[4]!r} / state {bad_t[5]!r}"
                   f"{' / raises ' + bad_t[6] if bad_t[6] else ''}; RFC 854 reference: {bad_t[7][0]!r} / {bad_t[7][1]!r}") if bad_t else "",
                  detail=f"{n_pairs} (state, byte) pairs of 6 x 256 ({n_skip} left unspecified by RFC 854), {n_eval} evaluations. Domain argument (checked on the code): dataReceived is "
                         f"one loop over the bytes of the chunk, its only memory between bytes is on the instance ({sorted(regs)}; no local carries state: "
                         "reader/state-on-instance), so its behaviour on every stream and segmentation is the composition of the (state, byte) steps; every state is "
                         "entered through prefixes that set each register value the state can hold (all four option verbs; sub-negotiation buffer empty / 1 / 3 bytes - "
                         "the buffer is assumed to be used uniformly in its content), followed by every byte value and a closing sequence that makes the registers observable, "
                         "whole and cut before the byte (thorough tier: more prefixes per register value, also cut after the byte and byte-wise)")
        ctx.extra["transition_pairs"] = n_pairs
    with ctx.section('reader/delivery-unchanged'):
        ctx.func(TELNET, "TelnetTransport.applicationDataReceived")
        badd = None
        for d_ in (b"", b"a", IACB, NULB + b"x", CRB + LFB, b"a" * 3 + IACB * 2):
            sinks = []
            eval_method(mod, tt, tt, "applicationDataReceived", [d_], C, sinks, set())
            if sinks != [d_] and badd is None:
                badd = (d_, sinks)
        ctx.check(badd is None, "reader/delivery-unchanged", M + "TelnetTransport.applicationDataReceived",
                  f"decoded application bytes {badd[0] if badd else b''!r} reach protocol.dataReceived as {badd[1] if badd else []!r} (must be passed exactly once, unmodified)")

    with ctx.section('reader/unknown-state-raises'):
        ctx.need(_ok_rd, 'anchors of reader (section skipped)')
        rdx = Reader(mod, tel, dr, C, "no-such-state")
        raised = False
        try:
            rdx.feed(b"a")
        except ModelRaise:
            raised = True
        ctx.check(raised and not rdx.events, "reader/unknown-state-raises", qd + " | <unknown state>",
                  "an unknown parse state is silently ignored (bytes are dropped) instead of raising")

def reference_step(st, b, C):
    simple = {C[k] for k in ("EOR", "NOP", "DM", "BRK", "IP", "AO", "AYT", "EC", "EL", "GA")}
    opt = {C[k] for k in ("WILL", "WONT", "DO", "DONT")}
    if st == "data":
        return "escaped" if b == IACB else "newline" if b == CRB else "data"
    if st == "escaped":
        return "data" if b == IACB or b in simple else "subnegotiation" if b == C["SB"] else "command" if b in opt else "?"
    if st in ("command", "newline"):
        return "data"
    if st == "subnegotiation":
        return "subnegotiation-escaped" if b == IACB else st
    if st == "subnegotiation-escaped":
        return "data" if b == C["SE"] else "subnegotiation"
    return "?"


def classify(got, want, err, st, want_st):
    if err:
        return "the receiver raises"
    g = b"".join(e[1] for e in got if e[0] == "app")
    w = b"".join(e[1] for e in want if e[0] == "app")
    if g != w:
        if len(g) < len(w):
            return "application bytes are lost or altered"
        return "application bytes are duplicated or altered"
    if [e for e in got if e[0] != "app"] != [e for e in want if e[0] != "app"]:
        return "commands are mis-read"
    if got != want:
        return "application data and commands are delivered out of order"
    return f"parser left in state {st!r} instead of {want_st!r}"


def find_divergence(rd, C, wire, chunks):
    """Shortest prefix of the wire (fed with the same chunking) whose decoding already disagrees with the
    reference on that prefix; returns the (state, byte) transition executed last."""
    total = 0
    bounds = []
    for ch in chunks:
        total += len(ch)
        bounds.append(total)
    for n in range(1, len(wire) + 1):
        pre = wire[:n]
        ref = reference(pre, C)
        rd.reset()
        cut = [0] + [b for b in bounds if b < n] + [n]
        try:
            for a, b in zip(cut, cut[1:]):
                rd.feed(pre[a:b])
        except ModelRaise:
            return rd.trace[-1] if rd.trace else None
        if ref is None:
            continue
        got = coalesce(rd.events + ([("app", rd.unflushed)] if rd.unflushed else []))
        if got != ref[0] or rd.state != ref[1]:
            return rd.trace[-1] if rd.trace else None
    return None


T = TELNET
MUTANTS = [
    Mutant("writeSequence-measures-then-joins", T, "    def writeSequence(self, seq):\n        self.write(b\"\".join(seq))\n\n\nclass TelnetBootstrapProtocol",
           "    def writeSequence(self, seq):\n        if sum(len(piece) for piece in seq):\n            self.write(b\"\".join(seq))\n\n\nclass TelnetBootstrapProtocol",
           expect_rule="writeSequence/"),
    Mutant("iac-escape-skipped-when-first-byte", T, "        ProtocolTransportMixin.write(self, data.replace(b\"\\xff\", b\"\\xff\\xff\"))",
           "        if IAC in data[1:]:\n            data = data.replace(IAC, IAC * 2)\n        ProtocolTransportMixin.write(self, data)", expect_rule="writer/iac-doubled"),
    Mutant("lf-translation-only-for-multibyte-writes", T, "        self.transport.write(data.replace(b\"\\n\", b\"\\r\\n\"))",
           "        if len(data) > 1:\n            data = data.replace(b\"\\n\", b\"\\r\\n\")\n        self.transport.write(data)", expect_rule="writer/lf-to-crlf"),
    Mutant("subnegotiation-buffer-kept-in-a-local", T, "                    self.state = \"subnegotiation\"\n                    self.commands = []\n", "                    self.state = \"subnegotiation\"\n                    commands = []\n",
           more=[(T, "                if b == IAC:\n                    self.state = \"subnegotiation-escaped\"\n                else:\n                    self.commands.append(b)\n",
                  "                if b == IAC:\n                    self.state = \"subnegotiation-escaped\"\n                else:\n                    commands.append(b)\n"),
                 (T, "                    commands = self.commands\n                    del self.commands\n", ""),
                 (T, "                    self.state = \"subnegotiation\"\n                    self.commands.append(b)\n", "                    self.state = \"subnegotiation\"\n                    commands.append(b)\n")],
           expect_rule="reader/state-on-instance"),
    Mutant("pending-command-byte-in-a-local", T, "                    self.state = \"command\"\n                    self.command = b\n", "                    self.state = \"command\"\n                    pending = b\n",
           more=[(T, "                command = self.command\n                del self.command\n", "                command = pending\n")], expect_rule="reader/round-trip"),
    Mutant("helper-escapes-wrong-byte", T, "        ProtocolTransportMixin.write(self, data.replace(b\"\\xff\", b\"\\xff\\xff\"))",
           "        escaped = _doubleIAC(data)\n        ProtocolTransportMixin.write(self, escaped)",
           more=[(T, "class ProtocolTransportMixin:\n", "def _doubleIAC(data):\n    return data.replace(DONT, DONT * 2)\n\n\nclass ProtocolTransportMixin:\n")], expect_rule="writer/iac-doubled"),
    Mutant("revert-F38-writeSequence", T, "    def writeSequence(self, seq):\n        self.write(b\"\".join(seq))\n\n\nclass TelnetBootstrapProtocol", "\n\nclass TelnetBootstrapProtocol",
           expect_rule="writeSequence/same-escaping-as-write"),
    Mutant("drop-iac-doubling", T, "        ProtocolTransportMixin.write(self, data.replace(b\"\\xff\", b\"\\xff\\xff\"))", "        ProtocolTransportMixin.write(self, data)",
           expect_rule="writer/iac-doubled"),
    Mutant("escaped-iac-not-delivered", T, "                if b == IAC:\n                    appDataBuffer.append(b)\n                    self.state = \"data\"\n",
           "                if b == IAC:\n                    self.state = \"data\"\n", expect_rule="reader/round-trip"),
    Mutant("crlf-restored-as-crlf", T, "                if b == b\"\\n\":\n                    appDataBuffer.append(b\"\\n\")\n", "                if b == b\"\\n\":\n                    appDataBuffer.append(b\"\\r\\n\")\n",
           expect_rule="reader/round-trip"),
    Mutant("no-flush-at-chunk-end", T, "                raise ValueError(\"How'd you do this?\")\n\n        if appDataBuffer:\n            self.applicationDataReceived(b\"\".join(appDataBuffer))\n",
           "                raise ValueError(\"How'd you do this?\")\n", expect_rule="reader/flush-at-chunk-end"),
    Mutant("flush-without-clear-before-command", T, "                if appDataBuffer:\n                    self.applicationDataReceived(b\"\".join(appDataBuffer))\n                    del appDataBuffer[:]\n                self.commandReceived(command, b)\n",
           "                if appDataBuffer:\n                    self.applicationDataReceived(b\"\".join(appDataBuffer))\n                self.commandReceived(command, b)\n", expect_rule="reader/round-trip"),
    Mutant("subneg-escape-state-not-left", T, "                else:\n                    self.state = \"subnegotiation\"\n                    self.commands.append(b)\n", "                else:\n                    self.commands.append(b)\n",
           expect_rule="reader/round-trip"),
    Mutant("negotiation-payload-unescaped", T, "        data = data.replace(IAC, IAC * 2)\n        self._write(IAC + SB + about + data + IAC + SE)", "        self._write(IAC + SB + about + data + IAC + SE)",
           expect_rule="subnegotiation/iac-doubled"),
    Mutant("lf-translation-dropped", T, "        self.transport.write(data.replace(b\"\\n\", b\"\\r\\n\"))", "        self.transport.write(data)", expect_rule="writer/lf-to-crlf"),
    Mutant("new-state-without-branch", T, "                elif b == SB:\n                    self.state = \"subnegotiation\"\n", "                elif b == SB:\n                    self.state = \"subnegotiating\"\n",
           expect_rule="reader/state-has-branch"),
    Mutant("delivery-strips-nul", T, "    def applicationDataReceived(self, data):\n        self.protocol.dataReceived(data)\n",
           "    def applicationDataReceived(self, data):\n        self.protocol.dataReceived(data.replace(b\"\\0\", b\"\"))\n", expect_rule="reader/delivery-unchanged"),
    Mutant("command-arg-state-reset-late", T, "            elif self.state == \"command\":\n                self.state = \"data\"\n                command = self.command\n",
           "            elif self.state == \"command\":\n                command = self.command\n", expect_rule="reader/round-trip"),
    # the same faults must be caught by the finite-exhaustive / structural deciders alone
    Mutant('fx-revert-F38-writeSequence', T, '    def writeSequence(self, seq):\n        self.write(b"".join(seq))\n\n\nclass TelnetBootstrapProtocol',
           '\n\nclass TelnetBootstrapProtocol', expect_rule='writeSequence/through-write'),
    Mutant('fx-drop-iac-doubling', T, '        ProtocolTransportMixin.write(self, data.replace(b"\\xff", b"\\xff\\xff"))',
           '        ProtocolTransportMixin.write(self, data)', expect_rule='writer/single-bytes'),
    Mutant('fx-escaped-iac-not-delivered', T, '                if b == IAC:\n                    appDataBuffer.append(b)\n                    self.state = "data"\n',
           '                if b == IAC:\n                    self.state = "data"\n', expect_rule='reader/transition-table'),
    Mutant('fx-crlf-restored-as-crlf', T, '                if b == b"\\n":\n                    appDataBuffer.append(b"\\n")\n',
           '                if b == b"\\n":\n                    appDataBuffer.append(b"\\r\\n")\n', expect_rule='reader/transition-table'),
    Mutant('fx-subneg-escape-state-not-left', T, '                else:\n                    self.state = "subnegotiation"\n                    self.commands.append(b)\n',
           '                else:\n                    self.commands.append(b)\n', expect_rule='reader/transition-table'),
    Mutant('fx-negotiation-payload-unescaped', T, '        data = data.replace(IAC, IAC * 2)\n        self._write(IAC + SB + about + data + IAC + SE)',
           '        self._write(IAC + SB + about + data + IAC + SE)', expect_rule='subnegotiation/single-bytes'),
    Mutant('fx-lf-translation-dropped', T, '        self.transport.write(data.replace(b"\\n", b"\\r\\n"))',
           '        self.transport.write(data)', expect_rule='writer/single-bytes'),
    # a bulk path for chunks that "contain no commands": the chunk is looked at as a whole, so the per-(state, byte) argument no longer applies and the
    # segmentation probes must decide
    Mutant("bulk-path-when-iac-count-is-even", T, '    def dataReceived(self, data):\n        appDataBuffer = []\n\n        for b in iterbytes(data):\n            if self.state == "data":',
           '    def dataReceived(self, data):\n        if self.state == "data" and b"\\r" not in data and data.count(IAC) % 2 == 0:\n            if data:\n                self.applicationDataReceived(data.replace(IAC * 2, IAC))\n            return\n        appDataBuffer = []\n\n        for b in iterbytes(data):\n            if self.state == "data":', expect_rule="reader/round-trip"),
    Mutant("regex-bulk-path-misses-a-trailing-iac", T, '    def dataReceived(self, data):\n        appDataBuffer = []\n\n        for b in iterbytes(data):\n            if self.state == "data":',
           '    def dataReceived(self, data):\n        if self.state == "data" and _commandStart.search(data) is None:\n            if data:\n                self.applicationDataReceived(data.replace(IAC * 2, IAC))\n            return\n        appDataBuffer = []\n\n        for b in iterbytes(data):\n            if self.state == "data":', expect_rule="reader/round-trip",
           more=[(T, 'import struct\n', 'import re\nimport struct\n'), (T, 'class Telnet(protocol.Protocol):\n', '_commandStart = re.compile(rb"\\xff[^\\xff]|\\r")\n\n\nclass Telnet(protocol.Protocol):\n')]),
    Mutant("state-read-once-per-chunk-into-a-local", T, '        for b in iterbytes(data):\n            if self.state == "data":\n                if b == IAC:',
           '        current = self.state\n        for b in iterbytes(data):\n            if current == "data":\n                if b == IAC:', expect_rule="reader/"),
    # a mode switch in write(): a branch that reaches the transport without the IAC rewrite is a violation whatever its guard; only the end-of-line
    # translation may depend on a mode
    Mutant("raw-output-mode-bypasses-iac-doubling", T, '        ProtocolTransportMixin.write(self, data.replace(b"\\xff", b"\\xff\\xff"))',
           '        if self.protocol is not None and getattr(self.protocol, "rawOutput", False):\n            self.transport.write(data)\n            return\n        ProtocolTransportMixin.write(self, data.replace(b"\\xff", b"\\xff\\xff"))', expect_rule="writer/iac-doubled-on-every-path"),
    Mutant("raw-output-mode-bypasses-iac-doubling-evaluated", T, '        ProtocolTransportMixin.write(self, data.replace(b"\\xff", b"\\xff\\xff"))',
           '        if self.protocol is not None and getattr(self.protocol, "rawOutput", False):\n            self.transport.write(data)\n            return\n        ProtocolTransportMixin.write(self, data.replace(b"\\xff", b"\\xff\\xff"))', expect_rule="writer/iac-doubled"),
]
SILENT = [
    Silent("flush-moved-into-private-helper", T, "                command = self.command\n                del self.command\n                if appDataBuffer:\n                    self.applicationDataReceived(b\"\".join(appDataBuffer))\n                    del appDataBuffer[:]\n                self.commandReceived(command, b)\n",
           "                command = self.command\n                del self.command\n                self._handOver(appDataBuffer)\n                self.commandReceived(command, b)\n",
           more=[(T, "    def connectionLost(self, reason):\n        for state in self.options.values():", "    def _handOver(self, pending):\n        if not pending:\n            return\n        text = b\"\".join(pending)\n        self.applicationDataReceived(text)\n        pending.clear()\n\n    def connectionLost(self, reason):\n        for state in self.options.values():")]),
    Silent("data-state-as-guard-clauses", T, "                if b == IAC:\n                    self.state = \"escaped\"\n                elif b == b\"\\r\":\n                    self.state = \"newline\"\n                else:\n                    appDataBuffer.append(b)\n",
           "                if b == IAC:\n                    self.state = \"escaped\"\n                    continue\n                if b == CR:\n                    self.state = \"newline\"\n                    continue\n                appDataBuffer.append(b)\n                continue\n"),
    Silent("final-flush-early-return-and-temporary", T, "                raise ValueError(\"How'd you do this?\")\n\n        if appDataBuffer:\n            self.applicationDataReceived(b\"\".join(appDataBuffer))\n",
           "                raise ValueError(\"How'd you do this?\")\n\n        if not appDataBuffer:\n            return\n        rest = b\"\".join(appDataBuffer)\n        self.applicationDataReceived(rest)\n"),
    Silent("writeSequence-materialise-then-fast-path", T, "    def writeSequence(self, seq):\n        self.write(b\"\".join(seq))\n\n\nclass TelnetBootstrapProtocol",
           "    def writeSequence(self, seq):\n        seq = list(seq)\n        if any(IAC in piece or b\"\\n\" in piece for piece in seq):\n            self.write(b\"\".join(seq))\n        else:\n            self.transport.writeSequence(seq)\n\n\nclass TelnetBootstrapProtocol"),
    Silent("iac-escape-only-when-present", T, "        ProtocolTransportMixin.write(self, data.replace(b\"\\xff\", b\"\\xff\\xff\"))",
           "        if data.find(IAC) >= 0:\n            data = data.replace(IAC, IAC * 2)\n        ProtocolTransportMixin.write(self, data)"),
    Silent("write-named-temporary-and-helper", T, "        ProtocolTransportMixin.write(self, data.replace(b\"\\xff\", b\"\\xff\\xff\"))",
           "        escaped = _doubleIAC(data)\n        ProtocolTransportMixin.write(self, escaped)",
           more=[(T, "class ProtocolTransportMixin:\n", "def _doubleIAC(data):\n    return data.replace(IAC, IAC * 2)\n\n\nclass ProtocolTransportMixin:\n")]),
    Silent("writeSequence-per-element-loop", T, "    def writeSequence(self, seq):\n        self.write(b\"\".join(seq))\n\n\nclass TelnetBootstrapProtocol",
           "    def writeSequence(self, seq):\n        for piece in seq:\n            self.write(piece)\n\n\nclass TelnetBootstrapProtocol"),
    Silent("write-escapes-in-two-statements", T, "        ProtocolTransportMixin.write(self, data.replace(b\"\\xff\", b\"\\xff\\xff\"))",
           "        data = data.replace(IAC, IAC + IAC)\n        ProtocolTransportMixin.write(self, data)"),
    Silent("reader-uses-extend-and-clear", T, "                if b == IAC:\n                    appDataBuffer.append(b)\n                    self.state = \"data\"\n",
           "                if b == IAC:\n                    self.state = \"data\"\n                    appDataBuffer.extend([IAC])\n"),
    Silent("writeSequence-escapes-per-element", T, "    def writeSequence(self, seq):\n        self.write(b\"\".join(seq))\n\n\nclass TelnetBootstrapProtocol",
           "    def writeSequence(self, seq):\n        self.transport.writeSequence([s.replace(IAC, IAC * 2).replace(b\"\\n\", b\"\\r\\n\") for s in seq])\n\n\nclass TelnetBootstrapProtocol"),
    Silent("bulk-path-for-chunks-without-iac-or-cr", T, '    def dataReceived(self, data):\n        appDataBuffer = []\n\n        for b in iterbytes(data):\n            if self.state == "data":',
           '    def dataReceived(self, data):\n        if self.state == "data" and IAC not in data and b"\\r" not in data:\n            if data:\n                self.applicationDataReceived(data)\n            return\n        appDataBuffer = []\n\n        for b in iterbytes(data):\n            if self.state == "data":'),
    Silent("regex-bulk-path-for-chunks-of-whole-pairs", T, '    def dataReceived(self, data):\n        appDataBuffer = []\n\n        for b in iterbytes(data):\n            if self.state == "data":',
           '    def dataReceived(self, data):\n        if self.state == "data" and _plainChunk.match(data):\n            if data:\n                self.applicationDataReceived(data.replace(IAC * 2, IAC))\n            return\n        appDataBuffer = []\n\n        for b in iterbytes(data):\n            if self.state == "data":',
           more=[(T, 'import struct\n', 'import re\nimport struct\n'), (T, 'class Telnet(protocol.Protocol):\n', '_plainChunk = re.compile(rb"(?:[^\\xff\\r]|\\xff\\xff)*\\Z")\n\n\nclass Telnet(protocol.Protocol):\n')]),
    Silent("state-read-once-per-byte-into-a-local", T, '        for b in iterbytes(data):\n            if self.state == "data":\n                if b == IAC:',
           '        for b in iterbytes(data):\n            current = self.state\n            if current == "data":\n                if b == IAC:'),
    Silent("mode-switch-only-for-the-newline-translation", T, '        ProtocolTransportMixin.write(self, data.replace(b"\\xff", b"\\xff\\xff"))',
           '        doubled = data.replace(b"\\xff", b"\\xff\\xff")\n        if self.protocol is not None and getattr(self.protocol, "rawNewlines", False):\n            self.transport.write(doubled)\n            return\n        ProtocolTransportMixin.write(self, doubled)'),
]
