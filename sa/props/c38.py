"""C38 - Telnet carries application bytes transparently."""
from __future__ import annotations

import ast
import itertools
from collections import ChainMap

from sa.astx import NotConst, call_name, const_eval, src, statements
from sa.selftest import Mutant, Silent
from sa.source import AnalysisError, class_assigns, methods, mro_lookup
from sa.props._lib_h import need, self_attr

PROPERTY = "C38"
TELNET = "conch/telnet.py"
M = "twisted.conch.telnet."
TECHNIQUE = "escaper rewrite-system extraction + finite evaluation of the extracted receive automaton"
EXPLANATION = (
    "Writer: resolves TelnetTransport.write / writeSequence through the MRO, extracts the ordered replace() pipeline along the "
    "explicit base-class delegation and evaluates it on every byte and byte pair against the ideal escaper (IAC doubled, LF -> CR LF, "
    "everything else untouched); writeSequence must route through self.write or apply the identical pipeline per element (F38), and "
    "requestNegotiation must double IAC inside IAC SB .. IAC SE. Reader: extracts the per-byte state machine of Telnet.dataReceived "
    "and evaluates it (own whitelisted interpreter, no twisted code is run) on an exhaustive finite corpus of CR-free application "
    "strings rich in IAC/LF/command bytes, interleaved commands and sub-negotiations, under whole / byte-wise / every two-way "
    "segmentation, against an RFC 854 reference decoder: delivered bytes, command events, their order and the final state must agree, "
    "the chunk-local buffer must be flushed at the end of every chunk. Also: every state string assigned has a branch, unknown states "
    "raise, and only dataReceived writes the parse state. Not decided: behaviour for application data containing CR (excluded by the statement)."
)
ASSUMPTIONS = [
    "the receive automaton's only cross-chunk state is self.state / self.command / self.commands (checked: chunk-local buffer is flushed)",
    "application data contains no CR (precondition of the property)",
]

IACB, LFB, CRB, NULB = b"\xff", b"\n", b"\r", b"\0"


# ---- constants -----------------------------------------------------------------------------

def telnet_consts(mod):
    env = {}
    for st in mod.tree.body:
        if isinstance(st, ast.Assign) and len(st.targets) == 1 and isinstance(st.targets[0], ast.Name):
            v = st.value
            if isinstance(v, ast.Call) and call_name(v) == "_chr" and len(v.args) == 1:
                try:
                    env[st.targets[0].id] = bytes((const_eval(v.args[0], env),))
                except (NotConst, ValueError, TypeError):
                    pass
            else:
                try:
                    env[st.targets[0].id] = const_eval(v, env)
                except NotConst:
                    pass
    return env


# ---- writer pipeline -----------------------------------------------------------------------

def _chain(expr, env, mod=None, depth=0):
    """expr == <name>.replace(a,b).replace(c,d)...  ->  (name, [(a,b),(c,d)]); a call of a one-argument module-level helper whose
    body is ``return <such a chain on its parameter>`` is inlined.  None when expr has another shape."""
    pairs = []
    while True:
        if isinstance(expr, ast.Call) and isinstance(expr.func, ast.Attribute) and expr.func.attr == "replace" and len(expr.args) == 2 and not expr.keywords:
            try:
                pairs.append((const_eval(expr.args[0], env), const_eval(expr.args[1], env)))
            except NotConst as e:
                raise AnalysisError(f"C38: replace() with non-constant argument: {src(expr)} ({e})")
            expr = expr.func.value
            continue
        if isinstance(expr, ast.Call) and isinstance(expr.func, ast.Name) and mod is not None and len(expr.args) == 1 and not expr.keywords and depth < 3:
            h = mod.find(expr.func.id)
            if isinstance(h, ast.FunctionDef) and len(h.args.args) == 1:
                body = [st for st in h.body if not (isinstance(st, ast.Expr) and isinstance(st.value, ast.Constant))]
                if len(body) == 1 and isinstance(body[0], ast.Return) and body[0].value is not None:
                    inner = _chain(body[0].value, env, mod, depth + 1)
                    if inner is not None and inner[0] == h.args.args[0].arg:
                        pairs += list(reversed(inner[1]))
                        expr = expr.args[0]
                        continue
        break
    if isinstance(expr, ast.Name):
        return expr.id, list(reversed(pairs))
    return None


def replace_chain_of(expr, param, env, mod=None):
    r = _chain(expr, env, mod)
    return r[1] if r is not None and r[0] == param else None


def write_pipeline(mod, cls, env, depth=0):
    """Ordered (old,new) pairs applied by <cls>.write to its argument before it reaches self.transport.write,
    following explicit ``Base.write(self, expr)`` delegation, named temporaries and one-line helper functions.
    Returns (pairs, [function qualnames])."""
    if depth > 4:
        raise AnalysisError("C38: write() delegation too deep")
    r = mro_lookup(mod, cls, "write")
    if r is None or not isinstance(r[1], ast.FunctionDef):
        raise AnalysisError(f"C38: no write() resolvable on {cls.name}")
    owner, f = r
    param = f.args.args[1].arg
    chains = {param: []}        # local name -> rewrite steps applied so far to the parameter's value

    def resolve(expr):
        r_ = _chain(expr, env, mod)
        if r_ is None or r_[0] not in chains:
            return None
        return chains[r_[0]] + r_[1]
    for st in f.body:
        if isinstance(st, ast.Expr) and isinstance(st.value, ast.Constant):
            continue
        if isinstance(st, ast.Assign) and len(st.targets) == 1 and isinstance(st.targets[0], ast.Name):
            ch = resolve(st.value)
            if ch is None:
                raise AnalysisError(f"C38: {owner.name}.write binds {st.targets[0].id} in an unrecognised way: {src(st)[:80]}")
            chains[st.targets[0].id] = ch
            continue
        if isinstance(st, (ast.Expr, ast.Return)) and isinstance(st.value, ast.Call):
            c = st.value
            d = call_name(c)
            if d in ("self.transport.write", "self._write") and len(c.args) == 1:
                ch = resolve(c.args[0])
                if ch is None:
                    raise AnalysisError(f"C38: {owner.name}.write passes an unrecognised expression on: {src(c)}")
                return ch, [f"{owner.name}.write"]
            base = None
            arg = None
            if isinstance(c.func, ast.Attribute) and c.func.attr == "write" and isinstance(c.func.value, ast.Name) and len(c.args) == 2 \
                    and src(c.args[0]) == "self":
                base, arg = mod.find(c.func.value.id), c.args[1]
            if isinstance(base, ast.ClassDef):
                ch = resolve(arg)
                if ch is None:
                    raise AnalysisError(f"C38: {owner.name}.write delegates in an unrecognised way: {src(c)}")
                more, names = write_pipeline(mod, base, env, depth + 1)
                return ch + more, [f"{owner.name}.write"] + names
        raise AnalysisError(f"C38: statement of {owner.name}.write not recognised: {src(st)[:80]}")
    raise AnalysisError(f"C38: {owner.name}.write never reaches the transport")


def apply_pairs(pairs, data: bytes) -> bytes:
    for old, new in pairs:
        data = data.replace(old, new)
    return data


def ideal(data: bytes) -> bytes:
    return data.replace(IACB, IACB * 2).replace(LFB, CRB + LFB)


# ---- receive automaton: extraction by whitelisted interpretation --------------------------------

class _SelfToName(ast.NodeTransformer):
    def visit_Attribute(self, node):
        self.generic_visit(node)
        if isinstance(node.value, ast.Name) and node.value.id == "self":
            return ast.copy_location(ast.Name(id="self__" + node.attr, ctx=node.ctx), node)
        return node


class ModelRaise(Exception):
    pass


class Reader:
    """Evaluates the statements of Telnet.dataReceived over concrete bytes with sa.astx.const_eval for
    every expression.  Only the statement shapes enumerated in _exec are understood; anything else is an
    AnalysisError (never a verdict)."""

    CALLBACKS = {"self__applicationDataReceived": "app", "self__commandReceived": "cmd", "self__negotiate": "neg"}

    def __init__(self, func, consts, initial_state):
        # re-parse instead of deepcopy: the engine's nodes carry _parent links up to the module
        self.func = _SelfToName().visit(ast.parse(ast.unparse(func)).body[0])
        self.consts = dict(consts)
        self.param = func.args.args[1].arg
        self.initial_state = initial_state
        self.reset()

    @property
    def state(self):
        return self.persist.get("self__state")

    def reset(self):
        self.persist = {"self__state": self.initial_state}
        self.events = []
        self.trace = []      # (state before, byte) per consumed byte
        self.unflushed = b""

    def _ev(self, node, env):
        try:
            return const_eval(node, env)
        except NotConst as e:
            if str(e).startswith("self__"):
                raise ModelRaise(f"AttributeError: {str(e)[6:]}")     # attribute deleted / never set at this point
            raise AnalysisError(f"C38: expression of dataReceived not evaluable: {src(node)[:80]} ({e})")

    def _set(self, env, name, value):
        if name.startswith("self__"):
            self.persist[name] = value
        else:
            self._loc[name] = value

    def feed(self, chunk: bytes):
        self._loc = {self.param: chunk}
        env = ChainMap(self._loc, self.persist, self.consts)
        self._dirty = set()
        self._block(self.func.body, env)
        for k in sorted(self._dirty):
            v = self._loc.get(k)
            if isinstance(v, list) and v and all(isinstance(x, bytes) for x in v):
                self.unflushed += b"".join(v)

    def _block(self, stmts, env):
        for st in stmts:
            self._exec(st, env)

    def _exec(self, st, env):
        if isinstance(st, ast.Expr) and isinstance(st.value, ast.Constant):
            return
        if isinstance(st, ast.Pass):
            return
        if isinstance(st, ast.Assign) and len(st.targets) == 1 and isinstance(st.targets[0], ast.Name):
            self._set(env, st.targets[0].id, self._ev(st.value, env))
            return
        if isinstance(st, ast.If):
            self._block(st.body if self._ev(st.test, env) else st.orelse, env)
            return
        if isinstance(st, ast.For) and isinstance(st.target, ast.Name) and not st.orelse:
            it = st.iter
            if isinstance(it, ast.Call) and call_name(it) == "iterbytes" and len(it.args) == 1:
                seq = [bytes((c,)) for c in self._ev(it.args[0], env)]
            else:
                raise AnalysisError(f"C38: loop of dataReceived not recognised: for .. in {src(it)}")
            for b in seq:
                self.trace.append((self.persist.get("self__state"), b))
                self._loc[st.target.id] = b
                self._block(st.body, env)
            return
        if isinstance(st, ast.Delete):
            for t in st.targets:
                if isinstance(t, ast.Name):
                    (self.persist if t.id.startswith("self__") else self._loc).pop(t.id, None)
                elif isinstance(t, ast.Subscript) and isinstance(t.value, ast.Name) and isinstance(t.slice, ast.Slice) \
                        and t.slice.lower is None and t.slice.upper is None and isinstance(env.get(t.value.id), list):
                    del env[t.value.id][:]
                    self._dirty.discard(t.value.id)
                else:
                    raise AnalysisError(f"C38: del form not recognised: {src(st)}")
            return
        if isinstance(st, ast.Raise):
            raise ModelRaise(src(st)[:60])
        if isinstance(st, ast.Expr) and isinstance(st.value, ast.Call):
            c = st.value
            if isinstance(c.func, ast.Attribute) and isinstance(c.func.value, ast.Name) and isinstance(env.get(c.func.value.id), list) and not c.keywords:
                lst = env[c.func.value.id]
                args = [self._ev(a, env) for a in c.args]
                if c.func.attr == "append" and len(args) == 1:
                    lst.append(args[0])
                    self._dirty.add(c.func.value.id)
                    return
                if c.func.attr == "extend" and len(args) == 1:
                    lst.extend(args[0])
                    self._dirty.add(c.func.value.id)
                    return
                if c.func.attr == "clear" and not args:
                    del lst[:]
                    self._dirty.discard(c.func.value.id)
                    return
            if isinstance(c.func, ast.Name) and c.func.id in self.CALLBACKS:
                args = [self._ev(a, env) for a in c.args]
                if self.CALLBACKS[c.func.id] == "app":
                    self._dirty -= {n.id for a in c.args for n in ast.walk(a) if isinstance(n, ast.Name)}
                self.events.append((self.CALLBACKS[c.func.id],) + tuple(tuple(a) if isinstance(a, list) else a for a in args))
                return
        raise AnalysisError(f"C38: statement of dataReceived not in the recognised subset: {src(st)[:90]}")


def reference(wire: bytes, C):
    """RFC 854 reference decoder -> (events, final state); events coalesce adjacent application data."""
    st, ev, app, cmd, sub = "data", [], b"", None, None
    simple = {C[k] for k in ("EOR", "NOP", "DM", "BRK", "IP", "AO", "AYT", "EC", "EL", "GA")}
    opt = {C[k] for k in ("WILL", "WONT", "DO", "DONT")}

    def flush():
        nonlocal app
        if app:
            ev.append(("app", app))
            app = b""
    for v in wire:
        b = bytes((v,))
        if st == "data":
            if b == IACB:
                st = "escaped"
            elif b == CRB:
                st = "newline"
            else:
                app += b
        elif st == "escaped":
            if b == IACB:
                app += b
                st = "data"
            elif b == C["SB"]:
                st, sub = "subnegotiation", []
            elif b in simple:
                st = "data"
                flush()
                ev.append(("cmd", b, None))
            elif b in opt:
                st, cmd = "command", b
            else:
                return None
        elif st == "command":
            st = "data"
            flush()
            ev.append(("cmd", cmd, b))
        elif st == "newline":
            st = "data"
            if b == LFB:
                app += LFB
            elif b == NULB:
                app += CRB
            else:
                return None
        elif st == "subnegotiation":
            if b == IACB:
                st = "subnegotiation-escaped"
            else:
                sub.append(b)
        elif st == "subnegotiation-escaped":
            if b == C["SE"]:
                st = "data"
                flush()
                ev.append(("neg", tuple(sub)))
            else:
                st = "subnegotiation"
                sub.append(b)
    flush()
    return ev, st


def coalesce(events):
    out = []
    for e in events:
        if e[0] == "app" and out and out[-1][0] == "app":
            out[-1] = ("app", out[-1][1] + e[1])
        else:
            out.append(e)
    return out


def byte_name(b, C):
    for k in ("IAC", "SB", "SE", "WILL", "WONT", "DO", "DONT", "NOP", "GA", "LF", "CR", "NULL"):
        if C.get(k) == b:
            return k
    return "other"


def corpus(C):
    """(label, wire) pairs.  Application strings are CR-free; wires are built with the *ideal* writer."""
    alpha = [IACB, LFB, b"a", NULB, C["SE"], C["SB"], C["WILL"], C["DONT"], C["NOP"]]
    apps = [b""]
    for n in (1, 2):
        apps += [b"".join(t) for t in itertools.product(alpha, repeat=n)]
    apps += [b"".join(t) for t in itertools.product(alpha[:6], repeat=3)]
    for v in range(256):
        if v != 13:
            b = bytes((v,))
            apps += [b, IACB + b, b + LFB]
    seen = set()
    for a in apps:
        if a not in seen:
            seen.add(a)
            yield "app", ideal(a)
    cmds = [IACB + C["NOP"], IACB + C["GA"], IACB + C["WILL"] + b"\x01", IACB + C["DONT"] + IACB, IACB + C["DO"] + LFB,
            IACB + C["SB"] + b"\x1f" + b"ab" + IACB + C["SE"], IACB + C["SB"] + b"\x22" + IACB + IACB + b"x" + IACB + IACB + IACB + C["SE"],
            IACB + C["SB"] + b"\x01" + C["SE"] + CRB + LFB + IACB + C["SE"]]
    small = [b"", b"a", IACB, LFB, b"a" + LFB, IACB + b"a"]
    for c in cmds:
        for s1 in small:
            for s2 in small:
                yield "cmd", ideal(s1) + c + ideal(s2)
    yield "cmd", ideal(b"x") + cmds[0] + cmds[2] + ideal(b"y" + LFB) + cmds[5] + ideal(IACB)


def segmentations(wire: bytes):
    yield "whole", [wire]
    if len(wire) > 1:
        yield "bytewise", [wire[i:i + 1] for i in range(len(wire))]
        if len(wire) <= 12:
            for i in range(1, len(wire)):
                yield f"split@{i}", [wire[:i], wire[i:]]


def check(ctx):
    _ok_rd = False
    mod = ctx.mod(TELNET)
    C = telnet_consts(mod)
    for k, v in (("IAC", 255), ("SB", 250), ("SE", 240), ("WILL", 251), ("WONT", 252), ("DO", 253), ("DONT", 254), ("NOP", 241), ("GA", 249)):
        ctx.check(C.get(k) == bytes((v,)), "constants/rfc854", f"{M}{k}", f"{k} is {C.get(k)!r}, RFC 854 says {v}")
    tt = ctx.cls(TELNET, "TelnetTransport")
    tel = ctx.cls(TELNET, "Telnet")

    alpha = [IACB, LFB, b"a", NULB, C.get("SE", b"\xf0"), C.get("WILL", b"\xfb")]
    with ctx.section('writer/pipeline'):
        pairs, chain = write_pipeline(mod, tt, C)
        for nm in chain:
            ctx.functions.add(f"{TELNET}:{nm}")
        qw = M + "TelnetTransport.write"
        ctx.note(f"write pipeline of TelnetTransport via {' -> '.join(chain)}: {pairs!r}")
        singles = [bytes((v,)) for v in range(256) if v != 13]
        bad_iac = [b for b in [IACB, IACB * 2, b"a" + IACB, IACB + LFB, LFB + IACB] if apply_pairs(pairs, b).count(IACB) != 2 * b.count(IACB)]
        ctx.check(not bad_iac, "writer/iac-doubled", qw + " | IAC",
                  f"application byte 0xFF is not sent as IAC IAC: write({bad_iac[:1]!r}) puts {apply_pairs(pairs, bad_iac[0]) if bad_iac else b''!r} on the wire "
                  "and the peer reads a telnet command")
        bad_lf = [b for b in [LFB, LFB * 2, b"a" + LFB, LFB + b"a"] if apply_pairs(pairs, b).replace(IACB * 2, IACB) != b.replace(LFB, CRB + LFB)]
        ctx.check(not bad_lf, "writer/lf-to-crlf", qw + " | LF",
                  f"LF is not sent as CR LF: write({bad_lf[:1]!r}) -> {apply_pairs(pairs, bad_lf[0]) if bad_lf else b''!r}")
        others = [b for b in singles if b not in (IACB, LFB) and apply_pairs(pairs, b) != b]
        ctx.check(not others, "writer/other-bytes-untouched", qw + " | other bytes",
                  f"write() rewrites bytes that need no escaping: {others[:3]!r}")
        mism = [a + b for a in alpha for b in alpha if apply_pairs(pairs, a + b) != ideal(a + b)]
        ctx.check(not mism, "writer/matches-ideal-escaper", qw + " | pairs", f"write({mism[:1]!r}) differs from IAC-doubling + LF->CRLF: "
                  f"{apply_pairs(pairs, mism[0]) if mism else b''!r}")

    with ctx.section('writer/writeSequence'):
        r = mro_lookup(mod, tt, "writeSequence")
        ctx.need(r is not None and isinstance(r[1], ast.FunctionDef), "writeSequence resolvable on TelnetTransport")
        owner, ws = r
        ctx.functions.add(f"{TELNET}:{owner.name}.writeSequence")
        qs = M + "TelnetTransport.writeSequence"
        seqp = ws.args.args[1].arg
        via_write = []
        raw = []
        for c in ast.walk(ws):
            if not isinstance(c, ast.Call):
                continue
            d = call_name(c)
            if d == "self.write" and len(c.args) == 1:
                a = c.args[0]
                joined = isinstance(a, ast.Call) and isinstance(a.func, ast.Attribute) and a.func.attr == "join" and len(a.args) == 1 \
                    and src(a.args[0]) == seqp
                if joined:
                    try:
                        sep = const_eval(a.func.value, C)
                    except NotConst:
                        sep = None
                    ctx.check(sep == b"", "writeSequence/joins-without-separator", ctx.construct(qs, c),
                              f"the elements are joined with {sep!r}: bytes that were never written reach the peer")
                    via_write.append(c)
                elif isinstance(a, ast.Name):
                    loop = [n for n in ast.walk(ws) if isinstance(n, ast.For) and isinstance(n.target, ast.Name) and n.target.id == a.id and src(n.iter) == seqp]
                    if loop:
                        via_write.append(c)
            elif d in ("self.transport.writeSequence", "self.transport.write", "self._write"):
                raw.append(c)
        ok_raw = True
        for c in raw:
            a = c.args[0] if c.args else None
            per_elem = None
            if isinstance(a, (ast.ListComp, ast.GeneratorExp)) and len(a.generators) == 1 and isinstance(a.generators[0].target, ast.Name) \
                    and src(a.generators[0].iter) == seqp and not a.generators[0].ifs:
                per_elem = replace_chain_of(a.elt, a.generators[0].target.id, C)
            good = per_elem is not None and all(apply_pairs(per_elem, x + y) == ideal(x + y) for x in alpha for y in alpha)
            ok_raw = ok_raw and good
            ctx.check(good, "writeSequence/same-escaping-as-write", ctx.construct(qs + f" (resolved: {owner.name}.writeSequence)", c),
                      "writeSequence hands the elements to the transport without the IAC doubling / LF->CRLF that write() applies: "
                      "writeSequence([b'a\\xffb\\n']) puts a raw IAC and a bare LF on the wire")
        ctx.check(bool(via_write) or (bool(raw) and ok_raw), "writeSequence/same-escaping-as-write", qs,
                  f"the writeSequence TelnetTransport resolves to ({owner.name}.writeSequence) neither routes through self.write nor escapes per element")

    with ctx.section('writer/requestNegotiation'):
        rn = ctx.func(TELNET, "Telnet.requestNegotiation")
        qn = M + "Telnet.requestNegotiation"
        dp = rn.args.args[2].arg
        ap = rn.args.args[1].arg
        npairs = []
        wcalls = []
        for st in rn.body:
            if isinstance(st, ast.Assign) and len(st.targets) == 1 and isinstance(st.targets[0], ast.Name) and st.targets[0].id == dp:
                ch = replace_chain_of(st.value, dp, C)
                need(ctx, ch is not None, "requestNegotiation: data = data.replace(...)")
                npairs += ch
            elif isinstance(st, ast.Expr) and isinstance(st.value, ast.Call) and call_name(st.value) in ("self._write", "self.transport.write"):
                wcalls.append(st.value)
        bad = [x for x in (IACB, IACB * 2, b"a" + IACB + C["SE"], C["SE"], b"a") if apply_pairs(npairs, x) != x.replace(IACB, IACB * 2)]
        ctx.check(not bad, "subnegotiation/iac-doubled", qn, f"sub-negotiation payload {bad[:1]!r} is not IAC-escaped: an 0xFF 0xF0 inside it ends the "
                  "sub-negotiation early and the rest is read as application data")
        ctx.check(len(wcalls) == 1 and src(wcalls[0].args[0]) == f"IAC + SB + {ap} + {dp} + IAC + SE", "subnegotiation/framing", qn,
                  "the sub-negotiation is not framed as IAC SB <about> <data> IAC SE")
        w = [i for i, st in enumerate(rn.body) if isinstance(st, ast.Expr) and isinstance(st.value, ast.Call) and st.value in wcalls]
        e = [i for i, st in enumerate(rn.body) if isinstance(st, ast.Assign) and any(isinstance(t, ast.Name) and t.id == dp for t in st.targets)]
        ctx.check(bool(w) and bool(e) and max(e) < min(w), "subnegotiation/iac-doubled", qn + " | order", "payload is escaped after it was written")

    with ctx.section('reader/anchors'):
        dr = ctx.func(TELNET, "Telnet.dataReceived")
        qd = M + "Telnet.dataReceived"
        default = class_assigns(tel).get("state")
        ctx.need(isinstance(default, ast.Constant), "Telnet.state class default")
        _ok_rd = True
    with ctx.section('reader/states'):
        ctx.need(_ok_rd, 'anchors of reader (section skipped)')
        handled = set()
        for n in ast.walk(dr):
            if isinstance(n, ast.Compare) and len(n.ops) == 1 and isinstance(n.ops[0], ast.Eq) and self_attr(n.left, "state") \
                    and isinstance(n.comparators[0], ast.Constant):
                handled.add(n.comparators[0].value)
        assigned = {}
        assigned[default.value] = "class default"
        n_sw = 0
        for cls in (tel, tt):
            for name, f in methods(cls).items():
                for st in statements(f):
                    if isinstance(st, ast.Assign) and any(self_attr(t, "state") for t in st.targets):
                        n_sw += 1
                        ctx.check(cls is tel and name == "dataReceived", "reader/who-writes-state", ctx.construct(f"{M}{cls.name}.{name}", st),
                                  "the parse state is written outside dataReceived")
                        if isinstance(st.value, ast.Constant):
                            assigned.setdefault(st.value.value, f"{cls.name}.{name}")
                        else:
                            ctx.check(False, "reader/state-has-branch", ctx.construct(f"{M}{cls.name}.{name}", st), "parse state assigned from a non-constant")
        ctx.floor("reader/who-writes-state", n_sw, 8, "state writes")
        for s in sorted(assigned):
            ctx.check(s in handled, "reader/state-has-branch", f"{qd} | state {s!r}",
                      f"state {s!r} (assigned in {assigned[s]}) has no branch in dataReceived: the next byte raises and the connection's parser is stuck")

    with ctx.section('reader/automaton'):
        ctx.need(_ok_rd, 'anchors of reader (section skipped)')
        rd = Reader(dr, C, default.value)
        rd2 = Reader(dr, C, default.value)
        n_runs = 0
        reported = set()

        def report(rule, construct, fails, witness=""):
            if (rule, construct) in reported:
                return
            reported.add((rule, construct))
            ctx.violation(rule, construct, fails, witness)

        n_wires = 0
        for label, wire in corpus(C):
            if len(reported) >= 3:
                break       # enough distinct diagnoses; the corpus is only a witness generator from here on
            ref = reference(wire, C)
            if ref is None:
                raise AnalysisError("C38: corpus wire outside the reference decoder")
            want_ev, want_state = ref
            n_wires += 1
            for sname, chunks in segmentations(wire):
                n_runs += 1
                rd.reset()
                err = None
                try:
                    for ch in chunks:
                        rd.feed(ch)
                except ModelRaise as e:
                    err = str(e)
                got = coalesce(rd.events)
                if err is None and got == want_ev and rd.state == want_state and not rd.unflushed:
                    continue
                if rd.unflushed and err is None and coalesce(rd.events + [("app", rd.unflushed)]) != got:
                    report("reader/flush-at-chunk-end", qd + " | <end of chunk>",
                           f"application bytes buffered during a chunk are dropped when the chunk ends: wire {wire!r} delivered as {chunks!r} loses {rd.unflushed!r}")
                    continue
                cls_ = classify(got, want_ev, err, rd.state, want_state)
                last = rd.trace[-1] if rd.trace else ("data", b"")
                key = find_divergence(rd2, C, wire, chunks) or last
                report("reader/round-trip", f"{qd} | state {key[0]!r} x {byte_name(key[1], C)}",
                       f"{cls_}: wire {wire!r} ({sname}) is decoded as {got!r} / state {rd.persist.get('self__state')!r}"
                       f"{' / raises ' + err if err else ''}; RFC 854 reference: {want_ev!r} / {want_state!r}")
        ctx.extra["automaton_runs"] = n_runs
        ctx.extra["wires"] = n_wires
        if not any(r == "reader/round-trip" for r, _ in reported):
            ctx.ok("reader/round-trip", qd, f"{n_wires} wires x segmentations = {n_runs} runs agree with the RFC 854 reference decoder")
        if not any(r == "reader/flush-at-chunk-end" for r, _ in reported):
            ctx.ok("reader/flush-at-chunk-end", qd + " | <end of chunk>")
        ctx.floor("reader/round-trip", n_wires, 900, "wires")

    with ctx.section('reader/delivery-unchanged'):
        adr = ctx.func(TELNET, "TelnetTransport.applicationDataReceived")
        dparam = adr.args.args[1].arg
        fw = [c for c in ast.walk(adr) if isinstance(c, ast.Call) and call_name(c) == "self.protocol.dataReceived"]
        ctx.check(len(fw) == 1 and len(fw[0].args) == 1 and isinstance(fw[0].args[0], ast.Name) and fw[0].args[0].id == dparam
                  and not any(isinstance(st, (ast.Assign, ast.AugAssign)) for st in statements(adr)),
                  "reader/delivery-unchanged", M + "TelnetTransport.applicationDataReceived",
                  "decoded application bytes are not passed to protocol.dataReceived exactly once and unmodified")

    with ctx.section('reader/unknown-state-raises'):
        ctx.need(_ok_rd, 'anchors of reader (section skipped)')
        top = [st for st in dr.body if isinstance(st, ast.For)]
        ctx.need(top, "dataReceived: for b in iterbytes(data)")
        chain_if = [st for st in top[0].body if isinstance(st, ast.If)]
        ctx.need(chain_if, "dataReceived: if self.state == ... chain")
        node = chain_if[0]
        while len(node.orelse) == 1 and isinstance(node.orelse[0], ast.If):
            node = node.orelse[0]
        ctx.check(any(isinstance(s, ast.Raise) for s in node.orelse), "reader/unknown-state-raises", qd + " | <else>",
                  "an unknown parse state is silently ignored (bytes are dropped) instead of raising")


def reference_step(st, b, C):
    simple = {C[k] for k in ("EOR", "NOP", "DM", "BRK", "IP", "AO", "AYT", "EC", "EL", "GA")}
    opt = {C[k] for k in ("WILL", "WONT", "DO", "DONT")}
    if st == "data":
        return "escaped" if b == IACB else "newline" if b == CRB else "data"
    if st == "escaped":
        return "data" if b == IACB or b in simple else "subnegotiation" if b == C["SB"] else "command" if b in opt else "?"
    if st in ("command", "newline"):
        return "data"
    if st == "subnegotiation":
        return "subnegotiation-escaped" if b == IACB else st
    if st == "subnegotiation-escaped":
        return "data" if b == C["SE"] else "subnegotiation"
    return "?"


def classify(got, want, err, st, want_st):
    if err:
        return "the receiver raises"
    g = b"".join(e[1] for e in got if e[0] == "app")
    w = b"".join(e[1] for e in want if e[0] == "app")
    if g != w:
        if len(g) < len(w):
            return "application bytes are lost or altered"
        return "application bytes are duplicated or altered"
    if [e for e in got if e[0] != "app"] != [e for e in want if e[0] != "app"]:
        return "commands are mis-read"
    if got != want:
        return "application data and commands are delivered out of order"
    return f"parser left in state {st!r} instead of {want_st!r}"


def find_divergence(rd, C, wire, chunks):
    """Shortest prefix of the wire (fed with the same chunking) whose decoding already disagrees with the
    reference on that prefix; returns the (state, byte) transition executed last."""
    total = 0
    bounds = []
    for ch in chunks:
        total += len(ch)
        bounds.append(total)
    for n in range(1, len(wire) + 1):
        pre = wire[:n]
        ref = reference(pre, C)
        rd.reset()
        cut = [0] + [b for b in bounds if b < n] + [n]
        try:
            for a, b in zip(cut, cut[1:]):
                rd.feed(pre[a:b])
        except ModelRaise:
            return rd.trace[-1] if rd.trace else None
        if ref is None:
            continue
        got = coalesce(rd.events + ([("app", rd.unflushed)] if rd.unflushed else []))
        if got != ref[0] or rd.state != ref[1]:
            return rd.trace[-1] if rd.trace else None
    return None


T = TELNET
MUTANTS = [
    Mutant("helper-escapes-wrong-byte", T, "        ProtocolTransportMixin.write(self, data.replace(b\"\\xff\", b\"\\xff\\xff\"))",
           "        escaped = _doubleIAC(data)\n        ProtocolTransportMixin.write(self, escaped)",
           more=[(T, "class ProtocolTransportMixin:\n", "def _doubleIAC(data):\n    return data.replace(DONT, DONT * 2)\n\n\nclass ProtocolTransportMixin:\n")], expect_rule="writer/iac-doubled"),
    Mutant("revert-F38-writeSequence", T, "    def writeSequence(self, seq):\n        self.write(b\"\".join(seq))\n\n\nclass TelnetBootstrapProtocol", "\n\nclass TelnetBootstrapProtocol",
           expect_rule="writeSequence/same-escaping-as-write"),
    Mutant("drop-iac-doubling", T, "        ProtocolTransportMixin.write(self, data.replace(b\"\\xff\", b\"\\xff\\xff\"))", "        ProtocolTransportMixin.write(self, data)",
           expect_rule="writer/iac-doubled"),
    Mutant("escaped-iac-not-delivered", T, "                if b == IAC:\n                    appDataBuffer.append(b)\n                    self.state = \"data\"\n",
           "                if b == IAC:\n                    self.state = \"data\"\n", expect_rule="reader/round-trip"),
    Mutant("crlf-restored-as-crlf", T, "                if b == b\"\\n\":\n                    appDataBuffer.append(b\"\\n\")\n", "                if b == b\"\\n\":\n                    appDataBuffer.append(b\"\\r\\n\")\n",
           expect_rule="reader/round-trip"),
    Mutant("no-flush-at-chunk-end", T, "                raise ValueError(\"How'd you do this?\")\n\n        if appDataBuffer:\n            self.applicationDataReceived(b\"\".join(appDataBuffer))\n",
           "                raise ValueError(\"How'd you do this?\")\n", expect_rule="reader/flush-at-chunk-end"),
    Mutant("flush-without-clear-before-command", T, "                if appDataBuffer:\n                    self.applicationDataReceived(b\"\".join(appDataBuffer))\n                    del appDataBuffer[:]\n                self.commandReceived(command, b)\n",
           "                if appDataBuffer:\n                    self.applicationDataReceived(b\"\".join(appDataBuffer))\n                self.commandReceived(command, b)\n", expect_rule="reader/round-trip"),
    Mutant("subneg-escape-state-not-left", T, "                else:\n                    self.state = \"subnegotiation\"\n                    self.commands.append(b)\n", "                else:\n                    self.commands.append(b)\n",
           expect_rule="reader/round-trip"),
    Mutant("negotiation-payload-unescaped", T, "        data = data.replace(IAC, IAC * 2)\n        self._write(IAC + SB + about + data + IAC + SE)", "        self._write(IAC + SB + about + data + IAC + SE)",
           expect_rule="subnegotiation/iac-doubled"),
    Mutant("lf-translation-dropped", T, "        self.transport.write(data.replace(b\"\\n\", b\"\\r\\n\"))", "        self.transport.write(data)", expect_rule="writer/lf-to-crlf"),
    Mutant("new-state-without-branch", T, "                elif b == SB:\n                    self.state = \"subnegotiation\"\n", "                elif b == SB:\n                    self.state = \"subnegotiating\"\n",
           expect_rule="reader/state-has-branch"),
    Mutant("delivery-strips-nul", T, "    def applicationDataReceived(self, data):\n        self.protocol.dataReceived(data)\n",
           "    def applicationDataReceived(self, data):\n        self.protocol.dataReceived(data.replace(b\"\\0\", b\"\"))\n", expect_rule="reader/delivery-unchanged"),
    Mutant("command-arg-state-reset-late", T, "            elif self.state == \"command\":\n                self.state = \"data\"\n                command = self.command\n",
           "            elif self.state == \"command\":\n                command = self.command\n", expect_rule="reader/round-trip"),
]
SILENT = [
    Silent("write-named-temporary-and-helper", T, "        ProtocolTransportMixin.write(self, data.replace(b\"\\xff\", b\"\\xff\\xff\"))",
           "        escaped = _doubleIAC(data)\n        ProtocolTransportMixin.write(self, escaped)",
           more=[(T, "class ProtocolTransportMixin:\n", "def _doubleIAC(data):\n    return data.replace(IAC, IAC * 2)\n\n\nclass ProtocolTransportMixin:\n")]),
    Silent("writeSequence-per-element-loop", T, "    def writeSequence(self, seq):\n        self.write(b\"\".join(seq))\n\n\nclass TelnetBootstrapProtocol",
           "    def writeSequence(self, seq):\n        for piece in seq:\n            self.write(piece)\n\n\nclass TelnetBootstrapProtocol"),
    Silent("write-escapes-in-two-statements", T, "        ProtocolTransportMixin.write(self, data.replace(b\"\\xff\", b\"\\xff\\xff\"))",
           "        data = data.replace(IAC, IAC + IAC)\n        ProtocolTransportMixin.write(self, data)"),
    Silent("reader-uses-extend-and-clear", T, "                if b == IAC:\n                    appDataBuffer.append(b)\n                    self.state = \"data\"\n",
           "                if b == IAC:\n                    self.state = \"data\"\n                    appDataBuffer.extend([IAC])\n"),
    Silent("writeSequence-escapes-per-element", T, "    def writeSequence(self, seq):\n        self.write(b\"\".join(seq))\n\n\nclass TelnetBootstrapProtocol",
           "    def writeSequence(self, seq):\n        self.transport.writeSequence([s.replace(IAC, IAC * 2).replace(b\"\\n\", b\"\\r\\n\") for s in seq])\n\n\nclass TelnetBootstrapProtocol"),
]
