"""Helpers shared by the C14/C15/C16/C17/C47 checkers (batch "d").  Stdlib + sa engine only.

* ``peval`` / ``test_value``: three-valued evaluation of a pure test expression under *facts*
  (a mapping "normalised source text of a sub-expression" -> value), e.g.
  ``{"self.producer": NONNULL, "self.streamingProducer": False}``.
* ``reach_under`` / ``path_under`` / ``must_pass_under``: reachability in a CFG restricted to the
  branch outcomes that are consistent with a set of facts (facts are updated by constant
  assignments and dropped by any other write to the named attribute).
* ``implied``: some dominating atomic guard separates a *good* from a *bad* family of facts
  (semantic K1, independent of how the test is spelled).
* small AST predicates.
"""
from __future__ import annotations

import ast
import math
import re
import struct
from collections import deque
from typing import Callable, Dict, Iterable, List, Optional, Sequence, Set, Tuple

from sa.astx import NotConst, assigned_targets, call_name, dotted, src, walk_local

__all__ = [
    "NONNULL", "FALSY", "peval", "test_value", "reach_under", "path_under", "must_pass_under", "implied",
    "is_self_attr", "self_assigns", "call_nodes", "calls_with", "const_value_is", "written_names", "succ_of",
    "handler_names", "covers", "no_exc", "first_arg", "name_of", "slice_parts", "value_returned", "local_def", "test_value",
]


class _Abstract:
    def __init__(self, label, truth, none):
        self.label, self.truth, self.none = label, truth, none

    def __repr__(self):
        return self.label

    def __bool__(self):
        return self.truth


NONNULL = _Abstract("<non-None, truthy>", True, False)
FALSY = _Abstract("<falsy>", False, None)

_FUNCS = {
    "len": len, "str": str, "int": int, "bool": bool, "abs": abs, "min": min, "max": max, "ord": ord, "chr": chr,
    "bytes": bytes, "tuple": tuple, "list": list, "sorted": sorted, "range": range, "sum": sum,
    "math.ceil": math.ceil, "math.floor": math.floor, "math.log10": math.log10, "math.log": math.log,
    "ceil": math.ceil, "floor": math.floor, "log10": math.log10,
    "calcsize": struct.calcsize, "struct.calcsize": struct.calcsize,
    "unpack": struct.unpack, "struct.unpack": struct.unpack, "pack": struct.pack, "struct.pack": struct.pack,
}


def _truth(v) -> bool:
    if isinstance(v, _Abstract):
        return v.truth
    return bool(v)


def peval(node: ast.AST, env: Optional[Dict[str, object]] = None):
    """Evaluate a pure expression; sub-expressions whose normalised text is a key of ``env`` take the
    given value.  Raises NotConst when the value is not determined.  Never runs repository code."""
    env = env or {}
    if env:
        key = src(node)
        if key in env:
            return env[key]
    if isinstance(node, ast.Constant):
        return node.value
    if isinstance(node, ast.Name):
        if node.id in ("True", "False", "None"):
            return {"True": True, "False": False, "None": None}[node.id]
        raise NotConst(node.id)
    if isinstance(node, (ast.Tuple, ast.List)):
        vals = [peval(e, env) for e in node.elts]
        return tuple(vals) if isinstance(node, ast.Tuple) else vals
    if isinstance(node, ast.UnaryOp):
        v = peval(node.operand, env)
        if isinstance(node.op, ast.Not):
            return not _truth(v)
        if isinstance(v, _Abstract):
            raise NotConst("abstract")
        if isinstance(node.op, ast.USub):
            return -v
        if isinstance(node.op, ast.UAdd):
            return +v
        if isinstance(node.op, ast.Invert):
            return ~v
    if isinstance(node, ast.BoolOp):
        is_and = isinstance(node.op, ast.And)
        unknown = False
        last = None
        for e in node.values:
            try:
                v = peval(e, env)
            except NotConst:
                unknown = True
                continue
            if _truth(v) != is_and:
                # and: a falsy operand decides; or: a truthy operand decides.  (An earlier undetermined
                # operand could only change the *value*, not the truth value, of the whole.)
                return v
            last = v
        if unknown:
            raise NotConst("boolop")
        return last
    if isinstance(node, ast.IfExp):
        return peval(node.body, env) if _truth(peval(node.test, env)) else peval(node.orelse, env)
    if isinstance(node, ast.Compare):
        left = peval(node.left, env)
        for op, rn in zip(node.ops, node.comparators):
            right = peval(rn, env)
            if isinstance(left, _Abstract) or isinstance(right, _Abstract):
                a, other = (left, right) if isinstance(left, _Abstract) else (right, left)
                if isinstance(op, (ast.Is, ast.IsNot)) and other is None and a.none is not None:
                    r = a.none if isinstance(op, ast.Is) else not a.none
                elif isinstance(op, (ast.Eq, ast.NotEq)) and other is None and a.none is not None:
                    r = a.none if isinstance(op, ast.Eq) else not a.none
                else:
                    raise NotConst("abstract compare")
            else:
                try:
                    r = {ast.Eq: lambda: left == right, ast.NotEq: lambda: left != right, ast.Lt: lambda: left < right,
                         ast.LtE: lambda: left <= right, ast.Gt: lambda: left > right, ast.GtE: lambda: left >= right,
                         ast.Is: lambda: left is right, ast.IsNot: lambda: left is not right,
                         ast.In: lambda: left in right, ast.NotIn: lambda: left not in right}[type(op)]()
                except Exception as e:  # noqa: BLE001 - evaluation of a constant expression failed
                    raise NotConst(str(e))
            if not r:
                return False
            left = right
        return True
    if isinstance(node, ast.BinOp):
        a, b = peval(node.left, env), peval(node.right, env)
        if isinstance(a, _Abstract) or isinstance(b, _Abstract):
            raise NotConst("abstract arithmetic")
        try:
            if isinstance(node.op, ast.Pow):
                if not (isinstance(b, int) and abs(b) < 4096):
                    raise NotConst("pow")
                return a ** b
            return {ast.Add: lambda: a + b, ast.Sub: lambda: a - b, ast.Mult: lambda: a * b, ast.Mod: lambda: a % b,
                    ast.FloorDiv: lambda: a // b, ast.Div: lambda: a / b, ast.LShift: lambda: a << b,
                    ast.RShift: lambda: a >> b, ast.BitOr: lambda: a | b, ast.BitAnd: lambda: a & b,
                    ast.BitXor: lambda: a ^ b}[type(node.op)]()
        except NotConst:
            raise
        except Exception as e:  # noqa: BLE001
            raise NotConst(str(e))
    if isinstance(node, ast.Call) and not node.keywords:
        fn = dotted(node.func)
        if fn in _FUNCS:
            args = [peval(a, env) for a in node.args]
            if any(isinstance(a, _Abstract) for a in args):
                raise NotConst("abstract arg")
            try:
                return _FUNCS[fn](*args)
            except Exception as e:  # noqa: BLE001
                raise NotConst(str(e))
        if isinstance(node.func, ast.Attribute) and node.func.attr in ("encode", "decode", "startswith", "endswith", "join", "lower", "upper", "split", "rstrip", "strip", "find", "count"):
            recv = peval(node.func.value, env)
            args = [peval(a, env) for a in node.args]
            if isinstance(recv, (str, bytes)):
                try:
                    return getattr(recv, node.func.attr)(*args)
                except Exception as e:  # noqa: BLE001
                    raise NotConst(str(e))
        raise NotConst("call")
    if isinstance(node, ast.Subscript):
        v = peval(node.value, env)
        if isinstance(v, _Abstract):
            raise NotConst("abstract subscript")
        try:
            if isinstance(node.slice, ast.Slice):
                lo = peval(node.slice.lower, env) if node.slice.lower else None
                hi = peval(node.slice.upper, env) if node.slice.upper else None
                st = peval(node.slice.step, env) if node.slice.step else None
                return v[lo:hi:st]
            return v[peval(node.slice, env)]
        except NotConst:
            raise
        except Exception as e:  # noqa: BLE001
            raise NotConst(str(e))
    raise NotConst(type(node).__name__)


def test_value(expr: ast.AST, facts: Optional[Dict[str, object]]) -> Optional[bool]:
    """True / False / None (undetermined) for a branch test under ``facts``."""
    try:
        return _truth(peval(expr, facts or {}))
    except NotConst:
        return None


# ---- facts along paths -----------------------------------------------------------------------

def written_names(st: ast.AST) -> Set[str]:
    """Dotted names (``self.x`` / ``x``) re-bound, augmented or deleted by a simple statement."""
    out: Set[str] = set()
    if isinstance(st, (ast.Assign, ast.AugAssign, ast.AnnAssign, ast.Delete, ast.For, ast.AsyncFor, ast.With, ast.AsyncWith)):
        for t in assigned_targets(st):
            d = dotted(t)
            if d:
                out.add(d)
            elif isinstance(t, ast.Subscript):
                d = dotted(t.value)
                if d:
                    out.add(d)
    return out


def _mentions(key: str, name: str) -> bool:
    return re.search(r"(?<![\w.])" + re.escape(name) + r"(?![\w])", key) is not None


_MUTATORS = {"append", "extend", "insert", "pop", "popleft", "appendleft", "remove", "clear", "add", "discard", "update",
             "write", "truncate", "seek", "sort", "reverse"}


def _step(node, facts: Tuple[Tuple[str, object], ...]) -> Tuple[Tuple[str, object], ...]:
    if not facts or node.ast is None:
        return facts
    st = node.ast
    if node.kind == "for":
        names = written_names(st)
    elif node.kind == "stmt":
        names = written_names(st)
        # in-place mutation through a method call on the named object kills facts about it
        for c in walk_local(st):
            if isinstance(c, ast.Call) and isinstance(c.func, ast.Attribute) and c.func.attr in _MUTATORS:
                d = dotted(c.func.value)
                if d:
                    names.add(d)
    else:
        return facts
    if not names:
        return facts
    d = dict(facts)
    new: Dict[str, object] = {}
    def _keep(name, v):
        if isinstance(v, (int, str, bytes, bool, type(None), _Abstract, float)):
            new[name] = v
        elif isinstance(v, (list, tuple)):
            if not v:
                new[name] = FALSY
            elif all(isinstance(e, (int, str, bytes, bool, type(None), float)) for e in v):
                new[name] = tuple(v)

    if node.kind == "stmt" and isinstance(st, ast.Assign) and len(st.targets) == 1 and dotted(st.targets[0]):
        try:
            _keep(dotted(st.targets[0]), peval(st.value, d))
        except NotConst:
            pass
    elif node.kind == "stmt" and isinstance(st, ast.AugAssign) and dotted(st.target) and dotted(st.target) in d:
        try:
            _keep(dotted(st.target), peval(ast.BinOp(left=st.target, op=st.op, right=st.value), d))
        except NotConst:
            pass
    for k in list(d):
        if any(_mentions(k, n) for n in names):
            del d[k]
    d.update(new)
    return tuple(sorted(d.items(), key=lambda kv: kv[0]))


def _explore(g, facts, srcs, avoid, exc, stop_at=None):
    """BFS over (node, facts).  Returns (prev map, visited states)."""
    f0 = tuple(sorted((facts or {}).items(), key=lambda kv: kv[0]))
    avoid = set(avoid)
    prev = {}
    dq = deque()
    for s in srcs:
        st = (s, f0)
        if st not in prev:
            prev[st] = None
            dq.append(st)
    while dq:
        state = dq.popleft()
        n, f = state
        if stop_at is not None and n in stop_at and prev[state] is not None:
            continue
        node = g.nodes[n]
        want = None
        if node.kind == "test":
            v = test_value(node.ast, dict(f))
            if v is not None:
                want = "T" if v else "F"
        f2 = _step(node, f)
        for b, lab in g.succ[n]:
            if lab == "exc" and not exc:
                continue
            if want is not None and lab in ("T", "F") and lab != want:
                continue
            if b in avoid:
                continue
            ns = (b, f2)
            if ns in prev:
                continue
            prev[ns] = state
            dq.append(ns)
    return prev


def reach_under(g, facts: Optional[Dict[str, object]], srcs: Optional[Iterable[int]] = None, avoid: Iterable[int] = (),
                exc: bool = False) -> Set[int]:
    """Nodes reachable from ``srcs`` (default: entry) along branch outcomes consistent with ``facts``
    (facts hold on arrival at the sources)."""
    prev = _explore(g, facts, list(srcs) if srcs is not None else [g.entry], avoid, exc)
    return {n for n, _ in prev}


def path_under(g, facts, dsts: Iterable[int], srcs: Optional[Iterable[int]] = None, avoid: Iterable[int] = (),
               exc: bool = False) -> Optional[List[int]]:
    dsts = set(dsts)
    srcs = list(srcs) if srcs is not None else [g.entry]
    prev = _explore(g, facts, srcs, avoid, exc)
    best = None
    for state in prev:
        if state[0] in dsts and (prev[state] is not None or state[0] in srcs):
            path = []
            s = state
            while s is not None:
                path.append(s[0])
                s = prev[s]
            path.reverse()
            if best is None or len(path) < len(best):
                best = path
    return best


def must_pass_under(g, facts, via: Iterable[int], srcs: Optional[Iterable[int]] = None, to: Optional[Iterable[int]] = None,
                    exc: bool = False) -> Optional[List[int]]:
    """Under ``facts`` every path from ``srcs`` to ``to`` (default: normal exit) passes a ``via`` node.
    None when it holds, else a witness path avoiding ``via``."""
    to = set(to) if to is not None else ({g.exit} | ({g.raise_exit} if exc else set()))
    via = set(via)
    if srcs is not None:
        srcs = [s for s in srcs if s not in via]     # a source that is itself a via node has already passed
        if not srcs:
            return None
    return path_under(g, facts, to, srcs=srcs, avoid=via, exc=exc)


def _resolved_test(g, t: int):
    """(expression, node where it is evaluated) of test node ``t``; a bare local name assigned exactly once,
    on every path to the test, stands for the assigned expression (``done = a and b`` ... ``if done:``)."""
    e = g.nodes[t].ast
    if isinstance(e, ast.Name):
        defs = [n for n in g.nodes if n.kind == "stmt" and g.reachable(n.id) and isinstance(n.ast, ast.Assign) and len(n.ast.targets) == 1
                and isinstance(n.ast.targets[0], ast.Name) and n.ast.targets[0].id == e.id]
        others = [n for n in g.nodes if n.ast is not None and n.kind in ("stmt", "for", "with") and n not in defs and e.id in written_names(n.ast)]
        if len(defs) == 1 and not others and g.dominates(defs[0].id, t):
            return defs[0].ast.value, defs[0].id
    return e, t


def implied(g, n: int, good: Sequence[Dict[str, object]], bad: Sequence[Dict[str, object]], after: Iterable[int] = ()) -> bool:
    """Node ``n`` is dominated by a test edge that every ``good`` fact-set takes and every ``bad`` fact-set
    does not take (the test is decided, with the opposite outcome, under bad).  With ``after``, the test must
    be evaluated at a point dominated by one of those nodes (i.e. on the state they produce)."""
    after = list(after)
    for t, lab in g.edge_guards(n):
        pol = lab == "T"
        cands = [(g.nodes[t].ast, t)]
        r = _resolved_test(g, t)
        if r[1] != t:
            cands.append(r)
        for e, at in cands:
            if all(test_value(e, f) is pol for f in good) and all(test_value(e, f) is (not pol) for f in bad):
                if not after or any(g.dominates(a, at) for a in after):
                    return True
    return False


# ---- AST predicates ------------------------------------------------------------------------------

def is_self_attr(node, name: Optional[str] = None, recv: str = "self") -> bool:
    return (isinstance(node, ast.Attribute) and isinstance(node.value, ast.Name) and node.value.id == recv
            and (name is None or node.attr == name))


def const_value_is(node, pred: Callable[[object], bool]) -> bool:
    try:
        return bool(pred(peval(node, {})))
    except NotConst:
        return False


def self_assigns(g, attr: str, value_pred: Optional[Callable[[ast.AST], bool]] = None, recv: str = "self") -> List[int]:
    """CFG statement nodes assigning ``recv.attr`` (plain or tuple assignment, AugAssign excluded)."""
    out = []
    for n in g.nodes:
        if n.kind != "stmt" or not g.reachable(n.id) or not isinstance(n.ast, (ast.Assign, ast.AnnAssign)):
            continue
        st = n.ast
        if isinstance(st, ast.AnnAssign):
            if st.value is not None and is_self_attr(st.target, attr, recv) and (value_pred is None or value_pred(st.value)):
                out.append(n.id)
            continue
        for tgt in st.targets:
            if is_self_attr(tgt, attr, recv):
                if value_pred is None or value_pred(st.value):
                    out.append(n.id)
                    break
            elif isinstance(tgt, (ast.Tuple, ast.List)) and isinstance(st.value, (ast.Tuple, ast.List)) and len(tgt.elts) == len(st.value.elts):
                hit = False
                for t, v in zip(tgt.elts, st.value.elts):
                    if is_self_attr(t, attr, recv) and (value_pred is None or value_pred(v)):
                        hit = True
                if hit:
                    out.append(n.id)
                    break
            elif isinstance(tgt, (ast.Tuple, ast.List)) and any(is_self_attr(t, attr, recv) for t in tgt.elts):
                if value_pred is None:
                    out.append(n.id)
                    break
    return out


def call_nodes(g, *names: str) -> List[int]:
    """CFG nodes containing a call whose dotted callee is one of ``names`` (".x" = any receiver)."""
    def pred(x):
        if not isinstance(x, ast.Call):
            return False
        d = call_name(x)
        for nm in names:
            if nm.startswith("."):
                if isinstance(x.func, ast.Attribute) and x.func.attr == nm[1:]:
                    return True
            elif d == nm:
                return True
        return False
    return g.find(pred)


def calls_with(g, *names: str) -> List[Tuple[int, ast.Call]]:
    out = []
    for n in call_nodes(g, *names):
        node = g.nodes[n]
        roots = [node.ast] if node.kind not in ("for", "with") else (
            [node.ast.iter] if node.kind == "for" else [it.context_expr for it in node.ast.items])
        for r in roots:
            for x in walk_local(r):
                if isinstance(x, ast.Call):
                    d = call_name(x)
                    for nm in names:
                        if (nm.startswith(".") and isinstance(x.func, ast.Attribute) and x.func.attr == nm[1:]) or d == nm:
                            out.append((n, x))
                            break
    return out


def value_returned(g, n: int, call: ast.Call) -> bool:
    """The value of ``call`` (evaluated in CFG node n) is what the function returns on every normal path from n:
    ``return call(...)`` or ``v = call(...)`` followed on every path by ``return v``."""
    st = g.nodes[n].ast
    if isinstance(st, ast.Return) and st.value is call:
        return True
    if isinstance(st, ast.Assign) and len(st.targets) == 1 and isinstance(st.targets[0], ast.Name) and st.value is call:
        v = st.targets[0].id
        rets = [x.id for x in g.nodes if x.kind == "stmt" and isinstance(x.ast, ast.Return) and x.ast.value is not None and src(x.ast.value) == v]
        return bool(rets) and g.must_pass([n], rets) is None
    return False


def local_def(func: ast.AST, node: ast.AST) -> ast.AST:
    """A Name bound exactly once in ``func`` by a plain assignment stands for the assigned expression."""
    if isinstance(node, ast.Name):
        defs = [st.value for st in walk_local(func) if isinstance(st, ast.Assign) and len(st.targets) == 1
                and isinstance(st.targets[0], ast.Name) and st.targets[0].id == node.id]
        if len(defs) == 1:
            return defs[0]
    return node


def succ_of(g, n: int, label) -> List[int]:
    return [d for d, l in g.succ[n] if l == label]


def no_exc(a, b, l):
    return l != "exc"


def handler_names(h: ast.ExceptHandler) -> List[str]:
    if h.type is None:
        return ["BaseException"]
    es = h.type.elts if isinstance(h.type, ast.Tuple) else [h.type]
    return [(dotted(e) or src(e)).split(".")[-1] for e in es]


_EXC_RANK = {"BaseException": 2, "Exception": 1}


def covers(h: ast.ExceptHandler, minimum: str) -> bool:
    """The handler catches at least ``minimum`` ("Exception" or "BaseException")."""
    need = _EXC_RANK[minimum]
    return any(_EXC_RANK.get(n, 0) >= need for n in handler_names(h))


def first_arg(call: ast.Call) -> Optional[ast.AST]:
    return call.args[0] if call.args else None


def name_of(node) -> Optional[str]:
    return node.id if isinstance(node, ast.Name) else None


def slice_parts(node) -> Optional[Tuple[ast.AST, Optional[ast.AST], Optional[ast.AST]]]:
    """``v[a:b]`` -> (v, a, b); None for anything else (a step makes it None too)."""
    if isinstance(node, ast.Subscript) and isinstance(node.slice, ast.Slice) and node.slice.step is None:
        return node.value, node.slice.lower, node.slice.upper
    return None
