"""Helpers shared by the C14/C15/C16/C17/C47 checkers (batch "d").  Stdlib + sa engine only.

* ``peval`` / ``test_value``: three-valued evaluation of a pure test expression under *facts*
  (a mapping "normalised source text of a sub-expression" -> value), e.g.
  ``{"self.producer": NONNULL, "self.streamingProducer": False}``.
* ``reach_under`` / ``path_under`` / ``must_pass_under``: reachability in a CFG restricted to the
  branch outcomes that are consistent with a set of facts (facts are updated by constant
  assignments and dropped by any other write to the named attribute).
* ``implied``: some dominating atomic guard separates a *good* from a *bad* family of facts
  (semantic K1, independent of how the test is spelled).
* small AST predicates.
"""
from __future__ import annotations

import ast
import math
import re
import struct
from collections import deque
from typing import Callable, Dict, Iterable, List, Optional, Sequence, Set, Tuple

from sa.astx import NotConst, assigned_targets, call_name, dotted, src, walk_local

__all__ = [
    "NONNULL", "FALSY", "FALSY_NONNULL", "peval", "test_value", "reach_under", "path_under", "must_pass_under", "implied",
    "is_self_attr", "self_assigns", "call_nodes", "calls_with", "const_value_is", "written_names", "succ_of",
    "facts_at", "undecided_tests", "handler_names", "covers", "no_exc", "first_arg", "name_of", "slice_parts", "value_returned", "local_def", "test_value", "aliases", "abstract_instance", "returns_under", "expand_calls", "peval", "sampled_attribute", "Guarded", "abstain_where_twinned",
]


class _Abstract:
    def __init__(self, label, truth, none):
        self.label, self.truth, self.none = label, truth, none

    def __repr__(self):
        return self.label

    def __bool__(self):
        return self.truth


def abstract_instance(label: str, classes: Iterable[str], not_classes: Iterable[str] = ()) -> _Abstract:
    """an object of which only the class is known (truthy, not None): ``isinstance(x, C)`` is decided for the listed class names"""
    a = _Abstract(label, True, False)
    a.classes, a.not_classes = set(classes), set(not_classes)
    return a


NONNULL = _Abstract("<non-None, truthy>", True, False)
FALSY_NONNULL = _Abstract("<non-None object that is falsy (empty container, __len__ == 0, __bool__ False)>", False, False)
FALSY = _Abstract("<falsy>", False, None)

_FUNCS = {
    "len": len, "str": str, "int": int, "bool": bool, "abs": abs, "min": min, "max": max, "ord": ord, "chr": chr,
    "bytes": bytes, "tuple": tuple, "list": list, "sorted": sorted, "range": range, "sum": sum, "memoryview": memoryview,
    "math.ceil": math.ceil, "math.floor": math.floor, "math.log10": math.log10, "math.log": math.log,
    "ceil": math.ceil, "floor": math.floor, "log10": math.log10,
    "calcsize": struct.calcsize, "struct.calcsize": struct.calcsize,
    "unpack": struct.unpack, "struct.unpack": struct.unpack, "pack": struct.pack, "struct.pack": struct.pack,
}


_COMPLEMENT = {ast.In: ast.NotIn, ast.NotIn: ast.In, ast.Eq: ast.NotEq, ast.NotEq: ast.Eq, ast.Is: ast.IsNot, ast.IsNot: ast.Is,
               ast.Lt: ast.GtE, ast.GtE: ast.Lt, ast.Gt: ast.LtE, ast.LtE: ast.Gt}


def _truth(v) -> bool:
    if isinstance(v, _Abstract):
        return v.truth
    return bool(v)


def peval(node: ast.AST, env: Optional[Dict[str, object]] = None):
    """Evaluate a pure expression; sub-expressions whose normalised text is a key of ``env`` take the
    given value.  Raises NotConst when the value is not determined.  Never runs repository code."""
    env = env or {}
    if env:
        key = src(node)
        if key in env:
            return env[key]
    if isinstance(node, ast.Constant):
        return node.value
    if env and isinstance(node, ast.Compare) and len(node.ops) == 1 and type(node.ops[0]) in _COMPLEMENT:
        # a fact stated for `a in b` also decides `a not in b` (and == / !=, is / is not, < / >=, ...)
        other = src(ast.Compare(left=node.left, ops=[_COMPLEMENT[type(node.ops[0])]()], comparators=node.comparators))
        if other in env and isinstance(env[other], bool):
            return not env[other]
    if isinstance(node, ast.Name):
        if node.id in ("True", "False", "None"):
            return {"True": True, "False": False, "None": None}[node.id]
        raise NotConst(node.id)
    if isinstance(node, (ast.Tuple, ast.List)):
        vals = [peval(e, env) for e in node.elts]
        return tuple(vals) if isinstance(node, ast.Tuple) else vals
    if isinstance(node, ast.UnaryOp):
        v = peval(node.operand, env)
        if isinstance(node.op, ast.Not):
            return not _truth(v)
        if isinstance(v, _Abstract):
            raise NotConst("abstract")
        if isinstance(node.op, ast.USub):
            return -v
        if isinstance(node.op, ast.UAdd):
            return +v
        if isinstance(node.op, ast.Invert):
            return ~v
    if isinstance(node, ast.BoolOp):
        is_and = isinstance(node.op, ast.And)
        unknown = False
        last = None
        for e in node.values:
            try:
                v = peval(e, env)
            except NotConst:
                unknown = True
                continue
            if _truth(v) != is_and:
                # and: a falsy operand decides; or: a truthy operand decides.  (An earlier undetermined
                # operand could only change the *value*, not the truth value, of the whole.)
                return v
            last = v
        if unknown:
            raise NotConst("boolop")
        return last
    if isinstance(node, ast.NamedExpr):
        return peval(node.value, env)
    if isinstance(node, ast.IfExp):
        return peval(node.body, env) if _truth(peval(node.test, env)) else peval(node.orelse, env)
    if isinstance(node, ast.Compare):
        left = peval(node.left, env)
        for op, rn in zip(node.ops, node.comparators):
            right = peval(rn, env)
            if isinstance(left, _Abstract) or isinstance(right, _Abstract):
                a, other = (left, right) if isinstance(left, _Abstract) else (right, left)
                if isinstance(op, (ast.Is, ast.IsNot)) and other is None and a.none is not None:
                    r = a.none if isinstance(op, ast.Is) else not a.none
                elif isinstance(op, (ast.Eq, ast.NotEq)) and other is None and a.none is not None:
                    r = a.none if isinstance(op, ast.Eq) else not a.none
                else:
                    raise NotConst("abstract compare")
            else:
                try:
                    r = {ast.Eq: lambda: left == right, ast.NotEq: lambda: left != right, ast.Lt: lambda: left < right,
                         ast.LtE: lambda: left <= right, ast.Gt: lambda: left > right, ast.GtE: lambda: left >= right,
                         ast.Is: lambda: left is right, ast.IsNot: lambda: left is not right,
                         ast.In: lambda: left in right, ast.NotIn: lambda: left not in right}[type(op)]()
                except Exception as e:  # noqa: BLE001 - evaluation of a constant expression failed
                    raise NotConst(str(e))
            if not r:
                return False
            left = right
        return True
    if isinstance(node, ast.BinOp):
        a, b = peval(node.left, env), peval(node.right, env)
        if isinstance(a, _Abstract) or isinstance(b, _Abstract):
            raise NotConst("abstract arithmetic")
        try:
            if isinstance(node.op, ast.Pow):
                if not (isinstance(b, int) and abs(b) < 4096):
                    raise NotConst("pow")
                return a ** b
            return {ast.Add: lambda: a + b, ast.Sub: lambda: a - b, ast.Mult: lambda: a * b, ast.Mod: lambda: a % b,
                    ast.FloorDiv: lambda: a // b, ast.Div: lambda: a / b, ast.LShift: lambda: a << b,
                    ast.RShift: lambda: a >> b, ast.BitOr: lambda: a | b, ast.BitAnd: lambda: a & b,
                    ast.BitXor: lambda: a ^ b}[type(node.op)]()
        except NotConst:
            raise
        except Exception as e:  # noqa: BLE001
            raise NotConst(str(e))
    if isinstance(node, ast.Call) and not node.keywords:
        fn = dotted(node.func)
        if fn == "isinstance" and len(node.args) == 2:
            v = peval(node.args[0], env)
            kinds = getattr(v, "classes", None)
            if kinds is not None:
                asked = node.args[1].elts if isinstance(node.args[1], ast.Tuple) else [node.args[1]]
                names = [(dotted(a) or "?").split(".")[-1] for a in asked]
                if any(n in kinds for n in names):
                    return True
                if all(n in getattr(v, "not_classes", ()) for n in names):
                    return False
            raise NotConst("isinstance")
        if fn in _FUNCS:
            args = [peval(a, env) for a in node.args]
            if any(isinstance(a, _Abstract) for a in args):
                raise NotConst("abstract arg")
            try:
                return _FUNCS[fn](*args)
            except Exception as e:  # noqa: BLE001
                raise NotConst(str(e))
        if isinstance(node.func, ast.Attribute) and node.func.attr in ("encode", "decode", "startswith", "endswith", "join", "lower", "upper", "split", "rstrip", "strip", "find", "count"):
            recv = peval(node.func.value, env)
            args = [peval(a, env) for a in node.args]
            if isinstance(recv, (str, bytes)):
                try:
                    return getattr(recv, node.func.attr)(*args)
                except Exception as e:  # noqa: BLE001
                    raise NotConst(str(e))
        raise NotConst("call")
    if isinstance(node, ast.Subscript):
        v = peval(node.value, env)
        if isinstance(v, _Abstract):
            raise NotConst("abstract subscript")
        try:
            if isinstance(node.slice, ast.Slice):
                lo = peval(node.slice.lower, env) if node.slice.lower else None
                hi = peval(node.slice.upper, env) if node.slice.upper else None
                st = peval(node.slice.step, env) if node.slice.step else None
                return v[lo:hi:st]
            return v[peval(node.slice, env)]
        except NotConst:
            raise
        except Exception as e:  # noqa: BLE001
            raise NotConst(str(e))
    raise NotConst(type(node).__name__)


def test_value(expr: ast.AST, facts: Optional[Dict[str, object]]) -> Optional[bool]:
    """True / False / None (undetermined) for a branch test under ``facts``."""
    try:
        return _truth(peval(expr, facts or {}))
    except NotConst:
        return None


# ---- facts along paths -----------------------------------------------------------------------

def written_names(st: ast.AST) -> Set[str]:
    """Dotted names (``self.x`` / ``x``) re-bound, augmented or deleted by a simple statement."""
    out: Set[str] = set()
    if isinstance(st, (ast.Assign, ast.AugAssign, ast.AnnAssign, ast.Delete, ast.For, ast.AsyncFor, ast.With, ast.AsyncWith)):
        for t in assigned_targets(st):
            d = dotted(t)
            if d:
                out.add(d)
            elif isinstance(t, ast.Subscript):
                d = dotted(t.value)
                if d:
                    out.add(d)
    return out


def _mentions(key: str, name: str) -> bool:
    return re.search(r"(?<![\w.])" + re.escape(name) + r"(?![\w])", key) is not None


_MUTATORS = {"append", "extend", "insert", "pop", "popleft", "appendleft", "remove", "clear", "add", "discard", "update",
             "write", "truncate", "seek", "sort", "reverse"}


def _step(node, facts: Tuple[Tuple[str, object], ...]) -> Tuple[Tuple[str, object], ...]:
    if node.ast is None:
        return facts
    st = node.ast
    if node.kind == "for":
        names = written_names(st)
    elif node.kind == "stmt":
        names = written_names(st)
        # in-place mutation through a method call on the named object kills facts about it
        for c in walk_local(st):
            if isinstance(c, ast.Call) and isinstance(c.func, ast.Attribute) and c.func.attr in _MUTATORS:
                d = dotted(c.func.value)
                if d:
                    names.add(d)
    elif node.kind == "test" and any(isinstance(x, ast.NamedExpr) for x in ast.walk(st)):
        d = dict(facts)
        for x in ast.walk(st):
            if isinstance(x, ast.NamedExpr) and isinstance(x.target, ast.Name):
                for k in list(d):
                    if _mentions(k, x.target.id):
                        del d[k]
                try:
                    v = peval(x.value, d)
                    if isinstance(v, (int, str, bytes, bool, type(None), _Abstract, float)):
                        d[x.target.id] = v
                except NotConst:
                    pass
        return tuple(sorted(d.items(), key=lambda kv: kv[0]))
    else:
        return facts
    if not names:
        return facts
    d = dict(facts)
    new: Dict[str, object] = {}
    def _keep(name, v):
        if isinstance(v, (int, str, bytes, bool, type(None), _Abstract, float)):
            new[name] = v
        elif isinstance(v, (list, tuple)):
            if not v:
                new[name] = FALSY
            elif all(isinstance(e, (int, str, bytes, bool, type(None), float)) for e in v):
                new[name] = tuple(v)

    if node.kind == "stmt" and isinstance(st, ast.Assign) and all(dotted(t) for t in st.targets):
        try:
            v = peval(st.value, d)
            for t in st.targets:
                _keep(dotted(t), v)
        except NotConst:
            # X = SomeClass(...): a freshly constructed object is neither None nor falsy
            if isinstance(st.value, ast.Call) and (dotted(st.value.func) or "").split(".")[-1][:1].isupper():
                for t in st.targets:
                    new[dotted(t)] = NONNULL
    elif node.kind == "stmt" and isinstance(st, ast.AugAssign) and dotted(st.target) and dotted(st.target) in d:
        try:
            _keep(dotted(st.target), peval(ast.BinOp(left=st.target, op=st.op, right=st.value), d))
        except NotConst:
            pass
    for k in list(d):
        if any(_mentions(k, n) for n in names):
            del d[k]
    d.update(new)
    return tuple(sorted(d.items(), key=lambda kv: kv[0]))


def _explore(g, facts, srcs, avoid, exc, stop_at=None):
    """BFS over (node, facts).  Returns (prev map, visited states)."""
    f0 = tuple(sorted((facts or {}).items(), key=lambda kv: kv[0]))
    avoid = set(avoid)
    prev = {}
    dq = deque()
    for s in srcs:
        st = (s, f0)
        if st not in prev:
            prev[st] = None
            dq.append(st)
    while dq:
        state = dq.popleft()
        n, f = state
        if stop_at is not None and n in stop_at and prev[state] is not None:
            continue
        node = g.nodes[n]
        want = None
        if node.kind == "test":
            v = test_value(node.ast, dict(f))
            if v is not None:
                want = "T" if v else "F"
        f2 = _step(node, f)
        for b, lab in g.succ[n]:
            if lab == "exc" and not exc:
                continue
            if want is not None and lab in ("T", "F") and lab != want:
                continue
            if b in avoid:
                continue
            ns = (b, f2)
            if ns in prev:
                continue
            prev[ns] = state
            dq.append(ns)
    return prev


def reach_under(g, facts: Optional[Dict[str, object]], srcs: Optional[Iterable[int]] = None, avoid: Iterable[int] = (),
                exc: bool = False) -> Set[int]:
    """Nodes reachable from ``srcs`` (default: entry) along branch outcomes consistent with ``facts``
    (facts hold on arrival at the sources)."""
    prev = _explore(g, facts, list(srcs) if srcs is not None else [g.entry], avoid, exc)
    return {n for n, _ in prev}


def path_under(g, facts, dsts: Iterable[int], srcs: Optional[Iterable[int]] = None, avoid: Iterable[int] = (),
               exc: bool = False) -> Optional[List[int]]:
    dsts = set(dsts)
    srcs = list(srcs) if srcs is not None else [g.entry]
    prev = _explore(g, facts, srcs, avoid, exc)
    best = None
    for state in prev:
        if state[0] in dsts and (prev[state] is not None or state[0] in srcs):
            path = []
            s = state
            while s is not None:
                path.append(s[0])
                s = prev[s]
            path.reverse()
            if best is None or len(path) < len(best):
                best = path
    return best


def facts_at(g, facts, nodes: Iterable[int], srcs: Optional[Iterable[int]] = None, exc: bool = False) -> List[Dict[str, object]]:
    """The fact sets with which the given nodes can be reached (one dict per distinct arrival state)."""
    nodes = set(nodes)
    prev = _explore(g, facts, list(srcs) if srcs is not None else [g.entry], (), exc)
    return [dict(f) for n, f in prev if n in nodes]


def returns_under(g, facts, srcs: Optional[Iterable[int]] = None) -> List[Tuple[int, object]]:
    """(node, value) for every way the function can end normally from ``srcs`` under ``facts``: the value of the returned expression under the facts on
    arrival (``NotConst`` class itself when not determined); falling off the end is (exit, None)."""
    prev = _explore(g, facts, list(srcs) if srcs is not None else [g.entry], (), False)
    out = []
    for (n, f), before in prev.items():
        node = g.nodes[n]
        if node.kind == "stmt" and isinstance(node.ast, ast.Return):
            if node.ast.value is None:
                out.append((n, None))
                continue
            try:
                out.append((n, peval(node.ast.value, dict(f))))
            except NotConst:
                out.append((n, NotConst))
        elif n == g.exit and before is not None and not (g.nodes[before[0]].kind == "stmt" and isinstance(g.nodes[before[0]].ast, ast.Return)):
            out.append((n, None))
    return out


def undecided_tests(g, facts, srcs: Optional[Iterable[int]] = None, avoid: Iterable[int] = ()) -> List[int]:
    """Test nodes reached (from ``srcs`` under ``facts``) whose outcome the facts do not determine.  Empty = the fact set is a
    complete description of everything the explored region branches on (the basis of a finite-exhaustive claim)."""
    prev = _explore(g, facts, list(srcs) if srcs is not None else [g.entry], avoid, False)
    out = []
    for n, f in prev:
        node = g.nodes[n]
        if node.kind == "test" and test_value(node.ast, dict(f)) is None and n not in out:
            out.append(n)
    return out


def must_pass_under(g, facts, via: Iterable[int], srcs: Optional[Iterable[int]] = None, to: Optional[Iterable[int]] = None,
                    exc: bool = False) -> Optional[List[int]]:
    """Under ``facts`` every path from ``srcs`` to ``to`` (default: normal exit) passes a ``via`` node.
    None when it holds, else a witness path avoiding ``via``."""
    to = set(to) if to is not None else ({g.exit} | ({g.raise_exit} if exc else set()))
    via = set(via)
    if srcs is not None:
        srcs = [s for s in srcs if s not in via]     # a source that is itself a via node has already passed
        if not srcs:
            return None
    return path_under(g, facts, to, srcs=srcs, avoid=via, exc=exc)


def _resolved_test(g, t: int):
    """(expression, node where it is evaluated) of test node ``t``; a bare local name assigned exactly once,
    on every path to the test, stands for the assigned expression (``done = a and b`` ... ``if done:``)."""
    e = g.nodes[t].ast
    if isinstance(e, ast.Name):
        defs = [n for n in g.nodes if n.kind == "stmt" and g.reachable(n.id) and isinstance(n.ast, ast.Assign) and len(n.ast.targets) == 1
                and isinstance(n.ast.targets[0], ast.Name) and n.ast.targets[0].id == e.id]
        others = [n for n in g.nodes if n.ast is not None and n.kind in ("stmt", "for", "with") and n not in defs and e.id in written_names(n.ast)]
        mutated = any(isinstance(c, ast.Call) and isinstance(c.func, ast.Attribute) and c.func.attr in _MUTATORS and dotted(c.func.value) == e.id
                      for n in g.nodes if n.ast is not None for c in walk_local(n.ast))          # a list emptied by pop() is not what it was when sampled
        if len(defs) == 1 and not others and not mutated and g.dominates(defs[0].id, t):
            return defs[0].ast.value, defs[0].id
    return e, t


def _implied_by_evaluation(g, n, good, bad, after) -> bool:
    """The same question decided by following the paths: with the bad facts holding on entry (or right after an ``after`` node) node ``n`` is not
    reached, with the good facts it is.  Locals holding a sampled attribute or a named condition, guard clauses and single-exit shapes are all
    just paths here."""
    srcs = [s for a in after for s, l in g.succ[a] if l != "exc"] if after else None
    if after and not srcs:
        return False
    if not bad:
        return False
    for f in bad:
        if n in reach_under(g, f, srcs=srcs):
            return False
    for f in good:
        if n not in reach_under(g, f, srcs=srcs):
            return False
    return True


def implied(g, n: int, good: Sequence[Dict[str, object]], bad: Sequence[Dict[str, object]], after: Iterable[int] = ()) -> bool:
    """Node ``n`` is dominated by a test edge that every ``good`` fact-set takes and every ``bad`` fact-set
    does not take (the test is decided, with the opposite outcome, under bad).  With ``after``, the test must
    be evaluated at a point dominated by one of those nodes (i.e. on the state they produce)."""
    after = list(after)
    if _implied_by_evaluation(g, n, good, bad, after):
        return True
    for t, lab in g.edge_guards(n):
        pol = lab == "T"
        cands = [(g.nodes[t].ast, t)]
        r = _resolved_test(g, t)
        if r[1] != t:
            cands.append(r)
        for e, at in cands:
            # the test fails (is decided, with the other outcome) under every bad fact-set; under the good ones it succeeds or - for a
            # compound test that also reads other state - is not decided by the given facts alone
            if all(test_value(e, f) in (pol, None) for f in good) and all(test_value(e, f) is (not pol) for f in bad):
                if not after or any(g.dominates(a, at) for a in after):
                    return True
    return False


# ---- AST predicates ------------------------------------------------------------------------------

def is_self_attr(node, name: Optional[str] = None, recv: str = "self") -> bool:
    return (isinstance(node, ast.Attribute) and isinstance(node.value, ast.Name) and node.value.id == recv
            and (name is None or node.attr == name))


def const_value_is(node, pred: Callable[[object], bool]) -> bool:
    try:
        return bool(pred(peval(node, {})))
    except NotConst:
        return False


def self_assigns(g, attr: str, value_pred: Optional[Callable[[ast.AST], bool]] = None, recv: str = "self") -> List[int]:
    """CFG statement nodes assigning ``recv.attr`` (plain or tuple assignment, AugAssign excluded)."""
    out = []
    for n in g.nodes:
        if n.kind != "stmt" or not g.reachable(n.id) or not isinstance(n.ast, (ast.Assign, ast.AnnAssign)):
            continue
        st = n.ast
        if isinstance(st, ast.AnnAssign):
            if st.value is not None and is_self_attr(st.target, attr, recv) and (value_pred is None or value_pred(st.value)):
                out.append(n.id)
            continue
        for tgt in st.targets:
            if is_self_attr(tgt, attr, recv):
                if value_pred is None or value_pred(st.value):
                    out.append(n.id)
                    break
            elif isinstance(tgt, (ast.Tuple, ast.List)) and isinstance(st.value, (ast.Tuple, ast.List)) and len(tgt.elts) == len(st.value.elts):
                hit = False
                for t, v in zip(tgt.elts, st.value.elts):
                    if is_self_attr(t, attr, recv) and (value_pred is None or value_pred(v)):
                        hit = True
                if hit:
                    out.append(n.id)
                    break
            elif isinstance(tgt, (ast.Tuple, ast.List)) and any(is_self_attr(t, attr, recv) for t in tgt.elts):
                if value_pred is None:
                    out.append(n.id)
                    break
    return out


def _local_bindings(func) -> Dict[str, List[Optional[str]]]:
    """{local name: [text of the expression bound by each binding of the name, None for a binding that is not a plain (tuple-)assignment]}"""
    defs: Dict[str, List[Optional[str]]] = {}
    for st in walk_local(func):
        if isinstance(st, ast.NamedExpr):
            defs.setdefault(st.target.id, []).append(src(st.value))
        elif isinstance(st, (ast.Assign, ast.AugAssign, ast.AnnAssign, ast.For, ast.AsyncFor, ast.With, ast.AsyncWith)):
            pairs = []
            if isinstance(st, ast.Assign):
                for t in st.targets:
                    if isinstance(t, (ast.Tuple, ast.List)) and isinstance(st.value, (ast.Tuple, ast.List)) and len(t.elts) == len(st.value.elts):
                        pairs.extend(zip(t.elts, st.value.elts))
                    else:
                        pairs.append((t, st.value))
            for t, v in pairs:
                if isinstance(t, ast.Name):
                    defs.setdefault(t.id, []).append(src(v))
            done = {t.id for t, _ in pairs if isinstance(t, ast.Name)}
            for t in assigned_targets(st):
                for x in ast.walk(t):
                    if isinstance(x, ast.Name) and isinstance(x.ctx, ast.Store) and x.id not in done:
                        defs.setdefault(x.id, []).append(None)
    for a in getattr(getattr(func, "args", None), "args", []) or []:
        defs.setdefault(a.arg, []).append(None)
    return defs


def aliases(func, expr: str) -> Set[str]:
    """Local names that only ever hold a sample of ``expr``: every binding of the name in ``func`` is a plain ``name = expr`` (also as an element
    of a tuple assignment) or ``name = <another such name>``."""
    defs = _local_bindings(func)
    out: Set[str] = set()
    changed = True
    while changed:
        changed = False
        for n, vs in defs.items():
            if n not in out and vs and all(v is not None and (v == expr or v in out or v == n) for v in vs) and any(v != n for v in vs):
                out.add(n)
                changed = True
    return out


def sampled_attribute(func, name: str) -> Optional[str]:
    """``self.x`` when the local ``name`` only ever holds a sample of that attribute, else None"""
    defs = _local_bindings(func)
    seen = set()
    cur = name
    while cur not in seen:
        seen.add(cur)
        vs = [v for v in defs.get(cur, []) if v != cur]
        if not vs or any(v is None for v in vs) or len(set(vs)) != 1:
            return None
        v = vs[0]
        if re.fullmatch(r"self\.\w+", v):
            return v if name in aliases(func, v) else None
        if not re.fullmatch(r"\w+", v):
            return None
        cur = v
    return None


def _callee(g, x: ast.Call) -> Optional[str]:
    """dotted callee; a receiver that is a local sample of an attribute (``p = self.producer`` ... ``p.stop()``) is read as the attribute"""
    d = call_name(x)
    if d and "." in d:
        head, rest = d.split(".", 1)
        if head not in ("self", "cls"):
            cache = g.__dict__.setdefault("_alias_cache", {})
            if head not in cache:
                cache[head] = sampled_attribute(g.func, head)
            if cache[head]:
                return cache[head] + "." + rest
    return d


def call_nodes(g, *names: str) -> List[int]:
    """CFG nodes containing a call whose dotted callee is one of ``names`` (".x" = any receiver)."""
    def pred(x):
        if not isinstance(x, ast.Call):
            return False
        d = _callee(g, x)
        for nm in names:
            if nm.startswith("."):
                if isinstance(x.func, ast.Attribute) and x.func.attr == nm[1:]:
                    return True
            elif d == nm:
                return True
        return False
    return g.find(pred)


def calls_with(g, *names: str) -> List[Tuple[int, ast.Call]]:
    out = []
    for n in call_nodes(g, *names):
        node = g.nodes[n]
        roots = [node.ast] if node.kind not in ("for", "with") else (
            [node.ast.iter] if node.kind == "for" else [it.context_expr for it in node.ast.items])
        for r in roots:
            for x in walk_local(r):
                if isinstance(x, ast.Call):
                    d = _callee(g, x)
                    for nm in names:
                        if (nm.startswith(".") and isinstance(x.func, ast.Attribute) and x.func.attr == nm[1:]) or d == nm:
                            out.append((n, x))
                            break
    return out


def value_returned(g, n: int, call: ast.Call) -> bool:
    """The value of ``call`` (evaluated in CFG node n) is what the function returns on every normal path from n:
    ``return call(...)`` or ``v = call(...)`` followed on every path by ``return v``."""
    st = g.nodes[n].ast
    if isinstance(st, ast.Return) and st.value is call:
        return True
    if isinstance(st, ast.Assign) and len(st.targets) == 1 and isinstance(st.targets[0], ast.Name) and st.value is call:
        v = st.targets[0].id
        rets = [x.id for x in g.nodes if x.kind == "stmt" and isinstance(x.ast, ast.Return) and x.ast.value is not None and src(x.ast.value) == v]
        return bool(rets) and g.must_pass([n], rets) is None
    return False


def local_def(func: ast.AST, node: ast.AST) -> ast.AST:
    """A Name bound exactly once in ``func`` by a plain assignment stands for the assigned expression."""
    if isinstance(node, ast.Name):
        defs = [st.value for st in walk_local(func) if isinstance(st, ast.Assign) and len(st.targets) == 1
                and isinstance(st.targets[0], ast.Name) and st.targets[0].id == node.id]
        defs += [st.value for st in walk_local(func) if isinstance(st, ast.NamedExpr) and isinstance(st.target, ast.Name) and st.target.id == node.id]
        if len(defs) == 1:
            return defs[0]
    return node


def succ_of(g, n: int, label) -> List[int]:
    return [d for d, l in g.succ[n] if l == label]


def no_exc(a, b, l):
    return l != "exc"


def handler_names(h: ast.ExceptHandler) -> List[str]:
    if h.type is None:
        return ["BaseException"]
    es = h.type.elts if isinstance(h.type, ast.Tuple) else [h.type]
    return [(dotted(e) or src(e)).split(".")[-1] for e in es]


_EXC_RANK = {"BaseException": 2, "Exception": 1}


def covers(h: ast.ExceptHandler, minimum: str) -> bool:
    """The handler catches at least ``minimum`` ("Exception" or "BaseException")."""
    need = _EXC_RANK[minimum]
    return any(_EXC_RANK.get(n, 0) >= need for n in handler_names(h))


def first_arg(call: ast.Call) -> Optional[ast.AST]:
    return call.args[0] if call.args else None


def name_of(node) -> Optional[str]:
    return node.id if isinstance(node, ast.Name) else None


def slice_parts(node) -> Optional[Tuple[ast.AST, Optional[ast.AST], Optional[ast.AST]]]:
    """``v[a:b]`` -> (v, a, b); None for anything else (a step makes it None too)."""
    if isinstance(node, ast.Subscript) and isinstance(node.slice, ast.Slice) and node.slice.step is None:
        return node.value, node.slice.lower, node.slice.upper
    return None


# =====================================================================================================================
# MiniVM: a concrete interpreter for a small, explicit subset of Python, applied to the *source* of a repository class
# (AST from sa.source.Module).  It exists to evaluate a method as a step function over a sequence of calls, threading
# the object's attributes (whatever they are called) from one call to the next.  Nothing of the repository is imported
# or executed by CPython: class bodies, methods and module-level functions are walked node by node; only whitelisted
# pure stdlib objects (bytes/str/int/list/dict/tuple, re, struct, math, binascii, io.BytesIO) are operated natively.
# Anything outside the subset raises VMError (the caller turns it into an AnalysisError - never a verdict).
# =====================================================================================================================
import binascii as _binascii
import io as _io


class VMError(Exception):
    """construct outside the interpreter's subset / step budget exhausted"""


class VMRaise(Exception):
    """an exception raised by interpreted code: ``exc`` is a VMExc (class defined in the analysed module)"""

    def __init__(self, exc):
        Exception.__init__(self, repr(exc))
        self.exc = exc


class _Ret(Exception):
    def __init__(self, v):
        self.v = v


class _Brk(Exception):
    pass


class _Cont(Exception):
    pass


class Opaque:
    """stands for anything imported from outside the analysed module (twisted.*, zope.*): attribute access and calls yield
    Opaque/None and have no effect"""

    def __init__(self, name):
        self._name = name

    def __repr__(self):
        return f"<opaque {self._name}>"


class _Escape(Exception):
    """a return / break of the CONSUMER's body, on its way out through the frames of the generator that is feeding it"""

    def __init__(self, inner):
        self.inner = inner


class VMGenerator:
    """A call of an interpreted generator function.  Nothing runs until it is consumed; it is consumed by DRIVING it: the body is interpreted and
    every ``yield`` hands its value to the consumer's callback (the body of the ``for`` / ``with`` that uses it), which runs to its end before the
    generator continues - the same interleaving as real lazy iteration, without needing coroutines in the interpreter."""

    def __init__(self, vm, func, env):
        self.vm, self.func, self.env, self.started = vm, func, env, False

    def drive(self, on_yield):
        if self.started:
            raise VMError("generator consumed twice")
        self.started = True
        vm = self.vm
        vm._yield_stack.append(on_yield)
        try:
            vm.block(self.func.node.body, self.env, self.func.mod, self.func.owner)
        except _Ret:
            pass
        finally:
            vm._yield_stack.pop()

    def collect(self):
        out = []
        self.drive(out.append)
        return out


class VMClass:
    def __init__(self, vmmod, node: ast.ClassDef):
        self.mod, self.node, self.name = vmmod, node, node.name
        self._cache: Dict[str, object] = {}

    def bases(self):
        out = []
        for b in self.node.bases:
            v = None
            if isinstance(b, ast.Name):
                v = self.mod.globals_lookup(b.id, missing=None)
            out.append(v if isinstance(v, VMClass) else None)
        return [b for b in out if b is not None]

    def mro(self):
        seen, out = set(), []

        def rec(c):
            if c.name in seen:
                return
            seen.add(c.name)
            out.append(c)
            for b in c.bases():
                rec(b)
        rec(self)
        return out

    def own(self, name):
        """('func', FunctionDef) / ('expr', ast.expr) / None for a name defined directly in this class body"""
        found = None
        stack = list(self.node.body)
        while stack:
            n = stack.pop(0)
            if isinstance(n, (ast.FunctionDef, ast.AsyncFunctionDef)) and n.name == name:
                found = ("func", n)
            elif isinstance(n, ast.Assign):
                for t in n.targets:
                    if isinstance(t, ast.Name) and t.id == name:
                        found = ("expr", n.value)
                    elif isinstance(t, (ast.Tuple, ast.List)):
                        for i, e in enumerate(t.elts):
                            if isinstance(e, ast.Name) and e.id == name:
                                found = ("item", (n.value, i))
            elif isinstance(n, ast.AnnAssign) and isinstance(n.target, ast.Name) and n.target.id == name and n.value is not None:
                found = ("expr", n.value)
            elif isinstance(n, (ast.If, ast.Try)):
                stack = list(n.body) + list(getattr(n, "orelse", [])) + stack
        return found

    def find(self, name):
        for c in self.mro():
            o = c.own(name)
            if o is not None:
                return c, o
        return None

    def __repr__(self):
        return f"<class {self.name}>"


class VMFunc:
    def __init__(self, vmmod, node, owner: Optional[VMClass] = None):
        self.mod, self.node, self.owner = vmmod, node, owner

    def __repr__(self):
        return f"<function {getattr(self.node, 'name', '<lambda>')}>"


class VMBound:
    def __init__(self, obj, func: VMFunc):
        self.obj, self.func = obj, func


class VMObj:
    def __init__(self, cls: VMClass):
        self.cls = cls
        self.attrs: Dict[str, object] = {}

    def __repr__(self):
        return f"<{self.cls.name} instance>"


class VMExc(VMObj):
    def __init__(self, cls, args):
        VMObj.__init__(self, cls)
        self.args = tuple(args)

    def names(self):
        out = []
        for c in self.cls.mro():
            out.append(c.name)
            for b in c.node.bases:
                d = dotted(b)
                if d:
                    out.append(d.split(".")[-1])
        return out


_NATIVE_TYPES = (bytes, bytearray, str, int, float, bool, list, tuple, dict, set, frozenset, type(None), range,
                 re.Pattern, re.Match, _io.BytesIO, memoryview)
_BUILTINS = {
    "len": len, "int": int, "str": str, "bytes": bytes, "bytearray": bytearray, "bool": bool, "list": list, "tuple": tuple,
    "dict": dict, "set": set, "range": range, "min": min, "max": max, "abs": abs, "ord": ord, "chr": chr, "sum": sum,
    "sorted": sorted, "reversed": reversed, "enumerate": enumerate, "zip": zip, "repr": repr, "divmod": divmod, "any": any,
    "all": all, "memoryview": memoryview, "float": float, "iter": iter, "next": next, "getattr": getattr, "hasattr": hasattr,
    "isinstance": isinstance, "map": map, "filter": filter,
    "True": True, "False": False, "None": None,
}
_BUILTIN_EXC = {n: getattr(__import__("builtins"), n) for n in (
    "BaseException", "Exception", "ValueError", "TypeError", "KeyError", "IndexError", "AttributeError", "NotImplementedError",
    "AssertionError", "OverflowError", "ZeroDivisionError", "RuntimeError", "StopIteration", "ArithmeticError", "LookupError",
    "UnicodeDecodeError", "UnicodeEncodeError", "UnicodeError", "OSError")}
_STDLIB = {"math": math, "re": re, "struct": struct, "binascii": _binascii}
_STDLIB_FROM = {("io", "BytesIO"): _io.BytesIO, ("struct", "calcsize"): struct.calcsize, ("struct", "pack"): struct.pack,
                ("struct", "unpack"): struct.unpack, ("struct", "error"): struct.error, ("math", "ceil"): math.ceil,
                ("math", "log10"): math.log10, ("re", "compile"): re.compile}


# pure alternative constructors / class-level functions of the built-in types
_TYPE_CALLABLES = {(int, "from_bytes"): int.from_bytes, (bytes, "fromhex"): bytes.fromhex, (bytearray, "fromhex"): bytearray.fromhex,
                   (dict, "fromkeys"): dict.fromkeys, (bytes, "maketrans"): bytes.maketrans, (str, "maketrans"): str.maketrans}


class _Link:
    """lazy reference to a global of another interpreted module"""

    def __init__(self, rel, name):
        self.rel, self.name = rel, name


class VMModule:
    def __init__(self, module, vm):
        self.module, self.vm = module, vm
        self._g: Dict[str, object] = {}
        self._lazy: Dict[str, ast.expr] = {}
        stack = list(module.tree.body)
        while stack:
            n = stack.pop(0)
            if isinstance(n, (ast.FunctionDef, ast.AsyncFunctionDef)):
                self._g[n.name] = VMFunc(self, n)
            elif isinstance(n, ast.ClassDef):
                self._g[n.name] = VMClass(self, n)
            elif isinstance(n, ast.Assign):
                for t in n.targets:
                    if isinstance(t, ast.Name):
                        self._lazy[t.id] = n.value
            elif isinstance(n, ast.AnnAssign) and isinstance(n.target, ast.Name) and n.value is not None:
                self._lazy[n.target.id] = n.value
            elif isinstance(n, ast.Import):
                for a in n.names:
                    top = a.name.split(".")[0]
                    self._g[a.asname or top] = _STDLIB.get(a.name if a.asname else top, Opaque(a.name))
            elif isinstance(n, ast.ImportFrom):
                key = "." * (n.level or 0) + (n.module or "")
                for a in n.names:
                    if key in vm.siblings:                                     # from ._v1parser import V1Parser
                        self._g[a.asname or a.name] = _Link(key, a.name)
                    elif key + a.name in vm.siblings and set(key) <= {"."}:   # from . import _info
                        self._g[a.asname or a.name] = _Link(key + a.name, None)
                    else:
                        self._g[a.asname or a.name] = _STDLIB_FROM.get((n.module or "", a.name), _STDLIB.get(a.name) if key == "" else Opaque(f"{key}.{a.name}"))
            elif isinstance(n, (ast.If, ast.Try)):
                stack = list(n.body) + list(getattr(n, "orelse", [])) + stack

    def globals_lookup(self, name, missing=VMError):
        if name in self.vm.overrides:
            return self.vm.overrides[name]
        if name in self._g:
            v = self._g[name]
            if isinstance(v, _Link):
                other = self.vm.sibling(v.rel)
                v = other if v.name is None else other.globals_lookup(v.name)
                self._g[name] = v
            return v
        if name in self._lazy:
            expr = self._lazy.pop(name)
            self._g[name] = self.vm.eval(expr, {}, self, None)
            return self._g[name]
        if name in _BUILTINS:
            return _BUILTINS[name]
        if name in _BUILTIN_EXC:
            return _BUILTIN_EXC[name]
        if missing is VMError:
            raise VMError(f"unknown name {name}")
        return missing


class MiniVM:
    _yield_stack: List[Callable] = []

    def __init__(self, module, hooks=None, budget: int = 400000, siblings=None, overrides=None):
        self._yield_stack = []
        """``hooks``: {method name: callable(vm, obj, *args)} consulted before the class's own method.
        ``siblings``: {import key as written in the source (".mod", "pkg.mod"): sa.source.Module} - other repository modules that
        are interpreted as well when imported from (everything else imported is Opaque).
        ``overrides``: {global name: Python stand-in} replacing that global in every interpreted module (harness stubs for things
        defined outside the analysed modules, e.g. an address class recorder or a VMContext factory)."""
        self.budget = budget
        self.hooks = dict(hooks or {})
        self.siblings = dict(siblings or {})
        self.overrides = dict(overrides or {})
        self._sib: Dict[str, VMModule] = {}
        self.mod = VMModule(module, self)

    def sibling(self, key) -> "VMModule":
        if key not in self._sib:
            self._sib[key] = VMModule(self.siblings[key], self)
        return self._sib[key]

    # ---- objects -------------------------------------------------------------------------------------------
    def cls(self, name) -> VMClass:
        c = self.mod.globals_lookup(name)
        if not isinstance(c, VMClass):
            raise VMError(f"{name} is not a class of the module")
        return c

    def new(self, cls: VMClass, *args):
        obj = VMExc(cls, args) if self._is_exc_class(cls) else VMObj(cls)
        f = cls.find("__init__")
        if f and f[1][0] == "func":
            self.call(VMBound(obj, VMFunc(f[0].mod, f[1][1], f[0])), list(args), {})
        return obj

    def _is_exc_class(self, cls):
        for c in cls.mro():
            for b in c.node.bases:
                d = (dotted(b) or "").split(".")[-1]
                if d in _BUILTIN_EXC:
                    return True
        return False

    def class_attr(self, cls: VMClass, name):
        f = cls.find(name)
        if f is None:
            raise AttributeError(name)
        owner, (kind, node) = f
        if kind == "func":
            return VMFunc(owner.mod, node, owner)
        key = name
        if key not in owner._cache:
            scope = _ClassScope(self, owner)
            if kind == "expr":
                owner._cache[key] = self.eval(node, scope, owner.mod, None)
            else:
                owner._cache[key] = list(self.eval(node[0], scope, owner.mod, None))[node[1]]
        return owner._cache[key]

    def getattr(self, v, name):
        if isinstance(v, VMObj):
            if name == "__dict__":
                return v.attrs
            if name == "__class__":
                return v.cls
            if name in v.attrs:
                return v.attrs[name]
            if name in self.hooks:
                h = self.hooks[name]
                return lambda *a, _h=h, _o=v: _h(self, _o, *a)
            if name == "args" and isinstance(v, VMExc):
                return v.args
            try:
                a = self.class_attr(v.cls, name)
            except AttributeError:
                raise VMRaise_native(AttributeError(f"{v.cls.name} object has no attribute {name}"))
            return self._bind(a, v, v.cls)
        if isinstance(v, VMClass):
            if name == "__name__":
                return v.name
            try:
                a = self.class_attr(v, name)
            except AttributeError:
                raise VMRaise_native(AttributeError(name))
            return self._bind(a, None, v)
        if isinstance(v, Opaque):
            return Opaque(f"{v._name}.{name}")
        if isinstance(v, VMModule):
            return v.globals_lookup(name)
        if isinstance(v, _NATIVE_TYPES) or v in _STDLIB.values() or isinstance(v, VMStub):
            if name.startswith("__") and name not in ("__class__", "__name__"):
                raise VMError(f"dunder access .{name}")
            return getattr(v, name)
        if isinstance(v, type) and (v, name) in _TYPE_CALLABLES:
            return _TYPE_CALLABLES[(v, name)]
        raise VMError(f"attribute .{name} of {type(v).__name__}")

    @staticmethod
    def _decorators(func):
        return {(dotted(d) or "").split(".")[-1] for d in getattr(func.node, "decorator_list", [])}

    def _bind(self, a, obj, cls):
        if not isinstance(a, VMFunc):
            return a
        decs = self._decorators(a)
        if "staticmethod" in decs:
            return a
        if "classmethod" in decs:
            return VMBound(cls, a)
        if "property" in decs and obj is not None:
            return self._run(a, [obj], {})
        return VMBound(obj, a) if obj is not None else a

    def setattr(self, v, name, val):
        if isinstance(v, VMObj):
            v.attrs[name] = val
        elif isinstance(v, VMStub):
            setattr(v, name, val)
        elif isinstance(v, Opaque):
            pass
        else:
            raise VMError(f"assignment to attribute of {type(v).__name__}")

    # ---- calls ---------------------------------------------------------------------------------------------------
    def call_method(self, obj, name, *args, skip_hook=False):
        if not skip_hook and name in self.hooks:
            return self.hooks[name](self, obj, *args)
        a = self.class_attr(obj.cls, name)
        return self.call(VMBound(obj, a), list(args), {})

    def call(self, fn, args, kwargs):
        if isinstance(fn, VMBound):
            return self._run(fn.func, [fn.obj] + list(args), kwargs)
        if isinstance(fn, VMFunc):
            return self._run(fn, list(args), kwargs)
        if isinstance(fn, VMClass):
            return self.new(fn, *args)
        if isinstance(fn, Opaque):
            return None
        if fn is isinstance:
            return self._isinstance(*args)
        if fn is map or fn is filter:
            seqs = [a.collect() if isinstance(a, VMGenerator) else list(a) for a in args[1:]]
            if fn is map:
                return [self.call(args[0], list(xs), {}) for xs in zip(*seqs)]
            return [x for x in seqs[0] if (self.truth(self.call(args[0], [x], {})) if args[0] is not None else self.truth(x))]
        if fn is getattr:
            try:
                return self.getattr(args[0], args[1])
            except _NativeRaise as e:
                if len(args) == 3 and isinstance(e.native, AttributeError):
                    return args[2]
                raise
            except AttributeError:
                if len(args) == 3:
                    return args[2]
                raise
        if fn is hasattr:
            try:
                self.getattr(args[0], args[1])
                return True
            except (_NativeRaise, AttributeError):
                return False
        if fn in _BUILTIN_EXC.values():
            return fn(*args)
        if callable(fn):
            mod = getattr(fn, "__module__", None)
            selfobj = getattr(fn, "__self__", None)
            ok = fn in _BUILTINS.values() or fn in _STDLIB_FROM.values() or any(fn == t for t in _TYPE_CALLABLES.values()) or mod in ("math", "re", "_struct", "struct", "binascii", "_sre") \
                or isinstance(selfobj, _NATIVE_TYPES) or isinstance(selfobj, VMStub) or selfobj in _STDLIB.values() \
                or getattr(fn, "__name__", "") == "<lambda>"
            if not ok:
                raise VMError(f"call of non-whitelisted callable {fn!r}")
            if any(isinstance(a, VMGenerator) for a in args):
                args = [a.collect() if isinstance(a, VMGenerator) else a for a in args]
            if any(isinstance(a, (VMObj, VMClass, Opaque)) for a in args) and not (isinstance(selfobj, (VMStub, list, dict)) or getattr(fn, "__name__", "") == "<lambda>"):
                raise VMError(f"interpreted object passed to native callable {fn!r}")
            return fn(*args, **kwargs)
        raise VMError(f"call of {type(fn).__name__}")

    def _isinstance(self, v, t):
        ts = t if isinstance(t, tuple) else (t,)
        for x in ts:
            if isinstance(x, VMClass):
                if isinstance(v, VMObj) and x.name in [c.name for c in v.cls.mro()]:
                    return True
            elif isinstance(x, type):
                if isinstance(v, x) and not isinstance(v, (VMObj, Opaque)):
                    return True
            elif isinstance(x, Opaque):
                continue
            else:
                raise VMError("isinstance with unsupported type")
        return False

    def _run(self, func: VMFunc, args, kwargs):
        node = func.node
        a = node.args
        if a.vararg or a.kwarg or a.kwonlyargs or a.posonlyargs:
            raise VMError(f"signature of {node.name} outside the subset")
        names = [x.arg for x in a.args]
        env: Dict[str, object] = {}
        if len(args) > len(names):
            raise VMRaise_native(TypeError(f"{node.name}() takes {len(names)} positional arguments"))
        for n_, v in zip(names, args):
            env[n_] = v
        for k, v in kwargs.items():
            if k not in names or k in env:
                raise VMRaise_native(TypeError(f"{node.name}() unexpected argument {k}"))
            env[k] = v
        defaults = a.defaults
        for n_, d in zip(names[len(names) - len(defaults):], defaults):
            if n_ not in env:
                env[n_] = self.eval(d, {}, func.mod, None)
        missing = [n_ for n_ in names if n_ not in env]
        if missing:
            raise VMRaise_native(TypeError(f"{node.name}() missing {missing}"))
        if isinstance(node, ast.Lambda):
            return self.eval(node.body, env, func.mod, func.owner)
        is_gen = getattr(node, "_vm_is_generator", None)
        if is_gen is None:
            is_gen = node._vm_is_generator = any(isinstance(x, (ast.Yield, ast.YieldFrom)) for x in walk_local(node))
        if is_gen:
            return VMGenerator(self, func, env)
        try:
            self.block(node.body, env, func.mod, func.owner)
        except _Ret as r:
            return r.v
        return None

    def _consume(self, gen, body_fn):
        """run ``body_fn(value)`` for every value ``gen`` yields; returns True when the consumer broke out.  A return / break inside the consumer
        travels through the generator's frames (running its finally blocks) as an _Escape."""
        def on_yield(v):
            self._tick()
            saved = self._yield_stack
            self._yield_stack = saved[:-1]          # the consumer's own yields (if it is a generator itself) go to ITS consumer
            try:
                body_fn(v)
            except _Cont:
                pass
            except (_Ret, _Brk) as e:
                raise _Escape(e)
            finally:
                self._yield_stack = saved
        try:
            gen.drive(on_yield)
        except _Escape as e:
            if isinstance(e.inner, _Brk):
                return True
            raise e.inner
        return False

    # ---- statements ---------------------------------------------------------------------------------------------------
    def block(self, stmts, env, mod, owner):
        for st in stmts:
            self.stmt(st, env, mod, owner)

    def _tick(self):
        self.budget -= 1
        if self.budget < 0:
            raise VMError("step budget exhausted (non-terminating loop?)")

    def assign(self, tgt, val, env, mod, owner):
        if isinstance(tgt, ast.Name):
            env[tgt.id] = val
        elif isinstance(tgt, ast.Attribute):
            self.setattr(self.eval(tgt.value, env, mod, owner), tgt.attr, val)
        elif isinstance(tgt, (ast.Tuple, ast.List)):
            try:
                vals = list(val)
            except TypeError as e:
                raise VMRaise_native(e)
            stars = [i for i, e in enumerate(tgt.elts) if isinstance(e, ast.Starred)]
            if stars:
                if len(stars) > 1:
                    raise VMError("two starred targets")
                i, after = stars[0], len(tgt.elts) - stars[0] - 1
                if len(vals) < len(tgt.elts) - 1:
                    raise VMRaise_native(ValueError(f"not enough values to unpack (expected at least {len(tgt.elts) - 1}, got {len(vals)})"))
                for t, v in zip(tgt.elts[:i], vals[:i]):
                    self.assign(t, v, env, mod, owner)
                self.assign(tgt.elts[i].value, vals[i:len(vals) - after], env, mod, owner)
                for t, v in zip(tgt.elts[i + 1:], vals[len(vals) - after:]):
                    self.assign(t, v, env, mod, owner)
                return
            if len(vals) != len(tgt.elts):
                raise VMRaise_native(ValueError(f"{'too many' if len(vals) > len(tgt.elts) else 'not enough'} values to unpack (expected {len(tgt.elts)})"))
            for t, v in zip(tgt.elts, vals):
                self.assign(t, v, env, mod, owner)
        elif isinstance(tgt, ast.Subscript):
            c = self.eval(tgt.value, env, mod, owner)
            if not isinstance(c, (list, dict, bytearray)):
                raise VMError("item assignment on unsupported container")
            c[self._index(tgt.slice, env, mod, owner)] = val
        else:
            raise VMError(f"assignment target {type(tgt).__name__}")

    def stmt(self, st, env, mod, owner):
        self._tick()
        if isinstance(st, ast.Expr):
            self.eval(st.value, env, mod, owner)
        elif isinstance(st, ast.Assign):
            v = self.eval(st.value, env, mod, owner)
            for t in st.targets:
                self.assign(t, v, env, mod, owner)
        elif isinstance(st, ast.AnnAssign):
            if st.value is not None:
                self.assign(st.target, self.eval(st.value, env, mod, owner), env, mod, owner)
        elif isinstance(st, ast.AugAssign):
            cur = self.eval(st.target, env, mod, owner)
            v = self._binop(st.op, cur, self.eval(st.value, env, mod, owner))
            self.assign(st.target, v, env, mod, owner)
        elif isinstance(st, ast.If):
            self.block(st.body if self.truth(self.eval(st.test, env, mod, owner)) else st.orelse, env, mod, owner)
        elif isinstance(st, ast.While):
            broke = False
            while self.truth(self.eval(st.test, env, mod, owner)):
                self._tick()
                try:
                    self.block(st.body, env, mod, owner)
                except _Brk:
                    broke = True
                    break
                except _Cont:
                    continue
            if not broke:
                self.block(st.orelse, env, mod, owner)
        elif isinstance(st, ast.For):
            it = self.eval(st.iter, env, mod, owner)
            if isinstance(it, VMGenerator):
                def body_fn(v, st=st):
                    self.assign(st.target, v, env, mod, owner)
                    self.block(st.body, env, mod, owner)
                if not self._consume(it, body_fn):
                    self.block(st.orelse, env, mod, owner)
                return
            if isinstance(it, (VMObj, Opaque)):
                raise VMError("iteration over interpreted object")
            broke = False
            for v in list(it) if isinstance(it, (list, tuple, dict, set, bytes, range, str)) else it:
                self._tick()
                self.assign(st.target, v, env, mod, owner)
                try:
                    self.block(st.body, env, mod, owner)
                except _Brk:
                    broke = True
                    break
                except _Cont:
                    continue
            if not broke:
                self.block(st.orelse, env, mod, owner)
        elif isinstance(st, ast.Return):
            raise _Ret(self.eval(st.value, env, mod, owner) if st.value is not None else None)
        elif isinstance(st, ast.Break):
            raise _Brk()
        elif isinstance(st, ast.Continue):
            raise _Cont()
        elif isinstance(st, ast.Pass):
            pass
        elif isinstance(st, ast.Raise):
            if st.exc is None:
                raise VMError("bare raise")
            e = self.eval(st.exc, env, mod, owner)
            if isinstance(e, VMClass):
                e = self.new(e)
            if isinstance(e, type) and issubclass(e, BaseException):
                e = e()
            if isinstance(e, VMExc):
                raise VMRaise(e)
            if isinstance(e, BaseException):
                raise VMRaise_native(e)
            raise VMError("raise of a non-exception")
        elif isinstance(st, ast.Try):
            self._try(st, env, mod, owner)
        elif isinstance(st, ast.Assert):
            if not self.truth(self.eval(st.test, env, mod, owner)):
                raise VMRaise_native(AssertionError())
        elif isinstance(st, ast.Delete):
            for t in st.targets:
                if isinstance(t, ast.Attribute):
                    o = self.eval(t.value, env, mod, owner)
                    if isinstance(o, VMObj):
                        o.attrs.pop(t.attr, None)
                    else:
                        raise VMError("del on native attribute")
                elif isinstance(t, ast.Subscript):
                    c = self.eval(t.value, env, mod, owner)
                    if not isinstance(c, (list, dict, bytearray)):
                        raise VMError("del item on unsupported container")
                    del c[self._index(t.slice, env, mod, owner)]
                elif isinstance(t, ast.Name):
                    env.pop(t.id, None)
                else:
                    raise VMError("del target")
        elif isinstance(st, ast.With):
            cms = []
            for it in st.items:
                cm = self.eval(it.context_expr, env, mod, owner)
                if isinstance(cm, VMGenerator) and len(st.items) == 1 and "contextmanager" in self._decorators(cm.func):
                    # @contextmanager: the body of the with runs where the generator yields; an exception of the body passes through the generator's frames
                    ran = []

                    def body_fn(v, it=it):
                        if ran:
                            raise VMError("@contextmanager generator yields more than once")
                        ran.append(True)
                        if it.optional_vars is not None:
                            self.assign(it.optional_vars, v, env, mod, owner)
                        self.block(st.body, env, mod, owner)
                    self._consume(cm, body_fn)
                    if not ran:
                        raise VMError("@contextmanager generator did not yield")
                    return
                if isinstance(cm, VMObj) and cm.cls.find("__enter__") is not None and cm.cls.find("__exit__") is not None:
                    cm = _ObjContext(cm)
                if not isinstance(cm, VMContext):
                    raise VMError("with-statement on something that is not a harness VMContext")
                v = cm.enter(self)
                if it.optional_vars is not None:
                    self.assign(it.optional_vars, v, env, mod, owner)
                cms.append(cm)
            try:
                self.block(st.body, env, mod, owner)
            except (VMRaise, _NativeRaise) as e:
                for cm in reversed(cms):
                    if cm.exit(self, e):
                        break
                else:
                    raise
            except (_Ret, _Brk, _Cont, _Escape):
                for cm in reversed(cms):          # return / break / continue inside the block: the managers are left normally
                    cm.exit(self, None)
                raise
            else:
                for cm in reversed(cms):
                    cm.exit(self, None)
        elif isinstance(st, (ast.Import, ast.ImportFrom, ast.Global, ast.Nonlocal)):
            pass
        elif isinstance(st, (ast.FunctionDef, ast.AsyncFunctionDef)):
            env[st.name] = VMFunc(mod, st, owner)
        else:
            raise VMError(f"statement {type(st).__name__} outside the subset")

    def _matches(self, exc, htype, env, mod, owner):
        if htype is None:
            return True
        ts = htype.elts if isinstance(htype, ast.Tuple) else [htype]
        for t in ts:
            v = self.eval(t, env, mod, owner)
            if isinstance(v, VMClass):
                if isinstance(exc, VMRaise) and v.name in exc.exc.names():
                    return True
            elif isinstance(v, type) and issubclass(v, BaseException):
                if isinstance(exc, VMRaise):
                    if v.__name__ in exc.exc.names() or v in (Exception, BaseException):
                        return True
                elif isinstance(exc, _NativeRaise) and isinstance(exc.native, v):
                    return True
            elif isinstance(v, Opaque):
                continue
            else:
                raise VMError("except clause type")
        return False

    def _try(self, st, env, mod, owner):
        try:
            try:
                self.block(st.body, env, mod, owner)
            except (VMRaise, _NativeRaise) as e:
                for h in st.handlers:
                    if self._matches(e, h.type, env, mod, owner):
                        if h.name:
                            env[h.name] = e.exc if isinstance(e, VMRaise) else e.native
                        self.block(h.body, env, mod, owner)
                        break
                else:
                    raise
            else:
                self.block(st.orelse, env, mod, owner)
        finally:
            if st.finalbody:
                self.block(st.finalbody, env, mod, owner)

    # ---- expressions --------------------------------------------------------------------------------------------------
    @staticmethod
    def truth(v):
        if isinstance(v, (VMObj, VMClass, Opaque, VMFunc, VMBound, VMModule)):
            return True
        return bool(v)

    def _index(self, sl, env, mod, owner):
        if isinstance(sl, ast.Slice):
            return slice(self.eval(sl.lower, env, mod, owner) if sl.lower else None, self.eval(sl.upper, env, mod, owner) if sl.upper else None,
                         self.eval(sl.step, env, mod, owner) if sl.step else None)
        return self.eval(sl, env, mod, owner)

    def _binop(self, op, a, b):
        if isinstance(a, (VMObj, Opaque, VMClass)) or isinstance(b, (VMObj, Opaque, VMClass)):
            raise VMError("arithmetic on interpreted object")
        try:
            t = type(op)
            if t is ast.Add:
                return a + b
            if t is ast.Sub:
                return a - b
            if t is ast.Mult:
                return a * b
            if t is ast.Mod:
                return a % b
            if t is ast.FloorDiv:
                return a // b
            if t is ast.Div:
                return a / b
            if t is ast.Pow:
                if isinstance(b, int) and abs(b) > 4096:
                    raise VMError("pow too large")
                return a ** b
            if t is ast.LShift:
                return a << b
            if t is ast.RShift:
                return a >> b
            if t is ast.BitOr:
                return a | b
            if t is ast.BitAnd:
                return a & b
            if t is ast.BitXor:
                return a ^ b
        except VMError:
            raise
        except Exception as e:  # noqa: BLE001 - becomes an exception of the interpreted program
            raise VMRaise_native(e)
        raise VMError(f"operator {type(op).__name__}")

    def eval(self, e, env, mod, owner):
        self._tick()
        try:
            return self._eval(e, env, mod, owner)
        except (VMError, VMRaise, _NativeRaise, _Ret, _Brk, _Cont, _Escape):
            raise
        except RecursionError:
            raise VMError("recursion limit")
        except Exception as ex:  # noqa: BLE001 - native operation failed: an exception of the interpreted program
            raise VMRaise_native(ex)

    def _eval(self, e, env, mod, owner):
        if isinstance(e, ast.Constant):
            return e.value
        if isinstance(e, ast.Name):
            if isinstance(env, _ClassScope):
                return env.lookup(e.id)
            if e.id in env:
                return env[e.id]
            return mod.globals_lookup(e.id)
        if isinstance(e, ast.Attribute):
            return self.getattr(self.eval(e.value, env, mod, owner), e.attr)
        if isinstance(e, ast.Call):
            if isinstance(e.func, ast.Name) and e.func.id == "super":
                raise VMError("bare super()")
            if isinstance(e.func, ast.Attribute) and isinstance(e.func.value, ast.Call) and isinstance(e.func.value.func, ast.Name) \
                    and e.func.value.func.id == "super" and not e.func.value.args:
                # super().m(...): next definition of m after the defining class in the receiver's MRO; a base class outside the
                # interpreted modules is opaque (the call has no effect)
                selfv = env.get("self") if isinstance(env, dict) else None
                if owner is None or not isinstance(selfv, VMObj):
                    raise VMError("super() outside a method")
                mro = selfv.cls.mro()
                names = [c.name for c in mro]
                rest = mro[names.index(owner.name) + 1:] if owner.name in names else []
                fn = None
                for c in rest:
                    o = c.own(e.func.attr)
                    if o is not None and o[0] == "func":
                        fn = VMBound(selfv, VMFunc(c.mod, o[1], c))
                        break
                if fn is None:
                    for a in e.args:
                        self.eval(a, env, mod, owner)
                    return None
            else:
                fn = self.eval(e.func, env, mod, owner)
            args = []
            for a in e.args:
                if isinstance(a, ast.Starred):
                    args.extend(self.eval(a.value, env, mod, owner))
                else:
                    args.append(self.eval(a, env, mod, owner))
            kwargs = {}
            for k in e.keywords:
                if k.arg is None:
                    raise VMError("**kwargs call")
                kwargs[k.arg] = self.eval(k.value, env, mod, owner)
            return self.call(fn, args, kwargs)
        if isinstance(e, ast.BinOp):
            return self._binop(e.op, self.eval(e.left, env, mod, owner), self.eval(e.right, env, mod, owner))
        if isinstance(e, ast.BoolOp):
            v = None
            for x in e.values:
                v = self.eval(x, env, mod, owner)
                if self.truth(v) != isinstance(e.op, ast.And):
                    return v
            return v
        if isinstance(e, ast.UnaryOp):
            v = self.eval(e.operand, env, mod, owner)
            if isinstance(e.op, ast.Not):
                return not self.truth(v)
            if isinstance(e.op, ast.USub):
                return -v
            if isinstance(e.op, ast.UAdd):
                return +v
            return ~v
        if isinstance(e, ast.Compare):
            left = self.eval(e.left, env, mod, owner)
            for op, rn in zip(e.ops, e.comparators):
                right = self.eval(rn, env, mod, owner)
                t = type(op)
                if t is ast.Is:
                    r = left is right
                elif t is ast.IsNot:
                    r = left is not right
                elif t is ast.Eq:
                    r = left == right
                elif t is ast.NotEq:
                    r = left != right
                elif t is ast.In:
                    r = left in right
                elif t is ast.NotIn:
                    r = left not in right
                else:
                    if isinstance(left, (VMObj, Opaque)) or isinstance(right, (VMObj, Opaque)):
                        raise VMError("ordering of interpreted objects")
                    r = {ast.Lt: lambda: left < right, ast.LtE: lambda: left <= right, ast.Gt: lambda: left > right, ast.GtE: lambda: left >= right}[t]()
                if not r:
                    return False
                left = right
            return True
        if isinstance(e, ast.Subscript):
            v = self.eval(e.value, env, mod, owner)
            if isinstance(v, (VMObj, Opaque, VMClass)):
                raise VMError("subscript of interpreted object")
            return v[self._index(e.slice, env, mod, owner)]
        if isinstance(e, ast.Tuple):
            return tuple(self.eval(x, env, mod, owner) for x in e.elts)
        if isinstance(e, ast.List):
            return [self.eval(x, env, mod, owner) for x in e.elts]
        if isinstance(e, ast.Set):
            return {self.eval(x, env, mod, owner) for x in e.elts}
        if isinstance(e, ast.Dict):
            return {self.eval(k, env, mod, owner): self.eval(v, env, mod, owner) for k, v in zip(e.keys, e.values)}
        if isinstance(e, ast.IfExp):
            return self.eval(e.body if self.truth(self.eval(e.test, env, mod, owner)) else e.orelse, env, mod, owner)
        if isinstance(e, ast.JoinedStr):
            out = ""
            for v in e.values:
                if isinstance(v, ast.Constant):
                    out += str(v.value)
                else:
                    x = self.eval(v.value, env, mod, owner)
                    spec = self.eval(v.format_spec, env, mod, owner) if v.format_spec is not None else ""
                    x = {114: repr, 115: str, 97: ascii}.get(v.conversion, lambda y: y)(x)
                    out += format(x, spec)
            return out
        if isinstance(e, (ast.ListComp, ast.GeneratorExp, ast.SetComp)):
            if len(e.generators) != 1 or e.generators[0].is_async:
                raise VMError("comprehension outside the subset")
            gen = e.generators[0]
            out = []
            local = dict(env) if not isinstance(env, _ClassScope) else {}
            for v in self.eval(gen.iter, env, mod, owner):
                self.assign(gen.target, v, local, mod, owner)
                if all(self.truth(self.eval(c, local, mod, owner)) for c in gen.ifs):
                    out.append(self.eval(e.elt, local, mod, owner))
            return set(out) if isinstance(e, ast.SetComp) else out
        if isinstance(e, ast.Lambda):
            return VMFunc(mod, e, owner)
        if isinstance(e, ast.Slice):
            return self._index(e, env, mod, owner)
        if isinstance(e, ast.NamedExpr):
            v = self.eval(e.value, env, mod, owner)
            self.assign(e.target, v, env, mod, owner)
            return v
        if isinstance(e, (ast.Yield, ast.YieldFrom)):
            if not self._yield_stack:
                raise VMError("yield outside a driven generator")
            if isinstance(e, ast.Yield):
                self._yield_stack[-1](self.eval(e.value, env, mod, owner) if e.value is not None else None)
                return None
            src_ = self.eval(e.value, env, mod, owner)
            if isinstance(src_, VMGenerator):
                src_.drive(self._yield_stack[-1])
            elif isinstance(src_, (VMObj, Opaque)):
                raise VMError("yield from an interpreted object")
            else:
                for v in list(src_):
                    self._yield_stack[-1](v)
            return None
        raise VMError(f"expression {type(e).__name__} outside the subset")


class _NativeRaise(Exception):
    def __init__(self, native):
        Exception.__init__(self, repr(native))
        self.native = native


def VMRaise_native(e):
    return _NativeRaise(e)


class _ClassScope:
    """name resolution inside a class body: earlier class-level names, then module globals"""

    def __init__(self, vm, cls: VMClass):
        self.vm, self.cls = vm, cls

    def lookup(self, name):
        if self.cls.own(name) is not None:
            return self.vm.class_attr(self.cls, name)
        return self.cls.mod.globals_lookup(name)

    def __contains__(self, name):
        return False


class VMContext:
    """harness stand-in for a context manager: ``enter(vm)`` -> value bound by ``as``; ``exit(vm, exc)`` with exc = None, VMRaise or
    _NativeRaise; return True to swallow, raise to replace"""

    def enter(self, vm):
        return None

    def exit(self, vm, exc):
        return False


class _ObjContext(VMContext):
    """an interpreted object with __enter__ / __exit__ used in a with-statement"""

    def __init__(self, obj):
        self.obj = obj

    def enter(self, vm):
        return vm.call_method(self.obj, "__enter__")

    def exit(self, vm, exc):
        if exc is None:
            return bool(vm.call_method(self.obj, "__exit__", None, None, None))
        e = getattr(exc, "exc", None) or getattr(exc, "native", None)
        return bool(vm.call_method(self.obj, "__exit__", getattr(e, "cls", type(e)), e, None))


class VMStub:
    """base of the harness's stand-ins (transport): plain Python objects whose methods may be called from interpreted code"""


# =====================================================================================================================
# Inlined views: a private helper that the rule tables do not know (i.e. one introduced by a refactor) is analysed as
# if its body stood at the call site, so that dominance / must-precede / coupling questions keep their meaning when
# statements move into `self._helper()` or out of it.
# =====================================================================================================================
import copy as _copy


class _NoInline(Exception):
    pass


def _clone(node):
    """structural copy of an AST (sub)tree; parent links and other annotations are not followed"""
    if isinstance(node, list):
        return [_clone(x) for x in node]
    if not isinstance(node, ast.AST):
        return node
    new = node.__class__()
    for f in node._fields:
        if hasattr(node, f):
            setattr(new, f, _clone(getattr(node, f)))
    for a in node._attributes:
        if hasattr(node, a):
            setattr(new, a, getattr(node, a))
    return new


def _ends_in_return(stmts) -> bool:
    if not stmts:
        return False
    last = stmts[-1]
    if isinstance(last, (ast.Return, ast.Raise)):
        return True
    if isinstance(last, ast.If) and last.orelse:
        return _ends_in_return(last.body) and _ends_in_return(last.orelse)
    return False


def _has_return(node) -> bool:
    return any(isinstance(x, ast.Return) for x in walk_local(node))


def _structure_returns(stmts, on_return):
    """Rewrite a helper body into one without ``return``: ``on_return(value)`` gives the statements that replace ``return value``;
    the code following an ``if`` that may return is moved (copied) into the branches that fall through."""
    out = []
    for i, st in enumerate(stmts):
        if isinstance(st, ast.Return):
            out.extend(on_return(st.value))
            return out
        if isinstance(st, ast.If) and _has_return(st):
            rest = stmts[i + 1:]
            body = _structure_returns(list(st.body) + ([] if _ends_in_return(st.body) else _clone(rest)), on_return)
            orelse = _structure_returns(list(st.orelse) + ([] if (st.orelse and _ends_in_return(st.orelse)) else _clone(rest)), on_return)
            out.append(ast.If(test=st.test, body=body or [ast.Pass()], orelse=orelse))
            return out
        if isinstance(st, ast.Try) and _has_return(st) and not st.finalbody:
            rest = stmts[i + 1:]
            if any(isinstance(x, ast.Return) for b in st.body[:-1] for x in walk_local(b)) or \
                    (st.body and not isinstance(st.body[-1], ast.Return) and _has_return(st.body[-1])):
                raise _NoInline("return in the middle of a try body")
            body_returns = bool(st.body) and isinstance(st.body[-1], ast.Return)
            body = _structure_returns(list(st.body), on_return)
            handlers = []
            for h in st.handlers:
                hb = _structure_returns(list(h.body) + ([] if _ends_in_return(h.body) else _clone(rest)), on_return)
                handlers.append(ast.ExceptHandler(type=h.type, name=h.name, body=hb or [ast.Pass()]))
            orelse = [] if body_returns else _structure_returns(list(st.orelse) + ([] if (st.orelse and _ends_in_return(st.orelse)) else _clone(rest)), on_return)
            out.append(ast.Try(body=body or [ast.Pass()], handlers=handlers, orelse=orelse, finalbody=[]))
            return out
        if _has_return(st):
            raise _NoInline("return inside a loop / with / try-finally")
        out.append(st)
    return out


def _returns_as_breaks(stmts, on_return):
    """A helper body whose returns sit inside try / with blocks, expanded at its call site: the body becomes the body of a ``while True:`` that is
    left by ``break`` - ``return v`` -> ``<on_return(v)>; break`` - which is exactly what return means relative to the expanded region (pending
    finally blocks run, enclosing handlers are left).  A return inside a loop of the helper itself cannot be expressed this way."""
    def conv(block, in_loop):
        out = []
        for st in block:
            if isinstance(st, ast.Return):
                if in_loop:
                    raise _NoInline("return inside a loop of the helper")
                out.extend(on_return(st.value))
                out.append(ast.Break())
                continue
            if isinstance(st, (ast.FunctionDef, ast.AsyncFunctionDef, ast.ClassDef)):
                out.append(st)
                continue
            loop = isinstance(st, (ast.For, ast.AsyncFor, ast.While))
            for fld in ("body", "orelse", "finalbody"):
                if isinstance(getattr(st, fld, None), list):
                    setattr(st, fld, conv(getattr(st, fld), in_loop or (loop and fld == "body")))
            for h in getattr(st, "handlers", []) or []:
                h.body = conv(h.body, in_loop)
            out.append(st)
        return out
    body = conv(list(stmts), False)
    if not (body and isinstance(body[-1], ast.Break)):
        body.append(ast.Break())
    return [ast.While(test=ast.Constant(True), body=body, orelse=[])]


class _Subst(ast.NodeTransformer):
    def __init__(self, mapping):
        self.mapping = mapping

    def visit_Name(self, node):
        if node.id in self.mapping and isinstance(node.ctx, ast.Load):
            return _clone(self.mapping[node.id])
        return node


def _as_expression(stmts):
    """if/return-only body -> a single expression (nested conditional expressions)"""
    stmts = [s for s in stmts if not (isinstance(s, ast.Expr) and isinstance(s.value, ast.Constant))]
    if not stmts:
        return ast.Constant(None)
    st = stmts[0]
    if isinstance(st, ast.Return):
        return st.value if st.value is not None else ast.Constant(None)
    if isinstance(st, ast.If):
        if _ends_in_return(st.body) and not st.orelse:
            return ast.IfExp(test=st.test, body=_as_expression(st.body), orelse=_as_expression(stmts[1:]))
        if st.orelse and _ends_in_return(st.body) and _ends_in_return(st.orelse):
            return ast.IfExp(test=st.test, body=_as_expression(st.body), orelse=_as_expression(st.orelse))
    raise _NoInline("helper body is not an if/return expression")


class Inliner:
    """``Inliner(mod, cls_names, known)``: ``known`` = method names the rules are written against (never inlined)."""

    def __init__(self, mod, cls_names: Sequence[str], known: Iterable[str], depth: int = 3, extended: bool = False, base_modules: Sequence = ()):
        """``extended``: also read through static / class-method helpers, tuple assignments (split into single assignments), loops over private
        generator helpers and ``with`` blocks on context managers defined in the module.  Off by default: other checkers that share this class
        were written against the plain behaviour."""
        from sa.source import mro_lookup
        self.mod, self.known, self.depth, self.extended = mod, set(known), depth, extended
        self.classes = [c for c in mod.classes() if c.name in cls_names]
        from sa.source import base_names as _base_names

        def _lookup(name):
            r = next((r[1] for c in self.classes for r in [mro_lookup(mod, c, name)] if r and isinstance(r[1], (ast.FunctionDef,))), None)
            if r is None:
                # a base class (mixin) defined in one of the given other modules
                for c in self.classes:
                    for b in _base_names(c):
                        for om in base_modules:
                            bc = om.find(b.split(".")[-1])
                            if isinstance(bc, ast.ClassDef):
                                rr = mro_lookup(om, bc, name)
                                if rr and isinstance(rr[1], ast.FunctionDef):
                                    return rr[1]
            return r
        self._lookup = _lookup
        self.inlined: Set[str] = set()        # helper names whose every visited call site was inlined
        self.refused: Dict[str, str] = {}
        self._views: Dict[int, ast.AST] = {}

    def _callee(self, call):
        """(helper function, number of leading parameters bound implicitly) for a call of a private helper of the analysed classes:
        ``self.h(..)``, ``cls.h(..)``, ``type(self).h(..)`` or ``ClassName.h(..)`` - plain, static or class method."""
        if not (isinstance(call, ast.Call) and isinstance(call.func, ast.Attribute)) or call.keywords:
            return None
        recv, name = call.func.value, call.func.attr
        if name in self.known:
            return None
        via_instance = isinstance(recv, ast.Name) and recv.id == "self"
        via_class = (isinstance(recv, ast.Name) and (recv.id == "cls" or recv.id in {c.name for c in self.classes})) or src(recv) in ("type(self)", "self.__class__")
        if not (via_instance or via_class):
            return None
        if not self.extended and not via_instance:
            return None
        h = self._lookup(name)
        if h is None or (h.args.vararg or h.args.kwarg or h.args.kwonlyargs):
            return None
        if not self.extended and h.decorator_list:
            return None
        decos = [dotted(d) for d in h.decorator_list]
        if decos == ["staticmethod"]:
            skip = 0
        elif decos == ["classmethod"]:
            skip = 1
        elif not decos and via_instance:
            skip = 1
        else:
            return None
        if len(h.args.args) - skip != len(call.args):
            return None
        if skip and any(isinstance(x, ast.Name) and x.id == h.args.args[0].arg and decos for x in walk_local(h)):
            return None                   # a classmethod that uses cls
        return h, skip

    def _module_helper(self, call):
        """a private module-level function the rules do not know by name, called with plain positional arguments (extended mode only)"""
        if not self.extended or not (isinstance(call, ast.Call) and isinstance(call.func, ast.Name)) or call.keywords:
            return None
        name = call.func.id
        if not name.startswith("_") or name in self.known:
            return None
        h = next((n for n in self.mod.tree.body if isinstance(n, ast.FunctionDef) and n.name == name), None)
        if h is None or h.decorator_list or h.args.vararg or h.args.kwarg or h.args.kwonlyargs or len(h.args.args) != len(call.args):
            return None
        if any(isinstance(x, (ast.Yield, ast.YieldFrom, ast.Await)) for x in walk_local(h)):
            return None
        return h

    def helper_of(self, call):
        r = self._callee(call)
        if r is None or any(isinstance(x, (ast.Yield, ast.YieldFrom, ast.Await)) for x in walk_local(r[0])):
            return None
        return r[0]

    def generator_of(self, call):
        r = self._callee(call)
        if r is None or not any(isinstance(x, (ast.Yield, ast.YieldFrom)) for x in walk_local(r[0])):
            return None
        return r[0]

    def _body(self, h, call):
        body = [s for s in _clone(h.body) if not (isinstance(s, ast.Expr) and isinstance(s.value, ast.Constant) and isinstance(s.value.value, str))]
        skip = self._callee(call)[1]
        params = [a.arg for a in h.args.args[skip:]]
        rebound = {t.id for s in walk_local(ast.Module(body=body, type_ignores=[])) if isinstance(s, (ast.Assign, ast.AugAssign, ast.For))
                   for t in ([s.target] if not isinstance(s, ast.Assign) else s.targets) if isinstance(t, ast.Name)}
        if rebound & set(params):
            raise _NoInline("parameter re-bound in helper")
        mapping = dict(zip(params, call.args))
        if skip and not h.decorator_list and h.args.args[0].arg != "self":
            mapping[h.args.args[0].arg] = ast.Name(id="self", ctx=ast.Load())
        sub = _Subst(mapping)
        return [sub.visit(s) for s in body]

    # ---- statement-level normalisations -------------------------------------------------------------------------------------------
    def _split_tuple_assign(self, st):
        """``a, b = x, y`` -> one assignment per element (through temporaries when a later value reads an earlier target);
        ``a, b = (x, y) if c else (z, w)`` -> an if statement."""
        if not (isinstance(st, ast.Assign) and len(st.targets) == 1 and isinstance(st.targets[0], (ast.Tuple, ast.List))):
            return None
        tgt, val = st.targets[0], st.value
        if any(isinstance(t, ast.Starred) for t in tgt.elts):
            return None
        if isinstance(val, ast.IfExp):
            arms = []
            for arm in (val.body, val.orelse):
                sub = self._split_tuple_assign(ast.Assign(targets=[_clone(tgt)], value=arm, lineno=st.lineno))
                if sub is None:
                    return None
                arms.append(sub)
            return [ast.If(test=val.test, body=arms[0], orelse=arms[1])]
        if not (isinstance(val, (ast.Tuple, ast.List)) and len(val.elts) == len(tgt.elts)) or any(isinstance(v, ast.Starred) for v in val.elts):
            return None
        hazard = False
        for i, t in enumerate(tgt.elts):
            key = src(t)
            for v in val.elts[i + 1:]:
                if any(src(x) == key for x in ast.walk(v) if isinstance(x, (ast.Name, ast.Attribute, ast.Subscript))):
                    hazard = True
        if not hazard:
            return [ast.Assign(targets=[t], value=v, lineno=st.lineno) for t, v in zip(tgt.elts, val.elts)]
        self._tmp = getattr(self, "_tmp", 0) + 1
        names = [f"_tup{self._tmp}_{i}" for i in range(len(tgt.elts))]
        out = [ast.Assign(targets=[ast.Name(id=n, ctx=ast.Store())], value=v, lineno=st.lineno) for n, v in zip(names, val.elts)]
        out += [ast.Assign(targets=[t], value=ast.Name(id=n, ctx=ast.Load()), lineno=st.lineno) for n, t in zip(names, tgt.elts)]
        return out

    def _unroll_for(self, st):
        """``for x in (<up to 8 constants>): BODY`` -> BODY once per constant (no break / continue / else)"""
        if not isinstance(st, ast.For) or st.orelse or not isinstance(st.target, ast.Name) or not isinstance(st.iter, (ast.Tuple, ast.List)):
            return None
        if not (0 < len(st.iter.elts) <= 8) or not all(isinstance(e, ast.Constant) for e in st.iter.elts):
            return None
        if any(isinstance(x, (ast.Break, ast.Continue)) for b in st.body for x in ast.walk(b)):
            return None
        if any(isinstance(x, ast.Name) and x.id == st.target.id and isinstance(x.ctx, (ast.Store, ast.Del)) for b in st.body for x in ast.walk(b)):
            return None
        out = []
        for e in st.iter.elts:
            out.extend(_Subst({st.target.id: e}).visit(b) for b in _clone(st.body))
        return out

    def _attr_builtins(self, st):
        """``delattr(o, "a")`` -> ``del o.a``; ``setattr(o, "a", v)`` -> ``o.a = v`` (constant, identifier-like names only)"""
        if not (isinstance(st, ast.Expr) and isinstance(st.value, ast.Call) and isinstance(st.value.func, ast.Name) and not st.value.keywords):
            return None
        c = st.value
        if c.func.id == "delattr" and len(c.args) == 2 and isinstance(c.args[1], ast.Constant) and isinstance(c.args[1].value, str) and c.args[1].value.isidentifier():
            return [ast.Delete(targets=[ast.Attribute(value=c.args[0], attr=c.args[1].value, ctx=ast.Del())])]
        if c.func.id == "setattr" and len(c.args) == 3 and isinstance(c.args[1], ast.Constant) and isinstance(c.args[1].value, str) and c.args[1].value.isidentifier():
            return [ast.Assign(targets=[ast.Attribute(value=c.args[0], attr=c.args[1].value, ctx=ast.Store())], value=c.args[2], lineno=st.lineno)]
        return None

    def _expand_for(self, st):
        """``for x in self._gen(..): BODY`` with a private generator helper -> the generator's own loop with ``x = <yielded>; BODY`` in place of each yield."""
        if not isinstance(st, ast.For) or st.orelse:
            return None
        h = self.generator_of(st.iter)
        if h is None:
            return None
        body = self._body(h, st.iter)
        top = ast.Module(body=body, type_ignores=[])
        yields = [x for x in walk_local(top) if isinstance(x, (ast.Yield, ast.YieldFrom))]
        stmts_with_yield = [x for x in walk_local(top) if isinstance(x, ast.Expr) and isinstance(x.value, ast.Yield)]
        if len(yields) != len(stmts_with_yield) or _has_return(top):
            raise _NoInline("generator helper with a yield inside an expression, yield from, or a return")

        def jumps(stmts):
            for s in stmts:
                if isinstance(s, (ast.Break, ast.Continue)):
                    return True
                if isinstance(s, (ast.For, ast.While, ast.FunctionDef, ast.AsyncFunctionDef, ast.ClassDef)):
                    continue
                for f in ("body", "orelse", "finalbody"):
                    if jumps(getattr(s, f, []) or []):
                        return True
                for hd in getattr(s, "handlers", []) or []:
                    if jumps(hd.body):
                        return True
            return False
        if jumps(st.body):
            raise _NoInline("break / continue in the body of a loop over a generator helper")
        consumer, target = st.body, st.target
        stored = {x.id for b in consumer for x in ast.walk(b) if isinstance(x, ast.Name) and isinstance(x.ctx, (ast.Store, ast.Del))}

        class Y(ast.NodeTransformer):
            def visit_Expr(self, node):
                if isinstance(node.value, ast.Yield):
                    v = node.value.value if node.value.value is not None else ast.Constant(None)
                    if isinstance(target, ast.Name) and isinstance(v, ast.Name) and target.id not in stored and v.id not in stored:
                        # `for x in gen(): BODY` with `yield y`: BODY reads y directly - no copy, so what is known about y stays known
                        if v.id == target.id:
                            return _clone(consumer)
                        return [_Subst({target.id: v}).visit(b) for b in _clone(consumer)]
                    return [ast.Assign(targets=[_clone(target)], value=v, lineno=st.lineno)] + _clone(consumer)
                return node

            def visit_FunctionDef(self, node):
                return node
            visit_Lambda = visit_AsyncFunctionDef = visit_FunctionDef
        out = []
        for b in body:
            r = Y().visit(b)
            out.extend(r if isinstance(r, list) else [r])
        self.inlined.add(st.iter.func.attr)
        return out

    def _context_manager(self, expr):
        """(enter statements, exit statements, value bound by ``as``) for ``with X(..)`` where X is a class of the module with __enter__/__exit__ or a
        @contextmanager generator (module-level or a private helper); None when ``expr`` is not one of those."""
        if not isinstance(expr, ast.Call) or expr.keywords:
            return None
        fn = None
        if isinstance(expr.func, ast.Name):
            fn = next((n for n in self.mod.tree.body if isinstance(n, (ast.FunctionDef, ast.ClassDef)) and n.name == expr.func.id), None)
        if isinstance(fn, ast.ClassDef):
            ms = {m.name: m for m in fn.body if isinstance(m, ast.FunctionDef)}
            if "__enter__" not in ms or "__exit__" not in ms or fn.bases and any(dotted(b) not in ("object",) for b in fn.bases):
                return None
            held: Dict[str, ast.AST] = {}
            init = ms.get("__init__")
            if init is not None:
                params = [a.arg for a in init.args.args[1:]]
                if len(params) != len(expr.args) or init.args.vararg or init.args.kwarg or init.args.kwonlyargs:
                    raise _NoInline("context manager constructed with other than plain positional arguments")
                given = dict(zip(params, expr.args))
                for b in init.body:
                    if isinstance(b, ast.Expr) and isinstance(b.value, ast.Constant):
                        continue
                    if isinstance(b, ast.Assign) and len(b.targets) == 1 and is_self_attr(b.targets[0]) and isinstance(b.value, ast.Name) and b.value.id in given:
                        held[b.targets[0].attr] = given[b.value.id]
                    elif isinstance(b, ast.Assign) and len(b.targets) == 1 and is_self_attr(b.targets[0]) and isinstance(b.value, ast.Constant):
                        held[b.targets[0].attr] = b.value
                    else:
                        raise _NoInline("context manager __init__ does more than store its arguments")
            elif expr.args:
                return None
            tag = fn.name.lstrip("_")

            class S(ast.NodeTransformer):
                def visit_Attribute(self, node):
                    if is_self_attr(node):
                        if node.attr in held and isinstance(node.ctx, ast.Load):
                            return _clone(held[node.attr])
                        return ast.copy_location(ast.Name(id=f"_cm_{tag}_{node.attr}", ctx=node.ctx), node)
                    return self.generic_visit(node)
            ex = ms["__exit__"]
            if any(isinstance(x, ast.Name) and x.id in {a.arg for a in ex.args.args[1:]} | ({ex.args.vararg.arg} if ex.args.vararg else set()) for x in walk_local(ex)):
                raise _NoInline("context manager __exit__ inspects the exception")
            enter = [b for b in _clone(ms["__enter__"].body) if not (isinstance(b, ast.Expr) and isinstance(b.value, ast.Constant))]
            leave = [b for b in _clone(ex.body) if not (isinstance(b, ast.Expr) and isinstance(b.value, ast.Constant))]
            bound = None
            if enter and isinstance(enter[-1], ast.Return):
                bound = enter.pop().value
            if leave and isinstance(leave[-1], ast.Return):
                r = leave.pop().value
                if r is not None and not (isinstance(r, ast.Constant) and not r.value):
                    raise _NoInline("context manager __exit__ may swallow the exception")
            if _has_return(ast.Module(body=enter + leave, type_ignores=[])):
                raise _NoInline("return in the middle of __enter__ / __exit__")
            if bound is not None and src(bound) == "self":
                bound = None if True else bound
            return [S().visit(b) for b in enter], [S().visit(b) for b in leave], (S().visit(bound) if bound is not None else None), fn.name
        # @contextmanager generator
        h = fn if isinstance(fn, ast.FunctionDef) else None
        skip = 0
        if h is None and isinstance(expr.func, ast.Attribute) and isinstance(expr.func.value, ast.Name) and expr.func.value.id == "self" \
                and expr.func.attr not in self.known:
            h, skip = self._lookup(expr.func.attr), 1
        if h is None or [(dotted(d) or "").split(".")[-1] for d in h.decorator_list] != ["contextmanager"]:
            return None
        if len(h.args.args) - skip != len(expr.args) or h.args.vararg or h.args.kwarg or h.args.kwonlyargs:
            raise _NoInline("context manager helper called with other than plain positional arguments")
        body = [b for b in _clone(h.body) if not (isinstance(b, ast.Expr) and isinstance(b.value, ast.Constant))]
        body = [_Subst(dict(zip([a.arg for a in h.args.args[skip:]], expr.args))).visit(b) for b in body]
        return ("generator", body, None, h.name)

    def _expand_with(self, st):
        if not isinstance(st, ast.With) or len(st.items) != 1:
            return None
        item = st.items[0]
        cm = self._context_manager(item.context_expr)
        if cm is None:
            return None
        if cm[0] == "generator":
            body = cm[1]
            top = ast.Module(body=body, type_ignores=[])
            ys = [x for x in walk_local(top) if isinstance(x, ast.Expr) and isinstance(x.value, ast.Yield)]
            if len(ys) != 1 or len([x for x in walk_local(top) if isinstance(x, (ast.Yield, ast.YieldFrom))]) != 1 or _has_return(top):
                raise _NoInline("@contextmanager helper without exactly one plain yield statement")
            consumer, target = st.body, item.optional_vars

            class Y(ast.NodeTransformer):
                def visit_Expr(self, node):
                    if isinstance(node.value, ast.Yield):
                        pre = []
                        if target is not None:
                            pre = [ast.Assign(targets=[_clone(target)], value=node.value.value or ast.Constant(None), lineno=st.lineno)]
                        return pre + list(consumer)
                    return node
            out = []
            for b in body:
                r = Y().visit(b)
                out.extend(r if isinstance(r, list) else [r])
            self.inlined.add(cm[3])
            return out
        enter, leave, bound, name = cm
        if item.optional_vars is not None:
            if bound is None:
                raise _NoInline("the context manager object itself is bound by 'as'")
            enter = enter + [ast.Assign(targets=[item.optional_vars], value=bound, lineno=st.lineno)]
        self.inlined.add(name)
        return enter + [ast.Try(body=list(st.body), handlers=[], orelse=[], finalbody=leave or [ast.Pass()])]

    def _stmts(self, stmts, level):
        out = []
        if self.extended:
            stmts = self._sink_selected_callable(list(stmts))
        for st in stmts:
            out.extend(self._stmt(st, level))
        if self.extended:
            out = self._propagate_callable_locals(out)
        return out

    # ---- a callable (and its argument) selected in the branches of an if, called once after it ---------------------------------------
    @staticmethod
    def _called_locals(stmts) -> Set[str]:
        return {x.func.id for st in stmts for x in walk_local(st) if isinstance(x, ast.Call) and isinstance(x.func, ast.Name)}

    @staticmethod
    def _assigned_simple(stmts) -> Set[str]:
        """locals given an attribute / name / tuple-selected value by a plain assignment somewhere in ``stmts`` (nested ifs included)"""
        out = set()
        for st in stmts:
            for x in [st] + ([y for y in ast.walk(st) if isinstance(y, ast.If)] if isinstance(st, ast.If) else []):
                for b in (getattr(x, "body", []) or []) + (getattr(x, "orelse", []) or []) if isinstance(x, ast.If) else [x]:
                    if isinstance(b, ast.Assign):
                        for t in b.targets:
                            ts = t.elts if isinstance(t, (ast.Tuple, ast.List)) else [t]
                            out |= {e.id for e in ts if isinstance(e, ast.Name)}
        return out

    def _sink_selected_callable(self, stmts):
        """``if c: f = a  else: f = b`` followed by ``... f(x) ...``  ->  the rest of the block is moved into both branches (tail duplication is
        always behaviour-preserving), where ``f`` then has one definition."""
        for i, st in enumerate(stmts):
            rest = stmts[i + 1:]
            if not isinstance(st, ast.If) or not rest or len(rest) > 6:
                continue
            selected = self._assigned_simple([st]) & self._called_locals(rest)
            if not selected or any(isinstance(x, (ast.FunctionDef, ast.AsyncFunctionDef, ast.ClassDef)) for r in rest for x in ast.walk(r)):
                continue

            def falls(block):
                if not block:
                    return True
                last = block[-1]
                if isinstance(last, (ast.Return, ast.Raise, ast.Break, ast.Continue)):
                    return False
                if isinstance(last, ast.If) and last.orelse:
                    return falls(last.body) or falls(last.orelse)
                return True

            def sink(block):
                if not falls(block):
                    return block
                if block and isinstance(block[-1], ast.If) and (not falls(block[-1].body) or not falls(block[-1].orelse) or block[-1].orelse):
                    last = block[-1]
                    return block[:-1] + [ast.copy_location(ast.If(test=last.test, body=sink(list(last.body)), orelse=sink(list(last.orelse))), last)]
                return block + _clone(rest)
            new_if = ast.copy_location(ast.If(test=st.test, body=sink(list(st.body)), orelse=sink(list(st.orelse))), st)
            ast.fix_missing_locations(new_if)
            return stmts[:i] + [new_if]
        return stmts

    def _propagate_callable_locals(self, stmts):
        """straight-line ``f = obj.method`` ... ``f(x)`` in one block -> ``obj.method(x)`` (until f is re-bound)"""
        for i, st in enumerate(stmts):
            if not (isinstance(st, ast.Assign) and len(st.targets) == 1 and isinstance(st.targets[0], ast.Name) and isinstance(st.value, (ast.Attribute, ast.Name))
                    and dotted(st.value)):
                continue
            f = st.targets[0].id
            later = stmts[i + 1:]
            if f not in self._called_locals(later):
                continue
            for j, nxt in enumerate(later):
                if any(isinstance(x, ast.Name) and x.id == f and isinstance(x.ctx, (ast.Store, ast.Del)) for x in ast.walk(nxt)):
                    break
                if any(n in written_names(x) for x in ast.walk(nxt) if isinstance(x, ast.stmt) for n in [dotted(st.value)]):
                    break

                class C(ast.NodeTransformer):
                    def visit_Call(self_, node):
                        self_.generic_visit(node)
                        if isinstance(node.func, ast.Name) and node.func.id == f:
                            node.func = ast.copy_location(_clone(st.value), node.func)
                        return node

                    def visit_FunctionDef(self_, node):
                        return node
                    visit_Lambda = visit_AsyncFunctionDef = visit_FunctionDef
                stmts[i + 1 + j] = ast.fix_missing_locations(C().visit(nxt))
        return stmts

    def _stmt(self, st, level):
        # statement-level normalisations (before anything is inlined into them)
        for rewrite in (self._split_tuple_assign, self._unroll_for, self._attr_builtins, self._expand_for, self._expand_with) if self.extended else ():
            try:
                new = rewrite(st)
            except _NoInline as e:
                self.refused[src(getattr(st, "iter", None) or (st.items[0].context_expr if isinstance(st, ast.With) else st))[:60]] = str(e)
                new = None
            if new is not None:
                for n in new:
                    ast.copy_location(n, st)
                    ast.fix_missing_locations(n)
                return self._stmts(new, level + (0 if rewrite in (self._split_tuple_assign, self._unroll_for, self._attr_builtins) else 1)) if level < self.depth + 2 else new
        # recurse into compound statements first
        for field in ("body", "orelse", "finalbody"):
            if isinstance(getattr(st, field, None), list) and not isinstance(st, (ast.FunctionDef, ast.AsyncFunctionDef, ast.ClassDef, ast.Lambda)):
                setattr(st, field, self._stmts(getattr(st, field), level))
        for h in getattr(st, "handlers", []) or []:
            h.body = self._stmts(h.body, level)
        if level >= self.depth:
            return [st]
        call = None
        mode = None
        if isinstance(st, ast.Expr) and self.helper_of(st.value):
            call, mode = st.value, "expr"
        elif isinstance(st, ast.Return) and st.value is not None and self.helper_of(st.value):
            call, mode = st.value, "return"
        elif isinstance(st, ast.Assign) and len(st.targets) == 1 and (isinstance(st.targets[0], (ast.Name, ast.Attribute)) or (
                self.extended and isinstance(st.targets[0], ast.Tuple) and all(isinstance(e, (ast.Name, ast.Attribute)) for e in st.targets[0].elts))) and self.helper_of(st.value):
            call, mode = st.value, "assign"
        try:
            if call is not None:
                h = self.helper_of(call)
                body = self._body(h, call)
                if mode == "expr":
                    on_ret = lambda v: [ast.Expr(v)] if v is not None and not isinstance(v, (ast.Constant, ast.Name)) else []      # noqa: E731
                    full = body
                elif mode == "assign":
                    tgt = st.targets[0]
                    on_ret = lambda v: [ast.Assign(targets=[_clone(tgt)], value=v if v is not None else ast.Constant(None), lineno=st.lineno)]      # noqa: E731
                    full = body + ([] if _ends_in_return(body) else [ast.Return(value=ast.Constant(None))])
                if mode == "return":
                    new = body if _ends_in_return(body) else body + [ast.Return(value=ast.Constant(None))]
                else:
                    try:
                        new = _structure_returns(full, on_ret)
                    except _NoInline:
                        if not self.extended:
                            raise
                        new = _returns_as_breaks(full, on_ret)
                new = new or [ast.Pass()]
                for n in new:
                    ast.copy_location(n, st)
                    ast.fix_missing_locations(n)
                self.inlined.add(call.func.attr)
                return self._stmts(new, level + 1)
        except _NoInline as e:
            self.refused[call.func.attr] = str(e)
            return [st]
        # helper calls inside an `if` test whose body is not a plain expression: bind the result to a temporary first
        if isinstance(st, ast.If):
            pre = []
            for x in [x for x in walk_local(st.test) if self.helper_of(x)]:
                h = self.helper_of(x)
                try:
                    _as_expression(self._body(h, x))
                    continue                      # handled below as an expression
                except _NoInline:
                    pass
                try:
                    body = self._body(h, x)
                    tmp = f"_inl_{x.func.attr.lstrip('_')}"
                    new = _structure_returns(body + ([] if _ends_in_return(body) else [ast.Return(value=ast.Constant(None))]),
                                             lambda v, tmp=tmp: [ast.Assign(targets=[ast.Name(id=tmp, ctx=ast.Store())], value=v if v is not None else ast.Constant(None), lineno=st.lineno)])
                except _NoInline as e:
                    self.refused[x.func.attr] = str(e)
                    continue
                for n in new:
                    ast.copy_location(n, st)
                    ast.fix_missing_locations(n)
                pre.extend(new)
                self.inlined.add(x.func.attr)

                class R(ast.NodeTransformer):
                    def visit_Call(self_, node, x=x, tmp=tmp):
                        if node is x:
                            return ast.copy_location(ast.Name(id=tmp, ctx=ast.Load()), node)
                        return self_.generic_visit(node)
                st.test = R().visit(st.test)
            if pre:
                return self._stmts(pre, level + 1) + [self._exprs(st, level)]
        # helper calls in expression position
        return [self._exprs(st, level)]

    def _exprs(self, st, level):
        outer = self

        class T(ast.NodeTransformer):
            def visit_Call(self, node):
                self.generic_visit(node)
                h = outer.helper_of(node)
                if h is None:
                    g_ = outer._module_helper(node)
                    if g_ is not None:
                        try:
                            e = _as_expression([_Subst(dict(zip([a.arg for a in g_.args.args], node.args))).visit(b) for b in _clone(g_.body)])
                        except _NoInline:
                            return node
                        outer.inlined.add(g_.name)
                        return ast.copy_location(e, node)
                    return node
                try:
                    e = _as_expression(outer._body(h, node))
                except _NoInline as ex:
                    outer.refused[node.func.attr] = str(ex)
                    return node
                outer.inlined.add(node.func.attr)
                return ast.copy_location(e, node)

            def visit_FunctionDef(self, node):
                return node

            visit_Lambda = visit_AsyncFunctionDef = visit_FunctionDef

        if isinstance(st, (ast.If, ast.While)):
            st.test = T().visit(st.test)
            return st
        if isinstance(st, (ast.For, ast.With, ast.Try, ast.FunctionDef, ast.AsyncFunctionDef, ast.ClassDef)):
            if isinstance(st, ast.For):
                st.iter = T().visit(st.iter)
            return st
        return ast.fix_missing_locations(T().visit(st))

    def view(self, func):
        """An analysis copy of ``func`` with unknown private helpers of the same class expanded at their call sites."""
        v = self._views.get(id(func))
        if v is None:
            v = _clone(func)
            v.body = self._stmts(v.body, 0)
            if self.extended:
                self._unpack_through_local(v)
            ast.fix_missing_locations(v)
            for parent in ast.walk(v):
                for child in ast.iter_child_nodes(parent):
                    child._parent = parent  # type: ignore[attr-defined]
            v._parent = getattr(func, "_parent", None)  # type: ignore[attr-defined]
            self._views[id(func)] = v
        return v

    def _unpack_through_local(self, v):
        """``pair = (r, w)`` (or ``pair = None`` on the ways out that are guarded off) ... ``a, b = pair``  ->  ``a = r; b = w`` when r and w are locals
        bound once: unpacking the local is unpacking the one tuple it can hold (unpacking None would raise)."""
        binds = _local_bindings(v)
        tuples: Dict[str, List[ast.AST]] = {}
        for st in walk_local(v):
            if isinstance(st, ast.Assign) and len(st.targets) == 1 and isinstance(st.targets[0], ast.Name):
                tuples.setdefault(st.targets[0].id, []).append(st.value)

        def rewrite(stmts):
            out = []
            for st in stmts:
                for fld in ("body", "orelse", "finalbody"):
                    if isinstance(getattr(st, fld, None), list) and not isinstance(st, (ast.FunctionDef, ast.AsyncFunctionDef, ast.ClassDef)):
                        setattr(st, fld, rewrite(getattr(st, fld)))
                for h in getattr(st, "handlers", []) or []:
                    h.body = rewrite(h.body)
                if isinstance(st, ast.Assign) and len(st.targets) == 1 and isinstance(st.targets[0], (ast.Tuple, ast.List)) and isinstance(st.value, ast.Name):
                    n = st.value.id
                    vals = [x for x in tuples.get(n, []) if not (isinstance(x, ast.Constant) and x.value is None)]
                    tg = st.targets[0]
                    if len(binds.get(n, [])) == len(tuples.get(n, [])) and len(vals) == 1 and isinstance(vals[0], ast.Tuple) and len(vals[0].elts) == len(tg.elts) \
                            and all(isinstance(e, ast.Name) and len(binds.get(e.id, [])) == 1 for e in vals[0].elts) \
                            and not any(isinstance(t, ast.Starred) for t in tg.elts):
                        for t, e in zip(tg.elts, vals[0].elts):
                            out.append(ast.copy_location(ast.Assign(targets=[t], value=_clone(e), lineno=st.lineno), st))
                        continue
                out.append(st)
            return out
        v.body = rewrite(v.body)

    def not_followed(self, func) -> List[str]:
        """What the view of ``func`` still contains that the normaliser could not read through: calls of private helpers of the analysed classes that
        the rules do not know, loops over private generator helpers, ``with`` blocks on context managers defined in the module.  Empty = every
        statement the function executes (up to calls of methods the rules know by name) is in the view."""
        v = self.view(func)
        out = []
        for x in walk_local(v):
            if isinstance(x, ast.Call):
                r = None
                if isinstance(x.func, ast.Attribute) and x.func.attr not in self.known:
                    recv = x.func.value
                    if (isinstance(recv, ast.Name) and (recv.id in ("self", "cls") or recv.id in {c.name for c in self.classes})) or src(recv) in ("type(self)", "self.__class__"):
                        h = self._lookup(x.func.attr)
                        if h is not None and x.func.attr.startswith("_") and not x.func.attr.startswith("__"):
                            r = f"call of the private helper {x.func.attr}() was not inlined" + (f" ({self.refused[x.func.attr]})" if x.func.attr in self.refused else "")
                if r:
                    out.append(r)
            if isinstance(x, ast.With):
                for it in x.items:
                    e = it.context_expr
                    if isinstance(e, ast.Call) and isinstance(e.func, ast.Name) and any(
                            isinstance(n, (ast.ClassDef, ast.FunctionDef)) and n.name == e.func.id and
                            (isinstance(n, ast.FunctionDef) or any(isinstance(m, ast.FunctionDef) and m.name == "__enter__" for m in n.body))
                            for n in self.mod.tree.body):
                        out.append(f"with {src(e)[:50]}: context manager defined in the module was not expanded")
        return sorted(set(out))

    def callers(self):
        """{helper name: set of method names (of the classes) that call it}"""
        out: Dict[str, Set[str]] = {}
        from sa.source import methods as _methods
        for c in self.classes:
            for name, m in _methods(c).items():
                for x in walk_local(m):
                    if isinstance(x, ast.Call) and isinstance(x.func, ast.Attribute) and isinstance(x.func.value, ast.Name) and x.func.value.id == "self":
                        out.setdefault(x.func.attr, set()).add(name)
        return out

    def permitted(self, fname: str, allowed: Iterable[str], _seen=None) -> bool:
        """fname is allowed itself, or it is an unknown private helper all of whose callers are permitted (closure)."""
        allowed = set(allowed)
        if fname in allowed:
            return True
        if fname in self.known:
            return False
        _seen = _seen or set()
        if fname in _seen:
            return False
        _seen.add(fname)
        cs = self.callers().get(fname, set())
        return bool(cs) and all(self.permitted(c, allowed, _seen) for c in cs)


def resolve_locals(func, expr, depth: int = 3):
    """Replace local names that are assigned exactly once in ``func`` (plain assignment) by the assigned expression."""
    if depth <= 0:
        return expr
    defs = {}
    counts: Dict[str, int] = {}
    for st in walk_local(func):
        if isinstance(st, ast.NamedExpr) and isinstance(st.target, ast.Name):       # (name := expr) binds like name = expr
            counts[st.target.id] = counts.get(st.target.id, 0) + 1
            defs[st.target.id] = st.value
        if isinstance(st, (ast.Assign, ast.AugAssign, ast.AnnAssign, ast.For)):
            for t in assigned_targets(st):
                if isinstance(t, ast.Name):
                    counts[t.id] = counts.get(t.id, 0) + 1
                    if isinstance(st, ast.Assign) and len(st.targets) == 1 and st.targets[0] is t:
                        defs[t.id] = st.value
    params = {a.arg for a in getattr(func.args, "args", [])} if hasattr(func, "args") else set()
    mapping = {k: v for k, v in defs.items() if counts.get(k) == 1 and k not in params}

    class _W(ast.NodeTransformer):
        def visit_NamedExpr(self, node):
            return self.visit(node.value)
    if any(isinstance(x, ast.NamedExpr) for x in ast.walk(expr)):
        expr = _W().visit(_clone(expr))
    if not mapping:
        return expr
    new = _Subst(mapping).visit(_clone(expr))
    return resolve_locals(func, new, depth - 1) if src(new) != src(expr) else new


def expand_calls(mod, expr, depth: int = 2):
    """A copy of ``expr`` in which calls of module-level functions whose body is an if/return expression are replaced by that expression (with the
    arguments substituted), so the value can be evaluated without knowing the helper by name."""
    funcs = {n.name: n for n in mod.tree.body if isinstance(n, ast.FunctionDef) and not n.decorator_list
             and not (n.args.vararg or n.args.kwarg or n.args.kwonlyargs)}

    class T(ast.NodeTransformer):
        def visit_Call(self, node):
            self.generic_visit(node)
            h = funcs.get(node.func.id) if isinstance(node.func, ast.Name) else None
            if h is None or node.keywords or len(node.args) != len(h.args.args):
                return node
            try:
                body = _as_expression(_clone(h.body))
            except _NoInline:
                return node
            return _Subst(dict(zip([a.arg for a in h.args.args], node.args))).visit(body)

    out = _clone(expr)
    for _ in range(depth):
        new = T().visit(out)
        if src(new) == src(out):
            break
        out = new
    return ast.fix_missing_locations(out)


class Views:
    """Per-module Inliners for a checker: ``known`` = {module path: {class name: [method names the rules know]}}."""

    def __init__(self, ctx, known: Dict[str, Dict[str, Sequence[str]]], extended: bool = False, base_modules: Optional[Dict[str, Sequence[str]]] = None):
        self.ctx, self.known, self.extended, self.base_modules = ctx, known, extended, base_modules or {}
        self._inl: Dict[str, Inliner] = {}

    def inliner(self, rel) -> Inliner:
        if rel not in self._inl:
            table = self.known.get(rel, {})
            names = {n for ns in table.values() for n in ns}
            names |= {n for r2 in self.base_modules.get(rel, ()) for ns in self.known.get(r2, {}).values() for n in ns}
            self._inl[rel] = Inliner(self.ctx.mod(rel), [c for c in table if c != "<module>"], names, extended=self.extended,
                                     base_modules=[self.ctx.mod(r2) for r2 in self.base_modules.get(rel, ())])
        return self._inl[rel]

    def f(self, rel, qual):
        func = self.ctx.func(rel, qual)
        cls = qual.split(".")[0] if "." in qual else None
        if cls is None or cls not in self.known.get(rel, {}):
            return func
        return self.inliner(rel).view(func)

    def methods(self, rel, cls_name):
        """[(name, function to analyse)]: known methods as inlined views (all computed first), then helpers unknown to the
        rules that could not be inlined at every call site (judged on their own)."""
        from sa.source import methods as _methods
        inl = self.inliner(rel)
        ms = _methods(self.ctx.cls(rel, cls_name))
        known = set(self.known.get(rel, {}).get(cls_name, ()))
        for c in self.known.get(rel, {}):               # populate inl.inlined from every known method of the module first
            if c == "<module>":
                continue
            for n, m in _methods(self.ctx.cls(rel, c)).items():
                if n in self.known[rel][c]:
                    inl.view(m)
        out = [(n, inl.view(m)) for n, m in ms.items() if n in known]
        out += [(n, m) for n, m in ms.items() if n not in known and (n not in inl.inlined or n in inl.refused)]
        return out


class Guarded:
    """A view of the run context through which a VIOLATION of a path / shape rule is only recorded for a function the normaliser read completely.

    The structural rules conclude from what is (not) in the normalised view of a function.  When that view still contains something the normaliser
    could not read through - a private helper it refused to inline, a loop over a generator helper, a ``with`` on a context manager of the module -
    part of what the function does is invisible, and "the guard / call / reset is not there" is not a fact about the code.  In that case the verdict
    is withheld: a note says which rule abstained on which construct and why, and the clause is left to the evaluated (bounded) rules, which run
    the helper instead of reading it.  Rules whose kind is bounded are never withheld."""

    def __init__(self, ctx, kinds: Optional[Dict[str, str]] = None, inliners: Optional[Callable[[], Iterable["Inliner"]]] = None):
        self.__dict__["_ctx"] = ctx
        self.__dict__["_kinds"] = kinds or {}
        self.__dict__["_inliners"] = inliners
        self.__dict__["_why"] = {}

    def __getattr__(self, name):
        return getattr(self.__dict__["_ctx"], name)

    def __setattr__(self, name, value):
        setattr(self.__dict__["_ctx"], name, value)

    def _kind(self, rule: str) -> str:
        best, kind = -1, self._kinds.get("*", "structural")
        for k, v in self._kinds.items():
            if k != "*" and rule.startswith(k) and len(k) > best:
                best, kind = len(k), v
        return kind

    def _all_inliners(self):
        out = list(self._inliners()) if self._inliners else []
        v = self.__dict__.get("_views_d")
        if v is not None:
            out.extend(v._inl.values())
        return out

    def not_followed(self, construct: str) -> List[str]:
        head = construct.split(" | ")[0].strip()
        if head in self._why:
            return self._why[head]
        parts = head.split(".")
        out: List[str] = []
        if len(parts) >= 2:
            cname, mname = parts[-2], parts[-1]
            for inl in self._all_inliners():
                for c in inl.classes:
                    if c.name == cname:
                        m = next((x for x in c.body if isinstance(x, ast.FunctionDef) and x.name == mname), None)
                        if m is not None:
                            out = inl.not_followed(m)
        self._why[head] = out
        return out

    def violation(self, rule: str, construct: str, fails: str, witness: str = "") -> None:
        if self._kind(rule) != "bounded":
            why = self.not_followed(construct)
            if why:
                self._ctx.note(f"{rule}: verdict withheld on {construct}: the function was not read completely ({'; '.join(why)}); it would have been: {fails[:160]}")
                return
        self._ctx.violation(rule, construct, fails, witness)

    def check(self, cond, rule: str, construct: str, fails: str, detail: str = "", witness: str = "") -> bool:
        if cond:
            self._ctx.ok(rule, construct, detail)
        else:
            self.violation(rule, construct, fails, witness)
        return bool(cond)


def abstain_where_twinned(ctx, structural_sections: Iterable[str], twin_sections_prefix: Iterable[str], twin_rules_prefix: Iterable[str], minimum: int) -> None:
    """Anchor errors recorded by ``ctx.section`` for structural rule groups become notes when the evaluated (bounded) twins of those groups ran to the
    end: no error in any twin section and at least ``minimum`` obligations generated by the twin rules.  The clause is then decided by running the code,
    and "the statement the structural rule is anchored on has moved / was renamed" is reported as what it is - the structural layer abstaining."""
    structural_sections, twin_sections_prefix, twin_rules_prefix = list(structural_sections), tuple(twin_sections_prefix), tuple(twin_rules_prefix)
    errs = ctx.errors

    def sec(e):
        return e[1:e.index("]")] if e.startswith("[") and "]" in e else ""
    if any(sec(e).startswith(twin_sections_prefix) for e in errs):
        return
    n = sum(1 for o in ctx.obligations if o["rule"].startswith(twin_rules_prefix))
    if n < minimum:
        return
    keep = []
    for e in errs:
        if sec(e) in structural_sections and "anchor not found" in e:
            ctx.note(f"structural layer abstains ({e}); the clause is decided by the evaluated rules ({n} obligations of {', '.join(twin_rules_prefix)})")
        else:
            keep.append(e)
    errs[:] = keep
