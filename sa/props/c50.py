"""C50 - Filesystem lock is mutually exclusive even when breaking stale locks."""
from __future__ import annotations

import ast

from sa.astx import call_attr, call_name, dotted, src, walk_local
from sa.effects import class_accesses
from sa.selftest import Mutant, Silent
from sa.props._lib_j import (flag_search, flags_at, flag_value, asserted_eq, catching_handler, edge_asserts, is_self_attr, no_exc, node_calls, body_always_entered, normalise, run_sections,
                             normal_exits, params, resolve, rsrc)

PROPERTY = "C50"
LF = "python/lockfile.py"
QL = "twisted.python.lockfile.FilesystemLock"
TECHNIQUE = ("CFG reachability through atomic create (flag-consistent: an outcome local None/True/False is tracked along the path; a private method object is "
             "read as locals), guard dominance, flag typestate, TOCTOU lint")
EXPLANATION = (
    "Decides on the CFG of FilesystemLock.lock: (a) `self.locked = True` / `return True` are reachable only through the normal "
    "(non-raising) out-edge of symlink(str(os.getpid()), self.name), the atomic create, and locked is written True nowhere else; "
    "every error of the create other than EEXIST is re-raised or answered False; no return of lock() is reachable without passing the create "
    "attempt (the answer is decided on disk, never by an in-memory fast path); (b) the stale-lock removal is guarded by "
    "EEXIST, by kill(int(readlink(self.name)), 0) failing with ESRCH exactly, and is followed by a retry of the create (never a "
    "direct claim); the removal itself is checked for an atomic hand-over: rmlink applied to the shared lock path after a "
    "separate readlink of that path is the check-then-act defect F50 (reported as known finding, schedule in "
    "known_findings.d/C50.json); (c) unlock removes only when int(readlink(name)) == os.getpid() and then clears locked; "
    "the `clean` flag published with the lock starts True, becomes False once this call removed a dead owner's link and is never reset inside the retry loop; "
    "isLocked releases what it acquired; the POSIX primitives are os.symlink/readlink/remove/kill and the Windows emulation "
    "publishes the lock name only by rename from a unique temporary. Not decided: the interleaving semantics themselves. "
    "Every anchor function is also checked to be entered on every call (no memoising/wrapping decorator, duplicate definition or rebinding). "
    "Methods: every clause is decided structurally on the CFG of lock/unlock/isLocked (reachability, dominance, flag typestate); nothing is evaluated. "
)
RULE_KINDS = {"*": "structural"}     # CFG reachability through the atomic create, guard dominance, typestate of the clean flag, check-then-act path lint
ASSUMPTIONS = [
    "the rules read a normalised view of the anchored modules (sa/props/_lib_j.Normaliser): private helpers expanded at their call sites, module constants and single-assignment pure temporaries substituted, loops over constant tuples unrolled; evaluation order inside one statement is not modelled",
   
    "os.symlink is an atomic create-if-absent (fails with EEXIST)",
    "kill(pid, 0) raises ESRCH iff no such process exists",
]


def _errno_set(t, lab):
    """Set of errno constant names the edge restricts ``<e>.errno`` to (``== errno.X`` / ``in (errno.X, ...)``)."""
    def names(e):
        elts = e.elts if isinstance(e, (ast.Tuple, ast.List, ast.Set)) else [e]
        ds = [dotted(x) or "" for x in elts]
        return {d.split(".", 1)[1] for d in ds} if ds and all(d.startswith("errno.") for d in ds) else None
    eq = asserted_eq(t, lab)
    if eq:
        for a, b in (eq, eq[::-1]):
            if isinstance(a, ast.Attribute) and a.attr == "errno" and names(b):
                return names(b)
    if isinstance(t, ast.Compare) and len(t.ops) == 1 and ((isinstance(t.ops[0], ast.In) and lab == "T") or (isinstance(t.ops[0], ast.NotIn) and lab == "F")):
        if isinstance(t.left, ast.Attribute) and t.left.attr == "errno":
            return names(t.comparators[0])
    return None


def _s_lock(ctx, S):
    mod = ctx.mod(LF)
    cls = ctx.cls(LF, "FilesystemLock")
    f = ctx.func(LF, "FilesystemLock.lock")
    g = ctx.cfg(f)
    q = QL + ".lock"

    creates = node_calls(g, lambda c: call_name(c) == "symlink")
    ctx.check(len(creates) == 1, "acquire/single-atomic-create", q, f"lock() contains {len(creates)} symlink() calls (exactly one atomic create expected)")
    if not creates:
        return      # the violation above is the verdict: without the atomic create nothing else in lock() can be judged
    cn, cc = creates[0]
    ok = len(cc.args) == 2 and src(cc.args[0]) == "str(os.getpid())" and src(cc.args[1]) == "self.name"
    ctx.check(ok, "acquire/create-names-own-pid", ctx.construct(q, "symlink(<pid>, <name>)"),
              f"the lock link is not created as symlink(str(os.getpid()), self.name): {src(cc)} (ownership test of unlock and stale detection read this value)")
    LOCKPATH = src(cc.args[1]) if len(cc.args) == 2 else "self.name"

    # (a) success only through the non-raising edge of the create
    # All path questions are asked flag-consistently (flag_search): a loop driven by an outcome / done local (None -> True / False) is walked with
    # the value of that local known, so `while outcome is None:` ... `return outcome` reads like `while True:` ... `return True` / `return False`.
    def failed_create(a, b, l):
        return not (a == cn and l != "exc")

    def without_create(target, accept=None):
        """a path from the entry to ``target`` that never leaves the symlink() through its non-raising edge (None: there is none)"""
        return flag_search(g, [g.entry], [target], edge_ok=failed_create, accept=accept)

    def value_of(st):
        return st.value if isinstance(st, ast.Return) and st.value is not None else ast.Constant(None)
    sets = g.ids(lambda n: n.kind == "stmt" and isinstance(n.ast, ast.Assign) and any(is_self_attr(t, "locked") for t in n.ast.targets))
    ctx.check(bool(sets), "acquire/locked-set", q, "lock() never records self.locked = True")
    for s in sets:
        st = g.node(s).ast
        w = without_create(s)
        ctx.check(src(st.value) == "True" and w is None, "acquire/only-through-atomic-create", ctx.construct(q, st),
                  "self.locked = True can be reached without the symlink() of this very attempt having succeeded (e.g. after its error was "
                  "swallowed, or straight after removing a stale lock): two processes can both believe they hold the lock",
                  witness=g.describe(w))
    for x in normal_exits(g):
        st = g.node(x).ast
        val = value_of(st)
        if isinstance(val, ast.Constant) and val.value is False:
            continue
        where = ctx.construct(q, st) if st is not None else q + " | <end of function>"
        not_false = lambda nid, env, val=val: flag_value(val, env) != (True, False)                  # noqa: E731
        undecided = lambda nid, env, val=val: flag_value(val, env) not in ((True, False), (True, True))   # noqa: E731
        w = flag_search(g, [g.entry], [x], accept=undecided) or without_create(x, accept=not_false) or \
            flag_search(g, [g.entry], [x], avoid=sets, edge_ok=no_exc, accept=not_false)
        ctx.check(w is None, "acquire/true-only-when-held", where, "lock() can report success without having created the link (and recorded locked)",
                  witness=g.describe(w))
    # every answer is decided by the filesystem protocol: no return is reachable before the first attempt to create the link (an in-memory fast path -
    # `if self.locked: return False` - answers from a flag that can disagree with the disk after a fork or a release through another object, and then the
    # stale link is never broken)
    for x in normal_exits(g):
        st = g.node(x).ast
        w = flag_search(g, [g.entry], [x], avoid=[cn])
        ctx.check(w is None, "acquire/no-answer-before-the-create", ctx.construct(q, st) if st is not None else q + " | <end of function>",
                  "lock() can answer without having attempted the atomic create: the answer comes from in-memory state, not from the link on disk - when "
                  "they disagree (inherited / stale `locked`) lock() keeps answering and a stale lock is never acquired", witness=g.describe(w))
    # every failure of the create is EEXIST-handled, answered False, or re-raised: covered by through_create_only + this:
    h = catching_handler(cc, f, "OSError")
    ctx.check(h is not None, "acquire/create-errors-handled", q, "an existing lock (EEXIST) makes lock() raise instead of answering False / breaking a stale lock")
    acc = class_accesses(mod, cls, {"locked"}, receivers={"self"})
    for a in acc:
        v = getattr(a.node, "value", None)
        if src(v) == "True":
            ctx.check(a.func == "FilesystemLock.lock", "who-may-write/locked", ctx.construct("twisted.python.lockfile." + a.func, a.node), "locked set True outside lock()")
        else:
            ctx.check(a.func == "FilesystemLock.unlock" and src(v) == "False", "who-may-write/locked", ctx.construct("twisted.python.lockfile." + a.func, a.node),
                      "locked written in an unexpected place")
    ctx.floor("who-may-write/locked", len(acc), 1)

    # (b) stale-lock breaking
    removes = node_calls(g, lambda c: call_name(c) == "rmlink")
    reads = node_calls(g, lambda c: call_name(c) == "readlink")
    kills = node_calls(g, lambda c: call_name(c) == "kill")
    ctx.check(bool(removes) and bool(reads) and bool(kills), "stale/breakable", q,
              "lock() has no readlink/kill/rmlink sequence: a lock left by a dead process can never be acquired")
    for kn, kc in kills:
        pid = resolve(kc.args[0], f) if kc.args else None
        ok = len(kc.args) == 2 and src(kc.args[1]) == "0" and isinstance(pid, ast.Call) and call_name(pid) == "int" and pid.args \
            and src(pid.args[0]) == f"readlink({LOCKPATH})"
        ctx.check(ok, "stale/probe-owner", ctx.construct(q, "kill(<owner pid>, 0)"),
                  f"the liveness probe is not kill(int(readlink({LOCKPATH})), 0): {src(kc)}")
    for rn, rc in removes:
        where = ctx.construct(q, "rmlink(<lock path>) on the stale branch")
        asserts = edge_asserts(g, rn)
        errs = [e for e in (_errno_set(t, lab) for t, lab in asserts) if e]
        ctx.check({"EEXIST"} in errs, "stale/only-when-exists", where, "the lock link is removed although the create did not fail with EEXIST")
        kh = [catching_handler(kc, f, "OSError") for kn, kc in kills]
        in_kill_handler = any(h_ is not None and any(p is h_ for p in _parents(rc)) for h_ in kh)
        ctx.check(in_kill_handler and {"ESRCH"} in errs, "stale/only-when-owner-dead", where,
                  "the lock link is removed without kill(pid, 0) having failed with ESRCH (e.g. on EPERM the owner is alive): a live holder's lock "
                  "is broken and two processes hold it")
        # after a successful removal the create is retried (never a direct claim) - liveness + safety
        w = flag_search(g, [(rn, e_) for e_ in flags_at(g, rn)], {g.exit}, avoid=[cn], edge_ok=no_exc)
        ctx.check(w is None, "stale/retry-create-after-break", where,
                  "after removing the stale link lock() can return without re-trying the atomic create", witness=g.describe(w))
        # ---- F50: the removal must be an atomic compare-and-remove
        arg = src(rc.args[0]) if rc.args else ""
        justified_by_read = any(src(c.args[0]) == arg and g.dominates(n_, rn) for n_, c in reads if c.args)
        shared = arg == LOCKPATH
        ctx.check(not (shared and justified_by_read), "stale/atomic-compare-and-remove", ctx.construct(q, f"rmlink({arg}) after readlink({arg})"),
                  "the stale link is removed by name after a separate readlink/kill of the same name with no atomic hand-over (no rename to a unique "
                  "name + re-verification): P1 and P2 both read the dead pid; P2 removes the link and re-creates it as its own; P1 then removes "
                  "P2's link and creates its own - two holders")
    # vanished lock -> retry
    for n_, c in reads:
        h_ = catching_handler(c, f, "OSError")
        ctx.check(h_ is not None, "stale/read-errors-handled", ctx.construct(q, "readlink(<lock path>)"),
                  "a lock that vanishes between the failed create and readlink makes lock() raise instead of retrying")
        ctx.check(c.args and src(c.args[0]) == LOCKPATH, "stale/read-same-path", ctx.construct(q, c), "readlink reads another path than the one being locked")
    ends = list(normal_exits(g))
    says_false = lambda nid, env: flag_value(value_of(g.node(nid).ast), env) == (True, False)      # noqa: E731
    for kn, kc in kills:
        starts = [(kn, e_) for e_ in flags_at(g, kn)]
        w = flag_search(g, starts, ends, edge_ok=no_exc, accept=lambda nid, env: not says_false(nid, env))
        ctx.check(w is None and flag_search(g, starts, ends, edge_ok=no_exc, accept=says_false) is not None, "stale/live-owner-answers-false",
                  ctx.construct(q, "kill(<owner pid>, 0) succeeded"),
                  "when the probe shows the owner alive, lock() does not answer False on every path (it may break or claim a live lock)", witness=g.describe(w))



def _s_clean(ctx, S):
    """`clean` tells the new holder whether the previous owner released the lock itself.  Typestate of the loop-carried flag: True initially,
    False once this very call removed a dead owner's link, and never back to True inside the retry loop."""
    f = ctx.func(LF, "FilesystemLock.lock")
    g = ctx.cfg(f)
    q = QL + ".lock"
    creates = node_calls(g, lambda c: call_name(c) == "symlink")
    removes = node_calls(g, lambda c: call_name(c) == "rmlink")
    if not creates:
        return
    cn = creates[0][0]
    pubs = g.ids(lambda n: n.kind == "stmt" and isinstance(n.ast, ast.Assign) and any(is_self_attr(t, "clean") for t in n.ast.targets))
    ctx.check(bool(pubs) and all(isinstance(g.node(p).ast.value, ast.Name) for p in pubs), "clean/published-from-loop-flag", q,
              "lock() does not publish self.clean from the flag carried through its retry loop")
    if not pubs or not isinstance(g.node(pubs[0]).ast.value, ast.Name):
        return
    flag = g.node(pubs[0]).ast.value.id
    for x in [e for e in normal_exits(g) if isinstance(g.node(e).ast, ast.Return) and src(g.node(e).ast.value) == "True"]:
        ctx.check(g.must_precede(pubs, [x], exc=False) is None, "clean/published-from-loop-flag", ctx.construct(q, "return True"), "lock() returns True without having set self.clean")
    sets = g.ids(lambda n: n.kind == "stmt" and isinstance(n.ast, (ast.Assign, ast.AugAssign, ast.AnnAssign)) and
                 any(isinstance(t, ast.Name) and t.id == flag for t in (n.ast.targets if isinstance(n.ast, ast.Assign) else [n.ast.target])))
    in_loop = [n for n in sets if g.path([cn], [n], strict=True) is not None]         # reachable again from the create: inside the retry loop
    before = [n for n in sets if n not in in_loop]
    ctx.check(len(before) >= 1 and all(src(g.node(n).ast.value) == "True" for n in before), "clean/starts-true", q, f"the flag {flag} does not start as True before the retry loop")
    for n in in_loop:
        ctx.check(src(g.node(n).ast.value) == "False", "clean/never-reset-inside-retry-loop", ctx.construct(q, g.node(n).ast),
                  f"{flag} is set back to {src(g.node(n).ast.value)} inside the retry loop: a call that has already removed a dead owner's link (rmlink) and then goes "
                  f"round again reports clean=True - the acquirer is told the dead process exited cleanly")
    falses = [n for n in in_loop if src(g.node(n).ast.value) == "False"]
    for rn, rc in removes:
        w = g.path([rn], [cn] + pubs, avoid=falses, edge_ok=no_exc, strict=True)
        ctx.check(bool(falses) and w is None, "clean/false-after-breaking-stale-lock", ctx.construct(q, "rmlink(<lock path>) on the stale branch"),
                  f"after this call removed a dead owner's link the flag {flag} is not set False before the create is retried: the lock is reported as released cleanly",
                  witness=g.describe(w))


def _s_unlock(ctx, S):
    # (c) unlock
    f = ctx.func(LF, "FilesystemLock.unlock")
    g = ctx.cfg(f)
    q = QL + ".unlock"
    rms = node_calls(g, lambda c: call_name(c) == "rmlink")
    ctx.check(len(rms) == 1, "unlock/removes-link", q, "unlock() does not remove the link exactly once")
    for rn, rc in rms:
        ok = False
        for t, lab in edge_asserts(g, rn):
            eq = asserted_eq(resolve(t, f), lab)
            if eq and {src(eq[0]), src(eq[1])} == {f"int(readlink({src(rc.args[0])}))", "os.getpid()"}:
                ok = True
        ctx.check(ok and src(rc.args[0]) == "self.name", "unlock/only-own-lock", ctx.construct(q, "rmlink(self.name)"),
                  "unlock() removes the link without having verified int(readlink(self.name)) == os.getpid(): it can release another process's lock")
        clr = g.ids(lambda n: n.kind == "stmt" and isinstance(n.ast, ast.Assign) and any(is_self_attr(t, "locked") for t in n.ast.targets) and src(n.ast.value) == "False")
        w = g.must_pass([rn], clr, exc=False)
        ctx.check(bool(clr) and w is None, "unlock/clears-locked", q, "unlock() does not clear self.locked after removing the link")
        w = g.path([g.entry], [rn], edge_ok=no_exc)
        ctx.check(w is not None, "unlock/holder-can-release", q, "rmlink is unreachable in unlock()")
    raises = g.ids(lambda n: n.kind == "stmt" and isinstance(n.ast, ast.Raise))
    ctx.check(any("ValueError" in src(g.node(r).ast) for r in raises), "unlock/foreign-lock-rejected", q, "unlock() of a lock owned by another process does not raise ValueError")



def _s_probe(ctx, S):
    # isLocked releases what it took
    f = ctx.func(LF, "isLocked")
    g = ctx.cfg(f)
    q = "twisted.python.lockfile.isLocked"
    lk = node_calls(g, lambda c: call_attr(c) == "lock" and not c.args)
    ul = node_calls(g, lambda c: call_attr(c) == "unlock" and not c.args)
    ctx.need(lk, "l.lock() in isLocked")
    resname = next((src(t) for n_, c in lk for t in getattr(g.node(n_).ast, "targets", [])), None)
    # the lock taken by the probe is released exactly when it was acquired: unlock only under `acquired`, and no normal exit with `acquired` true that skipped it
    # (if lock() raises nothing was acquired, so a try/finally around it is not required)
    okf = bool(ul) and all(g.guarded(n_, lambda e: src(e) == resname, True) for n_, c in ul)
    tests = g.ids(lambda n: n.kind == "test" and src(n.ast) == resname)
    leak = None
    for t in tests:
        tsucc = [d for d, l in g.succ[t] if l == "T" and d not in [n_ for n_, _ in ul]]
        leak = leak or (g.path(tsucc, [g.exit], avoid=[n_ for n_, _ in ul], edge_ok=no_exc) if tsucc else None)
    ctx.check(okf and bool(tests) and leak is None, "probe/releases-what-it-acquired", q,
              "isLocked() does not release (only when acquired, on every normal path) the lock it took to probe", witness=g.describe(leak))
    rets = [g.node(x).ast for x in normal_exits(g)]
    ctx.check(all(isinstance(r, ast.Return) and src(r.value) == f"not {resname}" for r in rets), "probe/answer", q, "isLocked() does not answer `not acquired`")



def _s_posix(ctx, S):
    mod = ctx.mod(LF)
    # POSIX primitives
    want = {"kill": "kill", "readlink": "readlink", "rmlink": {"remove", "unlink"}, "symlink": "symlink"}
    got = {}
    for n in ast.walk(mod.tree):
        if isinstance(n, ast.ImportFrom) and n.module == "os":
            for a in n.names:
                got[a.asname or a.name] = a.name
    for k, v in want.items():
        ctx.check(got.get(k) in (v if isinstance(v, set) else {v}), "primitives/posix", f"twisted.python.lockfile | from os import ... as {k}",
                  f"{k} is bound to os.{got.get(k)} on POSIX")
    imp = [n for n in ast.walk(mod.tree) if isinstance(n, ast.ImportFrom) and n.module == "os" and any((a.asname or a.name) == "symlink" for a in n.names)]
    par = getattr(imp[0], "_parent", None) if imp else None
    ctx.check(isinstance(par, ast.If) and src(par.test) == "not platform.isWindows()" and any(imp[0] is s for s in par.body), "primitives/posix",
              "twisted.python.lockfile | platform switch", "the os primitives are not selected under `not platform.isWindows()`")



def _s_windows(ctx, S):
    # Windows emulation: the lock name appears only by rename from a unique temporary
    ws = ctx.func(LF, "symlink")
    qw = "twisted.python.lockfile.symlink(win32)"
    fname = params(ws)[1]
    rn_ = [c for c in walk_local(ws) if isinstance(c, ast.Call) and call_name(c) in ("rename", "os.rename")]
    ctx.check(len(rn_) == 1 and src(rn_[0].args[1]) == fname and "unique()" in rsrc(rn_[0].args[0], ws), "windows/publish-by-rename", qw,
              "the emulated symlink does not publish the lock name by a single rename from a unique temporary name")
    for c in walk_local(ws):
        if isinstance(c, ast.Call) and (call_name(c) or "").split(".")[-1] in ("mkdir", "_open", "open", "remove", "rmdir", "makedirs", "unlink"):
            ctx.check(all(src(a) != fname for a in c.args), "windows/publish-by-rename", ctx.construct(qw, c),
                      "the emulated symlink creates / removes the lock name itself non-atomically")
    gws = ctx.cfg(ws)
    for h_ in [n for n in gws.nodes if n.kind == "handler" and gws.reachable(n.id)]:
        w = gws.path([h_.id], [gws.exit], edge_ok=no_exc)
        ctx.check(w is None, "windows/create-failure-propagates", ctx.construct(qw, f"except {src(h_.ast.type)}"),
                  "a failed rename (lock exists) is swallowed by the emulated symlink: lock() would believe it created the lock")


def _s_body(ctx, S):
    body_always_entered(ctx, LF, ["FilesystemLock.lock", "FilesystemLock.unlock", "isLocked"], "anchor/body-entered-on-every-call", "twisted.python.lockfile",
                        "lock()/unlock() must consult the filesystem on every call; a memoised or wrapped call reports a lock state that is no longer true")


def check(ctx):
    normalise(ctx, {LF: []})
    run_sections(ctx, [("lock", _s_lock), ("clean", _s_clean), ("unlock", _s_unlock), ("isLocked", _s_probe), ("posix-primitives", _s_posix), ("windows-emulation", _s_windows),
                       ("body-entered", _s_body)])


def _parents(node):
    p = getattr(node, "_parent", None)
    while p is not None:
        yield p
        p = getattr(p, "_parent", None)


# the retry loop of lock() as it stands in the pinned tree (the method-object variants below replace it as a whole)
_LOCK_LOOP = "        clean = True\n        while True:\n            try:\n                symlink(str(os.getpid()), self.name)\n            except OSError as e:\n                if _windows and e.errno in (errno.EACCES, errno.EIO):\n                    # The lock is in the middle of being deleted because we're\n                    # on Windows where lock removal isn't atomic.  Give up, we\n                    # don't know how long this is going to take.\n                    return False\n                if e.errno == errno.EEXIST:\n                    try:\n                        pid = readlink(self.name)\n                    except OSError as e:\n                        if e.errno == errno.ENOENT:\n                            # The lock has vanished, try to claim it in the\n                            # next iteration through the loop.\n                            continue\n                        elif _windows and e.errno == errno.EACCES:\n                            # The lock is in the middle of being\n                            # deleted because we're on Windows where\n                            # lock removal isn't atomic.  Give up, we\n                            # don't know how long this is going to\n                            # take.\n                            return False\n                        raise\n                    try:\n                        if kill is not None:\n                            kill(int(pid), 0)\n                    except OSError as e:\n                        if e.errno == errno.ESRCH:\n                            # The owner has vanished, try to claim it in the\n                            # next iteration through the loop.\n                            try:\n                                rmlink(self.name)\n                            except OSError as e:\n                                if e.errno == errno.ENOENT:\n                                    # Another process cleaned up the lock.\n                                    # Race them to acquire it in the next\n                                    # iteration through the loop.\n                                    continue\n                                raise\n                            clean = False\n                            continue\n                        raise\n                    return False\n                raise\n            self.locked = True\n            self.clean = clean\n            return True\n"
_LOCK_BY_OBJECT = '        attempt = _Try(self)\n        while attempt.result is None:\n            attempt.once()\n        if attempt.result:\n            self.locked = True\n            self.clean = attempt.clean\n        return attempt.result\n'
_TRY_CLASS = 'class _Try:\n    def __init__(self, lock):\n        self.lock = lock\n        self.result = None\n        self.clean = True\n\n    def once(self):\n        try:\n            symlink(str(os.getpid()), self.lock.name)\n        except OSError as e:\n            if _windows and e.errno in (errno.EACCES, errno.EIO):\n                self.result = False\n            elif e.errno == errno.EEXIST:\n                self._stale()\n            else:\n                raise\n        else:\n            self.result = True\n\n    def _stale(self):\n        try:\n            pid = readlink(self.lock.name)\n        except OSError as e:\n            if e.errno == errno.ENOENT:\n                return\n            if _windows and e.errno == errno.EACCES:\n                self.result = False\n                return\n            raise\n        try:\n            if kill is not None:\n                kill(int(pid), 0)\n        except OSError as e:\n            if e.errno != errno.ESRCH:\n                raise\n            try:\n                rmlink(self.lock.name)\n            except OSError as e:\n                if e.errno == errno.ENOENT:\n                    return\n                raise\n            self.clean = False%s\n            return\n        self.result = False\n\n\nclass FilesystemLock:\n'


MUTANTS = [
    Mutant("claim-vanished-lock-directly", LF,
           "                            # The lock has vanished, try to claim it in the\n                            # next iteration through the loop.\n                            continue\n                        elif _windows",
           "                            self.locked = True\n                            return True\n                        elif _windows", expect_rule="acquire/"),
    Mutant("break-lock-on-EPERM", LF, "                        if e.errno == errno.ESRCH:", "                        if e.errno == errno.EPERM:", expect_rule="stale/only-when-owner-dead"),
    Mutant("unlock-without-ownership-test", LF,
           "        if int(pid) != os.getpid():\n            raise ValueError(f\"Lock {self.name!r} not owned by this process\")\n", "", expect_rule="unlock/only-own-lock"),
    Mutant("link-names-parent-pid", LF, "                symlink(str(os.getpid()), self.name)", "                symlink(str(os.getppid()), self.name)", expect_rule="acquire/create-names-own-pid"),
    Mutant("other-create-errors-swallowed", LF, "                    return False\n                raise\n            self.locked = True", "                    return False\n            self.locked = True",
           expect_rule="acquire/only-through-atomic-create"),
    Mutant("break-lock-also-on-EPERM", LF, "                        if e.errno == errno.ESRCH:", "                        if e.errno in (errno.ESRCH, errno.EPERM):",
           expect_rule="stale/only-when-owner-dead"),
    Mutant("claim-after-break-without-create", LF, "                            clean = False\n                            continue\n", "                            self.clean = False\n                            self.locked = True\n                            return True\n",
           expect_rule="acquire/"),
    Mutant("vanished-lock-counts-as-clean", LF, "                            # The lock has vanished, try to claim it in the\n                            # next iteration through the loop.\n                            continue\n                        elif _windows",
           "                            clean = True\n                            continue\n                        elif _windows", expect_rule="clean/never-reset-inside-retry-loop"),
    Mutant("stale-break-not-recorded", LF, "                            clean = False\n                            continue\n", "                            continue\n", expect_rule="clean/false-after-breaking-stale-lock"),
    Mutant("probe-keeps-lock", LF, "        if result:\n            l.unlock()\n", "        if not result:\n            l.unlock()\n", expect_rule="probe/releases-what-it-acquired"),
    Mutant("windows-swallows-rename-failure", LF, "            os.remove(newvalname)\n            os.rmdir(newlinkname)\n            raise\n", "            os.remove(newvalname)\n            os.rmdir(newlinkname)\n",
           expect_rule="windows/create-failure-propagates"),
    # ---- round-3 shape: the retry loop as a private method object (state in attributes, one attempt per call, outcome None / True / False)
    Mutant("method-object-claims-after-removing-the-stale-link", LF, _LOCK_LOOP, _LOCK_BY_OBJECT, expect_rule="stale/retry-create-after-break",
           more=[(LF, "class FilesystemLock:\n", _TRY_CLASS % "\n            self.result = True")]),
    Mutant("method-object-outcome-ignored-when-recording-locked", LF, _LOCK_LOOP, _LOCK_BY_OBJECT.replace("        if attempt.result:\n", "        if attempt.result is not None:\n"),
           expect_rule="acquire/only-through-atomic-create", more=[(LF, "class FilesystemLock:\n", _TRY_CLASS % "")]),
    # ---- round-4: no answer before the first create attempt
    Mutant("answers-from-the-flag-when-a-link-is-there", LF, "        clean = True\n        while True:\n",
           "        if self.locked and os.path.lexists(self.name):\n            return False\n        clean = True\n        while True:\n", expect_rule="acquire/no-answer-before-the-create"),
]
SILENT = [
    Silent("errno-test-reversed", LF, "                        if e.errno == errno.ESRCH:", "                        if errno.ESRCH == e.errno:"),
    Silent("unlock-test-rewritten", LF, "        if int(pid) != os.getpid():\n            raise ValueError(f\"Lock {self.name!r} not owned by this process\")\n        rmlink(self.name)",
           "        if not (os.getpid() == int(pid)):\n            raise ValueError(f\"Lock {self.name!r} not owned by this process\")\n        rmlink(self.name)"),
    Silent("rename-local-pid", LF, "                        pid = readlink(self.name)", "                        ownerPid = readlink(self.name)",
           more=[(LF, "                            kill(int(pid), 0)", "                            kill(int(ownerPid), 0)")]),
    Silent("errno-membership", LF, "                if e.errno == errno.EEXIST:", "                if e.errno in (errno.EEXIST,):"),
    Silent("create-and-claim-in-private-helpers", LF, "                symlink(str(os.getpid()), self.name)\n", "                self._createLink()\n",
           more=[(LF, "            self.locked = True\n            self.clean = clean\n            return True\n", "            return self._held(clean)\n"),
                 (LF, "    def unlock(self):", "    def _createLink(self):\n        me = str(os.getpid())\n        symlink(me, self.name)\n\n    def _held(self, clean):\n        self.locked = True\n        self.clean = clean\n        return True\n\n    def unlock(self):")]),
    Silent("errno-decisions-in-named-temporaries", LF, "                        if e.errno == errno.ESRCH:", "                        ownerIsGone = e.errno == errno.ESRCH\n                        if ownerIsGone:",
           more=[(LF, "                if e.errno == errno.EEXIST:\n", "                code = e.errno\n                if code == errno.EEXIST:\n")]),
    Silent("probe-without-finally", LF, "    l = FilesystemLock(name)\n    result = None\n    try:\n        result = l.lock()\n    finally:\n        if result:\n            l.unlock()\n    return not result",
           "    probe = FilesystemLock(name)\n    got = probe.lock()\n    if got:\n        probe.unlock()\n    return not got"),
    Silent("contention-in-helper-returning-sentinels", LF,
           "                            try:\n                                rmlink(self.name)\n                            except OSError as e:\n                                if e.errno == errno.ENOENT:\n                                    # Another process cleaned up the lock.\n                                    # Race them to acquire it in the next\n                                    # iteration through the loop.\n                                    continue\n                                raise\n                            clean = False\n                            continue\n",
           "                            outcome = self._breakStale()\n                            if outcome is _REMOVED:\n                                clean = False\n                            continue\n",
           more=[(LF, "    def unlock(self):", "    def _breakStale(self):\n        try:\n            rmlink(self.name)\n        except OSError as e:\n            if e.errno == errno.ENOENT:\n                return _GONE\n            raise\n        return _REMOVED\n\n    def unlock(self):"),
                 (LF, "class FilesystemLock:\n", "_GONE = object()\n_REMOVED = object()\n\n\nclass FilesystemLock:\n")]),
    Silent("retry-loop-as-a-private-method-object", LF, _LOCK_LOOP, _LOCK_BY_OBJECT, more=[(LF, "class FilesystemLock:\n", _TRY_CLASS % "")]),
]
