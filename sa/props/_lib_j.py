"""Helpers shared by the C48-C54 checkers (batch J).  Stdlib + sa engine only."""
from __future__ import annotations

import ast
from typing import Callable, Dict, Iterable, List, Optional, Set, Tuple

from sa.astx import body_walk, dotted, src, walk_local
from sa.source import AnalysisError


# ---- names, parameters, local definitions ----------------------------------------------------

def params(func: ast.AST) -> List[str]:
    a = func.args
    return [x.arg for x in list(a.posonlyargs) + list(a.args)]


def bind_args(call: ast.Call, callee: ast.AST, skip_self: bool = False) -> Dict[str, ast.expr]:
    """Map the callee's parameter names to the argument expressions of ``call``."""
    names = params(callee)
    if skip_self and names and names[0] in ("self", "cls"):
        names = names[1:]
    out: Dict[str, ast.expr] = {}
    for n, a in zip(names, call.args):
        out[n] = a
    for k in call.keywords:
        if k.arg is not None:
            out[k.arg] = k.value
    return out


_MUTATORS = {"append", "appendleft", "extend", "add", "update", "insert", "sort", "reverse", "pop", "popleft", "remove", "clear",
             "setdefault", "discard", "popitem"}


def local_defs(func: ast.AST, track_mutation: bool = True) -> Dict[str, List[ast.expr]]:
    """name -> every expression assigned to that plain local name (``x = e``, ``with e as x``);
    for-targets / tuple targets / augmented assignments are recorded as ``None`` (opaque)."""
    out: Dict[str, List[Optional[ast.expr]]] = {}
    for n in body_walk(func):
        if track_mutation and isinstance(n, ast.Call) and isinstance(n.func, ast.Attribute) and isinstance(n.func.value, ast.Name) \
                and n.func.attr in _MUTATORS:
            out.setdefault(n.func.value.id, []).append(None)      # mutated container: not a pure value
        if isinstance(n, (ast.Assign, ast.AugAssign, ast.Delete)):
            for t in (n.targets if not isinstance(n, ast.AugAssign) else [n.target]):
                if isinstance(t, ast.Subscript) and isinstance(t.value, ast.Name):
                    out.setdefault(t.value.id, []).append(None)
        if isinstance(n, ast.Assign):
            for t in n.targets:
                if isinstance(t, ast.Name):
                    out.setdefault(t.id, []).append(n.value)
                elif isinstance(t, (ast.Tuple, ast.List)):
                    for e in ast.walk(t):
                        if isinstance(e, ast.Name):
                            out.setdefault(e.id, []).append(None)
        elif isinstance(n, ast.AnnAssign) and isinstance(n.target, ast.Name) and n.value is not None:
            out.setdefault(n.target.id, []).append(n.value)
        elif isinstance(n, ast.AugAssign) and isinstance(n.target, ast.Name):
            out.setdefault(n.target.id, []).append(None)
        elif isinstance(n, (ast.For, ast.AsyncFor)):
            for e in ast.walk(n.target):
                if isinstance(e, ast.Name):
                    out.setdefault(e.id, []).append(None)
        elif isinstance(n, (ast.With, ast.AsyncWith)):
            for it in n.items:
                if isinstance(it.optional_vars, ast.Name):
                    out.setdefault(it.optional_vars.id, []).append(it.context_expr)
        elif isinstance(n, ast.NamedExpr) and isinstance(n.target, ast.Name):
            out.setdefault(n.target.id, []).append(n.value)
    return out


def clone(n):
    """Deep copy of an AST without the ``_parent`` back-links (copy.deepcopy would follow them and
    copy the whole module)."""
    if isinstance(n, ast.AST):
        new = n.__class__()
        for f in n._fields:
            if hasattr(n, f):
                setattr(new, f, clone(getattr(n, f)))
        for a in ("lineno", "col_offset", "end_lineno", "end_col_offset"):
            if hasattr(n, a):
                setattr(new, a, getattr(n, a))
        return new
    if isinstance(n, list):
        return [clone(x) for x in n]
    return n


class _Subst(ast.NodeTransformer):
    def __init__(self, defs, keep, depth):
        self.defs = defs
        self.keep = keep
        self.depth = depth

    def visit_Name(self, node):
        if isinstance(node.ctx, ast.Load) and node.id not in self.keep:
            vs = self.defs.get(node.id)
            if vs and len(vs) == 1 and vs[0] is not None and self.depth > 0:
                sub = _Subst(self.defs, self.keep | {node.id}, self.depth - 1)
                return sub.visit(clone(vs[0]))
        return node

    def visit_Lambda(self, node):
        return node


def resolve(expr: ast.AST, func_or_defs, keep: Iterable[str] = (), depth: int = 8) -> ast.AST:
    """Copy of ``expr`` in which every local that has exactly one plain definition in the function is
    replaced by that definition (recursively).  Parameters and multiply-defined names stay names.
    The result is only meaningful for comparison of *provenance*, not for evaluation order."""
    defs = func_or_defs if isinstance(func_or_defs, dict) else local_defs(func_or_defs)
    keep = set(keep)
    if not isinstance(func_or_defs, dict):
        keep |= set(params(func_or_defs)) if hasattr(func_or_defs, "args") else set()
    return _Subst(defs, keep, depth).visit(clone(expr))


def rsrc(expr, func_or_defs, keep=()) -> str:
    return src(resolve(expr, func_or_defs, keep))


def names_loaded(node: ast.AST) -> Set[str]:
    return {n.id for n in ast.walk(node) if isinstance(n, ast.Name)}


# ---- taint (flow-insensitive, intra-procedural) ------------------------------------------------

def taint(func: ast.AST, seeds: Iterable[str]) -> Set[str]:
    """Local names whose value may derive from one of ``seeds`` (assignment / for / with /
    ``x[k] = tainted`` / ``x.append(tainted)``)."""
    t = set(seeds)
    changed = True
    nodes = list(body_walk(func))
    while changed:
        changed = False

        def add(target):
            nonlocal changed
            for e in ast.walk(target):
                if isinstance(e, ast.Name) and e.id not in t:
                    t.add(e.id)
                    changed = True

        for n in nodes:
            if isinstance(n, ast.Assign) and names_loaded(n.value) & t:
                for tg in n.targets:
                    if isinstance(tg, ast.Subscript):
                        add(tg.value)
                    else:
                        add(tg)
            elif isinstance(n, (ast.AnnAssign, ast.AugAssign)) and n.value is not None and names_loaded(n.value) & t:
                add(n.target)
            elif isinstance(n, (ast.For, ast.AsyncFor)) and names_loaded(n.iter) & t:
                add(n.target)
            elif isinstance(n, (ast.With, ast.AsyncWith)):
                for it in n.items:
                    if it.optional_vars is not None and names_loaded(it.context_expr) & t:
                        add(it.optional_vars)
            elif isinstance(n, ast.Call) and isinstance(n.func, ast.Attribute) and n.func.attr in ("append", "extend", "add", "update", "insert", "setdefault"):
                if any(names_loaded(a) & t for a in n.args) and isinstance(n.func.value, ast.Name):
                    add(n.func.value)
    return t


# ---- try / handler structure -------------------------------------------------------------------

def enclosing_trys(node: ast.AST, func: ast.AST) -> List[Tuple[ast.Try, str]]:
    """Innermost-first list of (Try, part) where part in body/handlers/orelse/finalbody says in which
    part of that try statement ``node`` lives; stops at ``func``."""
    out = []
    child = node
    p = getattr(node, "_parent", None)
    while p is not None and child is not func:
        if isinstance(p, ast.Try):
            part = None
            for name in ("body", "orelse", "finalbody"):
                if any(child is s for s in getattr(p, name)):
                    part = name
            if part:
                out.append((p, part))
        elif isinstance(p, ast.ExceptHandler):
            gp = getattr(p, "_parent", None)
            if isinstance(gp, ast.Try):
                out.append((gp, "handlers"))
                child = gp
                p = getattr(gp, "_parent", None)
                continue
        child = p
        p = getattr(p, "_parent", None)
    return out


def handler_names(h: ast.ExceptHandler) -> List[str]:
    if h.type is None:
        return ["<bare>"]
    elts = h.type.elts if isinstance(h.type, ast.Tuple) else [h.type]
    return [(dotted(e) or src(e)) for e in elts]


EXC_FAMILY = {
    # exception actually raised -> handler names that catch it
    "binascii.Error": {"binascii.Error", "Error", "ValueError", "Exception", "BaseException", "<bare>"},
    "ValueError": {"ValueError", "Exception", "BaseException", "<bare>"},
    "UnicodeDecodeError": {"UnicodeDecodeError", "UnicodeError", "ValueError", "Exception", "BaseException", "<bare>"},
    "UnicodeEncodeError": {"UnicodeEncodeError", "UnicodeError", "ValueError", "Exception", "BaseException", "<bare>"},
    "UnicodeError": {"UnicodeError", "ValueError", "Exception", "BaseException", "<bare>"},
    "KeyError": {"KeyError", "LookupError", "Exception", "BaseException", "<bare>"},
    "IndexError": {"IndexError", "LookupError", "Exception", "BaseException", "<bare>"},
    "OSError": {"OSError", "IOError", "EnvironmentError", "Exception", "BaseException", "<bare>"},
    "BaseException": {"BaseException", "<bare>"},
    "Exception": {"Exception", "BaseException", "<bare>"},
}


def catching_handler(node: ast.AST, func: ast.AST, exc: str) -> Optional[ast.ExceptHandler]:
    """The handler that receives exception ``exc`` raised at ``node`` (innermost try whose body
    contains the node and that has a covering handler), or None when it escapes the function."""
    fam = EXC_FAMILY[exc]
    for t, part in enclosing_trys(node, func):
        if part != "body":
            continue
        for h in t.handlers:
            if set(handler_names(h)) & fam:
                return h
    return None


# ---- guards --------------------------------------------------------------------------------------

def asserted_eq(test: ast.AST, lab: str) -> Optional[Tuple[ast.expr, ast.expr]]:
    """(lhs, rhs) when taking edge ``lab`` of atomic test ``test`` establishes lhs == rhs."""
    if isinstance(test, ast.Compare) and len(test.ops) == 1:
        op = test.ops[0]
        if (isinstance(op, ast.Eq) and lab == "T") or (isinstance(op, ast.NotEq) and lab == "F"):
            return test.left, test.comparators[0]
    return None


def asserted_in(test: ast.AST, lab: str) -> Optional[Tuple[ast.expr, ast.expr]]:
    if isinstance(test, ast.Compare) and len(test.ops) == 1:
        op = test.ops[0]
        if (isinstance(op, ast.In) and lab == "T") or (isinstance(op, ast.NotIn) and lab == "F"):
            return test.left, test.comparators[0]
    return None


def asserted_is(test: ast.AST, lab: str) -> Optional[Tuple[ast.expr, ast.expr, bool]]:
    """(lhs, rhs, positive): edge establishes ``lhs is rhs`` (positive) or ``lhs is not rhs``."""
    if isinstance(test, ast.Compare) and len(test.ops) == 1:
        op = test.ops[0]
        if isinstance(op, (ast.Is, ast.IsNot)):
            pos = isinstance(op, ast.Is) == (lab == "T")
            return test.left, test.comparators[0], pos
    return None


def edge_asserts(g, n: int):
    """[(test ast, label)] for the dominating test edges of node n."""
    return [(g.node(t).ast, lab) for t, lab in g.edge_guards(n)]


def normal_exits(g) -> List[int]:
    """CFG nodes with an edge into the normal exit (returns and fall-off-the-end)."""
    return [p for p, l in g.pred[g.exit] if g.reachable(p)]


def node_calls(g, pred: Callable[[ast.Call], bool]) -> List[Tuple[int, ast.Call]]:
    """(cfg node, call) for every call in a reachable node's own expressions satisfying pred."""
    out = []
    for n in g.nodes:
        if n.ast is None or n.kind in ("join", "with_exit", "handler") or not g.reachable(n.id):
            continue
        if n.kind == "for":
            roots = [n.ast.iter]
        elif n.kind == "with":
            roots = [it.context_expr for it in n.ast.items]
        elif isinstance(n.ast, (ast.FunctionDef, ast.AsyncFunctionDef, ast.ClassDef)):
            # a nested definition executes only its decorators / defaults here, not its body
            roots = list(n.ast.decorator_list)
            if not isinstance(n.ast, ast.ClassDef):
                roots += [d for d in list(n.ast.args.defaults) + list(n.ast.args.kw_defaults) if d is not None]
        else:
            roots = [n.ast]
        for r in roots:
            for x in walk_local(r):
                if isinstance(x, ast.Call) and pred(x):
                    out.append((n.id, x))
    return out


def no_exc(a, b, l):
    return l != "exc"


def all_paths(g, start: int, stops: Set[int], edge_ok=no_exc, limit: int = 4000) -> List[List[int]]:
    """All simple paths from start to any node in ``stops`` (acyclic enumeration with a cap)."""
    out: List[List[int]] = []
    stack = [(start, [start])]
    while stack:
        n, path = stack.pop()
        if n in stops and len(path) > 1:
            out.append(path)
            continue
        for b, l in g.succ[n]:
            if edge_ok is not None and not edge_ok(n, b, l):
                continue
            if b in path:
                continue
            if len(out) + len(stack) > limit:
                raise AnalysisError("path enumeration exceeded its cap")
            stack.append((b, path + [b]))
    return out


def is_self_attr(node, name=None, recv="self"):
    return (isinstance(node, ast.Attribute) and isinstance(node.value, ast.Name) and node.value.id == recv
            and (name is None or node.attr == name))


def funcs_in_class(cls: ast.ClassDef):
    """(qualified suffix, function) for methods and their nested functions/lambdas."""
    out = []

    def rec(node, prefix):
        for ch in ast.iter_child_nodes(node):
            if isinstance(ch, (ast.FunctionDef, ast.AsyncFunctionDef)):
                out.append((prefix + ch.name, ch))
                rec(ch, prefix + ch.name + ".")
            elif isinstance(ch, ast.Lambda):
                out.append((prefix + "<lambda>", ch))
                rec(ch, prefix + "<lambda>.")
            elif isinstance(ch, ast.ClassDef):
                continue
            else:
                rec(ch, prefix)
    rec(cls, cls.name + ".")
    return out


# ---- sections / shared state -----------------------------------------------------------------------

class State:
    """Values handed from one rule group to the next; a value that an earlier (failed) group did not
    produce reads as None and ``dep`` turns its use into an AnalysisError of the *dependent* group only."""

    def __getattr__(self, name):
        return None


def dep(value, what: str):
    if value is None:
        raise AnalysisError(f"depends on an unreadable earlier group: {what}")
    return value


def run_sections(ctx, sections):
    """sections: [(name, fn(ctx, S))]; each runs inside ``ctx.section(name)`` (when the engine offers it)."""
    S = State()
    for name, fn in sections:
        if hasattr(ctx, "section"):
            with ctx.section(name):
                fn(ctx, S)
        else:
            fn(ctx, S)
    return S


# ---- "the body is entered on every call" -----------------------------------------------------------

_TRANSPARENT = {"overload", "typing.overload", "abstractmethod", "abc.abstractmethod", "staticmethod", "classmethod", "final", "typing.final"}


def body_always_entered(ctx, rel: str, quals: Iterable[str], rule: str, modprefix: str, why: str, allow: Iterable[str] = ()) -> None:
    """Every rule of a property reasons about the *body* of its anchor functions (dominance, must-pass).
    That reasoning is void if a call can be answered without entering the body: a decorator that may
    short-circuit (functools.lru_cache / cache / cached_property / any unknown wrapper), a second
    definition of the same name, or a later rebinding ``name = wrapper(name)`` in the class / module.
    One obligation per anchor."""
    mod = ctx.mod(rel)
    allow = set(allow) | _TRANSPARENT
    for qual in quals:
        defs_ = [d for d in mod.find_all(qual) if isinstance(d, (ast.FunctionDef, ast.AsyncFunctionDef))]
        if not defs_:
            raise AnalysisError(f"anchor vanished: function {rel}:{qual}")
        where = f"{modprefix}.{qual}"
        real = [d for d in defs_ if not any((dotted(x.func if isinstance(x, ast.Call) else x) or "") in ("overload", "typing.overload") for x in d.decorator_list)]
        bad = []
        for d in real:
            for x in d.decorator_list:
                nm = dotted(x.func if isinstance(x, ast.Call) else x) or src(x)
                if nm not in allow:
                    bad.append("@" + src(x))
        name = qual.split(".")[-1]
        owner = getattr(real[0], "_parent", None) if real else None
        rebound = []
        if owner is not None:
            for st in getattr(owner, "body", []):
                tg = st.targets if isinstance(st, ast.Assign) else ([st.target] if isinstance(st, (ast.AnnAssign, ast.AugAssign)) else [])
                if any(isinstance(t, ast.Name) and t.id == name for t in tg):
                    rebound.append(src(st))
        if isinstance(owner, ast.ClassDef):
            for st in ast.walk(mod.tree):
                if isinstance(st, ast.Assign) and any(isinstance(t, ast.Attribute) and t.attr == name and dotted(t.value) == owner.name for t in st.targets):
                    rebound.append(src(st))
                if isinstance(st, ast.Call) and dotted(st.func) == "setattr" and len(st.args) >= 2 and dotted(st.args[0]) == owner.name \
                        and isinstance(st.args[1], ast.Constant) and st.args[1].value == name:
                    rebound.append(src(st))
        problems = bad + (["defined %d times" % len(real)] if len(real) > 1 else []) + ["rebound: " + r for r in rebound]
        ctx.check(not problems, rule, where,
                  f"{name} can return without executing its body ({'; '.join(problems)}): {why}")
